"""C24  Rate limiter never exceeds its rate and admits as soon as possible.

Real hailtop.utils.rate_limiter.RateLimiter on the virtual loop; time.time is the virtual clock.  A
configuration is (count, window, multiset of arrival times, optional cancellation of one entrant at a given
time).  Entrants sleep until their arrival time and then do `async with limiter`.  Explored: who wakes first
when several timers fire together, a newcomer overtaking a waiter that was just woken, a cancellation landing
before the entrant arrived, while it sleeps inside the limiter, or after its timer fired but before it resumed.
Scheduling model (only schedules real asyncio can produce): the ready queue is strictly FIFO, so a freshly
created task takes its first step in creation order; every yield of a harness body, every arrival and the
cancellation are external events which the environment completes in any order, appending the completion at
the end of the ready queue (timers due at one instant fire in any order too).  All such orders are explored.

Oracle, an on-line monitor that knows nothing about the implementation:
  rate   at every admission at time t, the number of admissions in the half-open window (t - W, t] is <= count;
  asap   whenever nothing is runnable at the current instant and some entrant is still waiting inside the
         limiter, the earliest instant s >= now at which one more admission would keep the rate
         (s = max(now, time of the count-th most recent admission + W)) must not lie before the next scheduled
         wake-up: otherwise nobody will be admitted at s although that is possible.
No order among waiters is demanded (the statement gives none).  A cancelled entrant simply stops waiting.
"""
import ast
import asyncio
import itertools

from vf import par, vloop, vloopx

NEEDS_SERVICES = False
T0 = 1000.0
EPS = 1e-9
MAX_STEPS = 400  # a normal execution needs well under 100 callbacks
LAGS = (0, 0.5, 2.5)  # a wake-up may come this much later than its timer's due time (less / more than a window)


class BodyError(Exception):
    pass


def make_run_one(count, window, arrivals, victim, lag_budget=0, exits=None, reduce=True):
    """exits: None (every guarded body ends at once, normally) or one of 'ok' | 'raise' | 'hold' (one external yield, then
    ends normally) | 'raise1' (one external yield, then raises) per entrant."""
    """arrivals: tuple of arrival times; victim: None | (entrant index, cancel time)."""
    from hailtop.utils.rate_limiter import RateLimit, RateLimiter

    n = len(arrivals)

    def run(chooser):
        loop = vloopx.XLoop(chooser, t0=T0)
        loop.ext_mode = True  # FIFO ready queue + environment-completed external events / same-instant timers (see vloopx)
        loop.lag_choices = LAGS
        loop.lag_budget = lag_budget
        lim = RateLimiter(RateLimit(count, window))
        ph = ['new'] * n
        admitted = []  # absolute admission times, in order
        adm_of = [None] * n
        tasks = {}
        st = {'viol': None, 'sig': None, 'ctl': None, 'waited': 0, 'livelock': False}

        def fail(sig, msg):
            if st['viol'] is None:
                st['viol'] = msg
                st['sig'] = sig

        def rel(t):
            return round(t - T0, 9)

        async def entrant(i):
            try:
                ph[i] = 'before'
                if arrivals[i] > 0:
                    await asyncio.sleep(arrivals[i])
                else:
                    await vloopx.ext_yield()  # arrival at t=0 is an external event (so a cancellation can precede it)
                ph[i] = 'waiting'
                async with lim:
                    t = vloop.now()
                    ph[i] = 'admitted'
                    adm_of[i] = t
                    admitted.append(t)
                    inwin = [x for x in admitted if x > t - window + EPS]
                    if len(inwin) > count:
                        fail('rate-exceeded', f'count={count} window={window:g}: admission at t={rel(t):g} is number {len(inwin)} in the window '
                             f'({rel(t) - window:g}, {rel(t):g}]; admissions so far at {[rel(x) for x in admitted]}; arrivals {arrivals}; '
                             f'how the guarded bodies end: {exits or "normally"}; states {ph}; cancellation: {st["ctl"]}')
                    # the guarded body: an entrant that was admitted stays admitted however its body ends
                    kind = exits[i] if exits else 'ok'
                    if kind in ('hold', 'raise1'):
                        ph[i] = 'inside'
                        await vloopx.ext_yield()
                    if kind in ('raise', 'raise1'):
                        ph[i] = 'raised'
                        raise BodyError()
                    ph[i] = 'left'
            except BodyError:
                pass
            except asyncio.CancelledError:
                ph[i] = 'cancelled-inside' if ph[i] == 'inside' else 'cancelled'

        def on_quiescent():
            waiting = [i for i in range(n) if ph[i] == 'waiting' and not tasks[i].done()]
            if not waiting:
                return
            st['waited'] = max(st['waited'], len(waiting))
            now = vloop.now()
            s = now if len(admitted) < count else max(now, sorted(admitted)[-count] + window)
            nxt = loop._next_timer()
            nxt_t = nxt._when if nxt is not None else float('inf')
            if s < nxt_t - EPS:
                fail('admitted-later-than-possible', f'count={count} window={window:g}, arrivals {arrivals}: at t={rel(now):g} entrant(s) {waiting} '
                     f'wait inside the limiter; admissions so far at {[rel(x) for x in admitted]}, so one more could be admitted at t={rel(s):g}, '
                     f'but the next wake-up is ' + (f'at t={rel(nxt_t):g}' if nxt is not None else 'never') + f'; cancellation: {st["ctl"]}')

        def wake_pending(t):
            return any(getattr(getattr(h, '_callback', None), '__self__', None) is t and not h._cancelled for h in loop._ready)

        async def controller(v, t):
            if t > 0:
                await asyncio.sleep(t)
            await vloopx.ext_yield()  # lands at a moment of the environment's choosing within that instant
            tk = tasks[v]
            if tk.done():
                kind = 'after-exit'
            elif ph[v] in ('new', 'before'):
                kind = 'before-arrival'
            elif ph[v] == 'waiting':
                kind = 'woken-before-resume' if wake_pending(tk) else 'while-sleeping-inside'
            elif ph[v] == 'inside':
                kind = 'inside-the-guarded-body'
            else:
                kind = 'after-exit'
            st['ctl'] = kind
            tk.cancel()

        async def setup():
            lp = asyncio.get_running_loop()
            for i in range(n):
                tasks[i] = lp.create_task(entrant(i), name=f'e{i}')
            if victim is not None:
                lp.create_task(controller(*victim), name='ctl')

        def independent(h):
            aff = vloopx.affected_tasks(h)
            if aff is None:
                return False
            if victim is not None and st['ctl'] is None and tasks.get(victim[0]) in aff:
                return False
            return True

        def state():
            now = loop._vtime
            items = tuple(round(x - now, 9) for x in getattr(lim, '_items', ()))
            return (tuple(ph), tuple(round(x - now, 9) for x in admitted if x > now - 2 * window), len(admitted), items, st['ctl'],
                    st['waited'], st['viol'] is None, tuple(vloopx.pc(t) for t in tasks.values()))

        loop.state_fn = state
        loop.quiescent_hook = on_quiescent
        loop.run(setup(), max_steps=50)
        try:
            n_steps = loop.drain(max_steps=MAX_STEPS)
            if n_steps >= MAX_STEPS:
                raise vloop.HorizonExceeded(f'{MAX_STEPS} steps')
        except vloop.HorizonExceeded:
            st['livelock'] = True
            waiting = [i for i in range(n) if ph[i] == 'waiting']
            fail('admitted-later-than-possible', f'count={count} window={window:g}, arrivals {arrivals}: entrant(s) {waiting} spin inside the limiter '
                 f'without ever being admitted ({MAX_STEPS} steps at t={rel(loop._vtime):g}); admissions so far at {[rel(x) for x in admitted]}')
        errs = loop.finish()
        for e in errs:
            if e.get('exception') is not None and not isinstance(e['exception'], asyncio.CancelledError):
                raise RuntimeError(f'C24 harness: unexpected loop error {e.get("message")}: {e["exception"]!r}')
        outcome = (st['ctl'], tuple(ph), tuple(rel(x) for x in admitted), st['waited'], tuple(l for _, l in loop.lag_log), st['livelock'])
        return outcome, st['viol'], st['sig']

    def run_one(chooser):
        with vloop.owned_time():
            return run(chooser)

    return run_one


def _explore_config(cfg):
    r = vloop.explore(make_run_one, cfg, bound=None, procs=1, determinism_checks=2)
    cnt = {}

    def bump(k, c):
        cnt[k] = cnt.get(k, 0) + c

    for k, c in r.outcomes.items():
        ctl, ph, adm, waited, lags, livelock = ast.literal_eval(k)
        if 'raised' in ph:
            bump('a-guarded-body-raised', c)
        if lags:
            bump('late-wake-up', c)
            if waited:
                bump('late-wake-up-with-a-waiter', c)
        if ctl:
            bump('cancel:' + ctl, c)
        if waited:
            bump('an-entrant-had-to-wait', c)
        if waited >= 2:
            bump('two-or-more-waiting-together', c)
        if len(set(adm)) < len(adm):
            bump('two-admissions-at-one-instant', c)
    best = {}
    for s, msg, ch in r.violations:
        if s not in best or (len(ch), ch) < (len(best[s][2]), best[s][2]):
            best[s] = (s, msg, ch)
    return (cfg, r.executions, r.choice_points, len(r.outcomes), r.distinct_states, sorted(best.values()), r.samples[:1], cnt)


def _size(cfg):
    count, window, arrivals, victim, lagb = cfg[:5]
    return (len(arrivals), 0 if victim is None else 1, lagb, sum(arrivals), count, window, arrivals, victim or (-1, -1), cfg[5] if len(cfg) > 5 else ())


def configs(tier):
    out = []
    if tier == 'quick':
        plan = [((1, 2), (1.0, 2.0), n, (0, 0.5, 1.0, 2.0), (0, 1.0, 2.0), 1, False) for n in (2, 3)]
    else:
        plan = [((1, 2, 3), (1.0, 2.0), 2, (0, 0.5, 1.0, 1.5, 2.0, 2.25), (0, 0.5, 1.0, 1.5, 2.0, 2.5, 3.0), 2, True),
                ((1, 2, 3), (1.0, 2.0), 3, (0, 0.5, 1.0, 1.5, 2.0, 2.25), (0, 0.5, 1.0, 1.5, 2.0, 2.5, 3.0), 2, False),
                ((1, 2, 3), (1.0, 2.0), 4, (0, 0.5, 1.0, 2.0), (0, 1.0, 2.0), 1, False),
                ((1, 2), (1.0, 2.0), 5, (0, 0.5, 1.0, 2.0), (), 0, False)]
    seen = set()
    for counts, windows, n, times, ctimes, lagb, lag_with_victim in plan:
        for arr in itertools.combinations_with_replacement(times, n):
            victims = [None]
            for t in ctimes:
                for v in range(n):
                    if v > 0 and arr[v] == arr[v - 1]:
                        continue  # entrants with equal arrival are interchangeable
                    victims.append((v, t))
            for c in counts:
                for w in windows:
                    for v in victims:
                        cfg = (c, w, arr, v, lagb if (v is None or lag_with_victim) else 0)
                        if cfg not in seen:
                            seen.add(cfg)
                            out.append(cfg)
    # guarded bodies that raise / are cancelled inside: enough entrants to refill the window within one period
    fam = [(1, 3), (2, 4)] if tier == 'quick' else [(1, 3), (2, 4), (1, 4), (3, 5)]
    for c, n in fam:
        for arr in itertools.combinations_with_replacement((0, 0.5), n):
            for ex in itertools.product(('ok', 'raise', 'hold', 'raise1'), repeat=n):
                nonok = sum(1 for e in ex if e != 'ok')
                if nonok == 0 or nonok > (1 if (tier == 'quick' and n >= 4) else 2):
                    continue
                if any(arr[j] == arr[j - 1] and ex[j] < ex[j - 1] for j in range(1, n)):
                    continue  # interchangeable entrants: one representative
                victims = [None] + [(v, t) for v in range(n) if ex[v] in ('hold', 'raise1') for t in (0, 0.5) if t >= arr[v]
                                    and not (v > 0 and arr[v] == arr[v - 1] and ex[v] == ex[v - 1])]
                for v in victims:
                    for w in ((1.0,) if tier == 'quick' else (1.0, 2.0)):
                        out.append((c, w, arr, v, 1 if (v is None and n <= 3) else 0, ex))
    out.sort(key=_size)
    return out


SELFCHECK = [
    (1, 1.0, (0, 0), (1, 1.0), 0, None),
    (2, 1.0, (0, 0, 0.5), None, 1, None),
    (1, 2.0, (0, 0.5, 2.0), (1, 2.0), 1, None),
    (1, 1.0, (0, 0, 0.5), (0, 0), 0, ('hold', 'raise', 'ok')),
]


def _selfcheck_pruning():
    for cfg in SELFCHECK:
        a = vloop.explore(make_run_one, cfg + (True,), bound=None, procs=1)
        b = vloop.explore(make_run_one, cfg + (False,), bound=None, procs=1, prune=False, cap=8000)
        # (the last element of the tuple is the unused `reduce` flag)
        # executions that spin until the step horizon (only a broken limiter does that) revisit states for ever: the pruned
        # search rightly cuts such cycles, so they are left out of the comparison
        ao = {o for o in a.outcomes if not ast.literal_eval(o)[-1]}
        bo = {o for o in b.outcomes if not ast.literal_eval(o)[-1]}
        if not bo <= ao or (not b.capped and ao != bo):
            raise RuntimeError(f'reduction lost outcomes for {cfg}: {sorted(set(b.outcomes) ^ set(a.outcomes))[:3]}')
        va, vb = {v[0] for v in a.violations}, {v[0] for v in b.violations}
        if not vb <= va or (not b.capped and va != vb):
            raise RuntimeError(f'reduction changed the violation set for {cfg}')


def check(tier, seed, procs):
    _selfcheck_pruning()
    allc = configs(tier)
    rows = par.pmap(_explore_config, par.rotate(allc[::-1], seed), procs, chunksize=8)
    rows.sort(key=lambda r: _size(r[0]))
    execs = sum(r[1] for r in rows)
    points = sum(r[2] for r in rows)
    outcomes = sum(r[3] for r in rows)
    dstates = sum(r[4] for r in rows)
    cnt = {}
    for r in rows:
        for k, c in r[7].items():
            cnt[k] = cnt.get(k, 0) + c
    violations = []
    nviol_cfg = 0
    for r in rows:
        if r[5]:
            nviol_cfg += 1
        for sig, msg, choices in r[5]:
            violations.append({'signature': sig, 'message': msg, 'replay': {'config': r[0], 'choices': choices}})
    samples = [{'config': r[0], **r[6][0]} for r in rows[-3:] if r[6]]
    cov = {
        'states': dstates,
        'transitions': points,
        'traces_validated_against_impl': execs,
        'samples': samples,
        'exhaustive': True,
        'configurations': len(allc),
        'configurations_with_a_violation': nviol_cfg,
        'schedules_executed': execs,
        'distinct_outcomes': outcomes,
        'executions_by_feature': dict(sorted(cnt.items())),
        'deviation_bound': 'unbounded (every order of timer/external-event completions at every instant over a FIFO ready queue, state-hash pruned)',
        'bounds': ('guarded bodies that raise (at once / after a yield) or are cancelled inside, mixed with normal ones: count 1 with 3 entrants, '
                   'count 2 with 4' + (' (one such body, no late wake-up)' if tier == 'quick' else ', count 1 with 4, count 3 with 5') +
                   ', arrivals 0/0.5 s, <=2 such bodies, cancellation at 0/0.5 s; and: ') + (
                   'count 1-2, window 1 s / 2 s, 2-3 entrants arriving at 0/0.5/1/2 s, at most one entrant cancelled at 0/1/2 s; without a '
                   'cancellation at most one late wake-up (lag 0.5 or 2.5 s)' if tier == 'quick' else
                   'late wake-ups (lag 0.5 / 2.5 s): <=2 per execution for 2-3 entrants (3 entrants: only without cancellation), <=1 for 4 entrants '
                   'without cancellation; ' +
                   'count 1-3, window 1 s / 2 s; 2-3 entrants arriving at 0/0.5/1/1.5/2/2.25 s with <=1 cancelled at 0/0.5/1/1.5/2/2.5/3 s; '
                   '4 entrants arriving at 0/0.5/1/2 s with <=1 cancelled at 0/1/2 s; 5 entrants (count 1-2) arriving at 0/0.5/1/2 s, none cancelled'),
    }
    need = ['cancel:inside-the-guarded-body', 'a-guarded-body-raised', 'late-wake-up-with-a-waiter', 'cancel:before-arrival', 'cancel:while-sleeping-inside', 'cancel:woken-before-resume', 'cancel:after-exit',
            'an-entrant-had-to-wait', 'two-or-more-waiting-together', 'two-admissions-at-one-instant']
    missing = [k for k in need if not cnt.get(k)]
    return {
        'coverage': cov,
        'violations': violations,
        'assumptions': [
            'every execution is the real RateLimiter on a virtual asyncio loop; time.time and the loop clock are the same virtual clock',
            'virtual time advances only when no callback is runnable (callbacks take zero time); times are multiples of 0.25 s (exact in binary)',
            'entrants with the same arrival time are interchangeable (configurations are multisets of arrival times)',
            'only schedules real asyncio can produce: the ready queue is FIFO (a new task takes its first step in creation order, before '
            'anything queued later); the environment decides when each external event completes (every yield of a harness body, '
            'arrivals, the cancellation) and which of the timers due at one instant fires next, and appends that completion at the '
            'end of the ready queue; every such order is explored',
            'an admission is the instant __aenter__ returned; it counts for the rate however the guarded body ends (returns, raises, is cancelled)',
            'no order among waiting entrants is demanded; "as soon as possible" is judged for the set of waiters',
            f'late wake-ups: when time advances to the next timer the environment may overshoot its due time by one of {LAGS} s (bounded number per '
            'execution, see bounds); the rate is judged on the real instants at which entrants leave __aenter__; "as soon as possible" is judged '
            'against the due time of the wake-up the limiter scheduled, so a late wake-up is never blamed on the limiter',
        ],
        # a reported violation is itself evidence that the run was not vacuous (a broken implementation may skip a feature)
        'vacuous': f'never exercised: {missing}' if missing and not violations else None,
    }


def replay(obj):
    c, w, arr, v, lagb = obj['config'][:5]
    ex = tuple(obj['config'][5]) if len(obj['config']) > 5 and obj['config'][5] else None
    x = vloop.run_prefix(make_run_one(c, w, tuple(arr), None if v is None else tuple(v), lagb, ex), tuple(obj['choices']))
    return x.violation is None, x.violation or 'no violation'
