"""C34  Genotype call packing agrees with the engine.

JVM side: `Call0` / `Call1` / `Call2` (whole objects), the packing / unpacking members of `object Call`
(apply, ploidy, isPhased, alleleRepr, allelePair, allelePairUnchecked, alleleByIndex, alleles, unphasedDiploidGtIndex, ...)
from hail/hail/src/is/hail/variant/Call.scala and `AllelePair` + the index arithmetic of `object Genotype`
(smallAllelePair, allelePair, allelePairSqrt, allelePairRecursive, diploidGtIndex, diploidGtIndexWithSwap) from
Genotype.scala, sliced verbatim and run on a JVM.
Python side: the real `hail.expr.types.tcall._to_encoding / _from_encoding` (ByteWriter / ByteReader), `allele_pair_sqrt`,
`small_allele_pair`, `hail.genetics.Call` and `Call.unphased_diploid_gt_index`.

Enumerated (all of it, smallest first): ploidy 0; ploidy 1 alleles 0..300 and 2^e-1, 2^e, 2^e+1 up to the engine's maximum
2^29-1; ploidy 2 every ordered pair with both alleles <= 64 (thorough 256) phased and unphased, a boundary grid of alleles around every
power of two up to 32767, and the pairs whose packed allele representation is 2^e-1, 2^e, 2^e+1 for every e <= 29 (including
the sign bit of the 32-bit word and the maximum 2^29-1); genotype indices 0..10^5 (thorough 10^6), every triangular-number
boundary T(k)-1, T(k), T(k)+1 for k <= 32767, and powers of two +-1 up to 2^29-1.

Oracle (the statement, nothing more): Python's 32-bit word == the engine's 32-bit word; each side decodes the word back
to the call it was built from; index -> pair is the VCF ordering F(j/k) = k(k+1)/2 + j and pair -> index inverts it on
both sides.  Calls whose allele representation exceeds 2^29-1 are outside the statement: probed, counted, never judged.
"""
import json
import math
import struct
from pathlib import Path

from vf import jvmslice as J
from vf import par

NEEDS_SERVICES = False

U = 'hail/hail/utils/src/is/hail/utils/'
V = 'hail/hail/src/is/hail/variant/'
JVM = Path(__file__).resolve().parent.parent / 'jvm'
MAIN = 'vfdriver.C34Main'
MAX_REPR = 2**29 - 1

CALL_MEMBERS = ['apply', 'isPhased', 'isHaploid', 'isDiploid', 'isUnphasedDiploid', 'isPhasedDiploid', 'ploidy', 'alleleRepr',
                'allelePair', 'allelePairUnchecked', 'unphasedDiploidGtIndex', 'alleles', 'alleleByIndex', 'toString']
GT_MEMBERS = ['smallAllelePair', 'smallAlleleJ', 'smallAlleleK', 'nCachedAllelePairs', 'cachedAlleleJ', 'cachedAlleleK',
              'allelePairRecursive', 'allelePairSqrt', 'allelePair', 'diploidGtIndex', 'diploidGtIndexWithSwap']


def build():
    ind = '\n\n  '
    exc = 'package is.hail.utils\n\n' + J.slice_text(U + 'ErrorHandling.scala', ['HailException']) + '\n'
    utils = ('package is.hail\n\npackage object utils {\n  '
             + J.slice_text(U + 'ErrorHandling.scala', ['fatal~!Truncatable'], within='ErrorHandling', sep=ind) + ind
             + J.slice_text(U + 'package.scala', ['triangle'], within='utils', sep=ind) + '\n}\n')
    rb = 'package is.hail.utils.implicits\n\n' + J.slice_text(U + 'implicits/RichBoolean.scala', ['RichBoolean']) + '\n'
    impl = ('package is.hail.utils\n\npackage object implicits {\n  '
            + J.slice_text(U + 'implicits/package.scala', ['toRichBoolean'], within='implicits') + '\n}\n')
    compat = J.whole_file('hail/hail/utils/src-2.13/is/hail/collection/compat/immutable/package.scala')
    vpkg = 'package is.hail\n\npackage object variant {\n  ' + J.slice_text(V + 'package.scala', ['Call'], within='variant') + '\n}\n'
    hdr = ('package is.hail.variant\n\nimport is.hail.collection.compat.immutable.ArraySeq\nimport is.hail.utils._\n'
           'import is.hail.utils.implicits.toRichBoolean\n\nimport scala.annotation.switch\n\nimport java.io.Serializable\n\n')
    call = (hdr + J.slice_text(V + 'Call.scala', ['Call0', 'Call1', 'Call2']) + '\n\nobject Call extends Serializable {\n  '
            + J.slice_text(V + 'Call.scala', CALL_MEMBERS, within='Call', sep=ind) + '\n}\n')
    gt = (hdr + J.slice_text(V + 'Genotype.scala', ['AllelePair']) + '\n\nobject Genotype {\n  '
          + J.slice_text(V + 'Genotype.scala', GT_MEMBERS, within='Genotype', sep=ind) + '\n}\n')
    return J.build('c34', '', [('HailException.scala', exc), ('utils.scala', utils), ('RichBoolean.scala', rb), ('implicits.scala', impl),
                               ('compat.scala', compat), ('variantpkg.scala', vpkg), ('Call.scala', call), ('Genotype.scala', gt)],
                   (JVM / 'c34_driver.scala').read_text())


# ------------------------------------------------------------------------------------------------
# domain
# ------------------------------------------------------------------------------------------------

def tri(k):
    return k * (k + 1) // 2


def vcf_pair(i):
    """The i-th genotype in VCF order: (j, k), j <= k, i = k(k+1)/2 + j  (exact integer arithmetic)."""
    k = (math.isqrt(8 * i + 1) - 1) // 2
    return i - tri(k), k


def ref_repr(ploidy, phased, alleles):
    """The allele representation the statement's packing implies; used ONLY to decide whether a call is in range."""
    if ploidy == 0:
        return 0
    if ploidy == 1:
        return alleles[0]
    j, k = alleles
    if phased:
        return tri(j + k) + j
    lo, hi = min(j, k), max(j, k)
    return tri(hi) + lo


def call_cases(tier='quick'):
    small = 64 if tier == 'quick' else 256
    seen = set()
    out = []

    def add(ploidy, phased, alleles, why):
        key = (ploidy, phased, tuple(alleles))
        if key not in seen:
            seen.add(key)
            out.append((ploidy, phased, tuple(alleles), why))

    for ph in (False, True):
        add(0, ph, (), 'ploidy0')
    pow_b = sorted({v for e in range(0, 30) for v in (2**e - 1, 2**e, 2**e + 1) if 0 <= v <= MAX_REPR})
    for a in list(range(301)) + pow_b:
        for ph in (False, True):
            add(1, ph, (a,), 'haploid')
    for j in range(small + 1):
        for k in range(small + 1):
            for ph in (False, True):
                add(2, ph, (j, k), 'small-grid')
    grid = sorted({0, 1, 2, 3, 5, 64, 65, 16382, 16383, 16384, 16385, 32766, 32767}
                  | {v for e in range(1, 16) for v in (2**e - 1, 2**e, 2**e + 1) if v <= 32767})
    for j in grid:
        for k in grid:
            for ph in (False, True):
                if ref_repr(2, ph, (j, k)) <= MAX_REPR:
                    add(2, ph, (j, k), 'allele-boundary-grid')
    for r in pow_b:
        j, k = vcf_pair(r)
        add(2, False, (j, k), 'repr-power-of-two')
        add(2, False, (k, j), 'repr-power-of-two')
        add(2, True, (j, k - j), 'repr-power-of-two')
    return out


OUT_OF_RANGE = [(1, False, (2**29,)), (1, True, (2**29 + 1,)), (2, False, (16384, 32767)), (2, False, (0, 32768)),
                (2, True, (16384, 16383)), (2, True, (0, 32768)), (2, True, (32768, 0)), (2, False, (65535, 65535))]


def gt_indices(tier):
    n = 100_000 if tier == 'quick' else 1_000_000
    s = set(range(n + 1))
    for k in range(1, 32768):
        for d in (-1, 0, 1):
            if 0 <= tri(k) + d <= MAX_REPR:
                s.add(tri(k) + d)
    for e in range(30):
        for v in (2**e - 1, 2**e, 2**e + 1):
            if 0 <= v <= MAX_REPR:
                s.add(v)
    return sorted(s), n


def _line(case):
    ploidy, phased, alleles = case[:3]
    return 'c %d %d %s' % (ploidy, 1 if phased else 0, ' '.join(map(str, alleles)))


# ------------------------------------------------------------------------------------------------
# Python side (the real front-end code)
# ------------------------------------------------------------------------------------------------

def py_pack(ploidy, phased, alleles):
    """-> ('ok', signed 32-bit int, decoded Call) | ('err', message)."""
    import hail as hl

    try:
        c = hl.Call(list(alleles), phased=phased)
        enc = hl.tcall._to_encoding(c)
    except Exception as e:  # noqa: BLE001
        return ('err', f'{type(e).__name__}: {e}')
    if len(enc) != 4:
        return ('err', f'encoding has {len(enc)} bytes')
    bits = struct.unpack('<i', enc)[0]
    try:
        back = hl.tcall._from_encoding(enc)
    except Exception as e:  # noqa: BLE001
        return ('ok', bits, f'{type(e).__name__}: {e}')
    return ('ok', bits, back)


def judge_call(case, jv):
    """case = (ploidy, phased, alleles, why); jv = the JVM driver's JSON for it.  -> [(signature, message)]"""
    import hail as hl

    ploidy, phased, alleles = case[:3]
    tag = f'ploidy{ploidy}:{"phased" if phased else "unphased"}'
    name = f'Call({list(alleles)}, phased={phased})'
    py = py_pack(ploidy, phased, alleles)
    v = []
    if 'err' in jv:
        v.append((f'jvm-rejects-in-range-call:{tag}', f'{name}: the engine raised {jv["err"]}'))
    if py[0] == 'err':
        v.append((f'python-rejects-in-range-call:{tag}', f'{name}: the Python front end raised {py[1]}'))
    if v:
        return v
    if py[1] != jv['bits']:
        v.append((f'bits-differ:{tag}', f'{name}: Python packs 0x{py[1] & 0xffffffff:08x}, the engine packs 0x{jv["bits"] & 0xffffffff:08x}'))
    want = hl.Call(list(alleles), phased=phased)
    if not (isinstance(py[2], hl.Call) and py[2] == want and py[2].ploidy == ploidy):
        v.append((f'python-unpack-differs:{tag}', f'{name}: Python decodes its own word 0x{py[1] & 0xffffffff:08x} to {py[2]!r}'))
    d = jv['dec']
    norm = list(want.alleles)  # unphased diploid calls are unordered: both sides normalise to j <= k
    ok = (isinstance(d, dict) and d.get('ploidy') == ploidy and d.get('phased') == phased and d.get('byIndex') == norm
          and d.get('alleles') == norm and (ploidy != 2 or d.get('pair') == norm))
    if not ok:
        v.append((f'jvm-unpack-differs:{tag}', f'{name}: the engine decodes its own word 0x{jv["bits"] & 0xffffffff:08x} to {d}'))
    elif ploidy == 2:
        lo, hi = min(alleles), max(alleles)
        if d.get('udgi') != tri(hi) + lo:
            v.append((f'jvm-unphasedDiploidGtIndex:{tag}', f'{name}: engine unphasedDiploidGtIndex = {d.get("udgi")}, VCF index is {tri(hi) + lo}'))
    return v


def judge_gt(i, jv):
    import hail as hl
    from hail.expr import types as T

    j, k = vcf_pair(i)
    want = [j, k]
    v = []
    for key, fn in (('pair', 'Genotype.allelePair'), ('sqrt', 'Genotype.allelePairSqrt'), ('rec', 'Genotype.allelePairRecursive')):
        if key in jv and jv[key] != want:
            v.append((f'gt-index:jvm-{key}-not-vcf-order', f'{fn}({i}) = {jv[key]}, VCF order gives {want}'))
    if jv.get('back') != i:
        v.append(('gt-index:jvm-diploidGtIndex-not-inverse', f'Genotype.diploidGtIndex(Genotype.allelePair({i})) = {jv.get("back")}'))
    try:
        p = T.small_allele_pair[i] if i < len(T.small_allele_pair) else T.allele_pair_sqrt(i)
        got = [p & 0xFFFF, (p >> 16) & 0xFFFF]
    except Exception as e:  # noqa: BLE001
        got = f'{type(e).__name__}: {e}'
    if got != want:
        v.append(('gt-index:python-allele-pair-not-vcf-order', f'Python allele pair for genotype index {i} = {got}, VCF order gives {want}'))
    word = (i << 3) | 4
    enc = struct.pack('<I', word)
    try:
        c = hl.tcall._from_encoding(enc)
        ok = c == hl.Call(want) and not c.phased
    except Exception as e:  # noqa: BLE001
        c, ok = f'{type(e).__name__}: {e}', False
    if not ok:
        v.append(('gt-index:python-unpack-not-vcf-order', f'tcall._from_encoding(0x{word:08x}) = {c!r}, VCF order gives {want}'))
    try:
        idx = hl.Call(want).unphased_diploid_gt_index()
        enc2 = hl.tcall._to_encoding(hl.Call(want))
    except Exception as e:  # noqa: BLE001
        idx, enc2 = f'{type(e).__name__}: {e}', b''
    if not (isinstance(idx, (int, float)) and idx == i):
        v.append(('gt-index:python-unphased_diploid_gt_index', f'Call({want}).unphased_diploid_gt_index() = {idx!r}, expected {i}'))
    if enc2 != enc:
        v.append(('gt-index:python-pack-not-vcf-order', f'tcall._to_encoding(Call({want})) = {enc2.hex()}, expected {enc.hex()} (index {i})'))
    return v


def _selfcheck():
    # the VCF-order reference against a literal double loop (the definition in the VCF specification)
    i = 0
    for k in range(0, 200):
        for j in range(0, k + 1):
            if vcf_pair(i) != (j, k):
                raise J.HarnessError(f'C34 self-check: vcf_pair({i}) = {vcf_pair(i)} but the VCF ordering gives {(j, k)}')
            i += 1
    if vcf_pair(MAX_REPR) != (16383, 32767) or vcf_pair(tri(32767)) != (0, 32767):
        raise J.HarnessError('C34 self-check: vcf_pair wrong at the top of the range')
    # judges must be able to reject
    fake = {'bits': 61, 'dec': {'ploidy': 2, 'phased': False, 'byIndex': [1, 3], 'alleles': [1, 3], 'pair': [1, 3], 'udgi': 7}}
    if not any(s.startswith('bits-differ') for s, _ in judge_call((2, False, (3, 1), ''), fake)):
        raise J.HarnessError('C34 self-check: judge_call accepted wrong bits')
    if not judge_gt(36, {'i': 36, 'pair': [1, 8], 'sqrt': [0, 8], 'back': 36}):
        raise J.HarnessError('C34 self-check: judge_gt accepted a wrong pair')


def check(tier, seed, procs):
    from vf import hailenv  # noqa: F401  (import hail through the framework's shims)
    import hail as hl  # noqa: F401

    J.selftest()
    _selfcheck()
    cls = build()
    cases = call_cases(tier)
    gts, n_dense = gt_indices(tier)
    order = {('c',) + c[:3]: n for n, c in enumerate(cases)}
    order.update({('g', i): len(cases) + n for n, i in enumerate(gts)})
    cases = par.rotate(cases, seed)   # VERIF_SEED only changes the order in which the cases are sent to the JVM
    gts = par.rotate(gts, seed)
    lines = [_line(c) for c in cases] + [_line(c) for c in OUT_OF_RANGE] + [f'g {i}' for i in gts]
    out = J.run(cls, MAIN, '\n'.join(lines) + '\n').splitlines()
    if len(out) != len(lines):
        raise J.HarnessError(f'C34: JVM driver answered {len(out)} lines for {len(lines)} cases')
    viol = {}

    def record(vs, replay, rank):
        for sig, msg in vs:
            cur = viol.get(sig)
            if cur is None:
                viol[sig] = [msg, replay, 1, rank]
            elif rank < cur[3]:
                viol[sig] = [msg, replay, cur[2] + 1, rank]   # keep the smallest example whatever the order
            else:
                cur[2] += 1

    words = set()
    stats = {'negative_words': 0, 'phased_diploid': 0, 'unphased_diploid': 0, 'haploid': 0, 'max_repr_seen': 0, 'swapped_unphased': 0}
    samples = []
    for case, raw in zip(cases, out):
        jv = json.loads(raw)
        record(judge_call(case, jv), {'kind': 'call', 'ploidy': case[0], 'phased': case[1], 'alleles': list(case[2])}, order[('c',) + case[:3]])
        if 'bits' in jv:
            words.add(jv['bits'])
            stats['negative_words'] += jv['bits'] < 0
            stats['max_repr_seen'] = max(stats['max_repr_seen'], (jv['bits'] & 0xffffffff) >> 3)
        if case[0] == 2:
            stats['phased_diploid' if case[1] else 'unphased_diploid'] += 1
            stats['swapped_unphased'] += (not case[1]) and case[2][0] > case[2][1]
        elif case[0] == 1:
            stats['haploid'] += 1
        if case[:3] in ((2, True, (3, 1)), (2, False, (16383, 32767)), (1, True, (300,))):
            samples.append({'call': {'ploidy': case[0], 'phased': case[1], 'alleles': list(case[2])}, 'jvm': jv,
                            'python_word': py_pack(*case[:3])[1]})
    oor = {'probed': len(OUT_OF_RANGE), 'jvm_rejects': 0, 'python_raises': 0, 'python_packs_silently': []}
    for case, raw in zip(OUT_OF_RANGE, out[len(cases):len(cases) + len(OUT_OF_RANGE)]):
        jv = json.loads(raw)
        oor['jvm_rejects'] += 'err' in jv
        py = py_pack(*case)
        if py[0] == 'err':
            oor['python_raises'] += 1
        else:
            oor['python_packs_silently'].append({'call': [case[0], case[1], list(case[2])], 'word': py[1], 'decodes_to': repr(py[2])})
    gt_ok = 0
    for i, raw in zip(gts, out[len(cases) + len(OUT_OF_RANGE):]):
        vs = judge_gt(i, json.loads(raw))
        record(vs, {'kind': 'gt', 'i': i}, order[('g', i)])
        gt_ok += not vs
    samples.sort(key=lambda d: json.dumps(d['call'], sort_keys=True))
    samples.append({'genotype_index': 100000, 'jvm': json.loads(out[len(cases) + len(OUT_OF_RANGE) + gts.index(100000)])})
    violations = [{'signature': s, 'message': f'{m}   [{k} case(s) of this class]', 'replay': r} for s, (m, r, k, _) in sorted(viol.items())]
    cov = {
        'evaluations': len(cases) + len(gts),
        'distinct_nontrivial': len(words) + len(gts),
        'rule': ('calls: every (ploidy, phased, alleles) of the stated domain, built by the real Python front end and by the sliced engine code; '
                 'distinct_nontrivial counts distinct 32-bit words produced by the engine for them (unphased [j,k] and [k,j] are the same call) plus '
                 'distinct genotype indices decoded on both sides'),
        'samples': samples,
        'exhaustive': True,
        'bounds': f'ploidy 0-2; haploid alleles 0..300 + powers of two +-1 up to 2^29-1; diploid alleles <= {64 if tier == "quick" else 256} all pairs, boundary grid up to 32767, '
                  f'representations 2^e-1..2^e+1 for e <= 29; genotype indices 0..{n_dense} dense + {len(gts) - n_dense - 1} boundary indices up to 2^29-1',
        'calls': len(cases),
        'distinct_words': len(words),
        'words_with_sign_bit_set': stats['negative_words'],
        'max_allele_representation_seen': stats['max_repr_seen'],
        'haploid_calls': stats['haploid'],
        'phased_diploid_calls': stats['phased_diploid'],
        'unphased_diploid_calls': stats['unphased_diploid'],
        'unphased_given_in_descending_order': stats['swapped_unphased'],
        'genotype_indices': len(gts),
        'genotype_indices_consistent': gt_ok,
        'out_of_range_probes_not_judged': oor,
    }
    vac = None
    if not (stats['negative_words'] > 0 and stats['max_repr_seen'] == MAX_REPR and stats['phased_diploid'] > 4000 and len(gts) > 100000):
        vac = f'boundary cases not reached: {stats}'
    return {
        'coverage': cov,
        'violations': violations,
        'assumptions': [
            'engine side = text of Call0/Call1/Call2, the listed members of object Call, AllelePair and the index arithmetic of object Genotype, sliced '
            'verbatim from the working tree and compiled with Scala 3.3.4 (-source:3.0-migration) instead of Scala 2.12; `object Call` / `object Genotype` '
            'wrappers, the package clause and imports are written by the harness',
            "fatal/HailException/triangle/RichBoolean/toRichBoolean and the ArraySeq alias are the engine's own definitions, sliced from hail/hail/utils "
            '(read from /repo when a scratch copy made by tools/mkmut lacks that directory)',
            'the generated-code path of the engine (CallFunctions / SCall) is not exercised, only the Scala functions it delegates to',
            'Python side = real hail.expr.types.tcall, hail.utils.byte_reader and hail.genetics.Call imported through the framework shims',
            'little-endian host (struct "=i" == "<i")',
            "in range = allele representation <= 2^29-1, the bound the engine's Call.apply enforces; anything larger is outside the statement",
        ],
        'vacuous': vac,
    }


def replay(obj):
    from vf import hailenv  # noqa: F401
    import hail as hl  # noqa: F401

    cls = build()
    if obj['kind'] == 'call':
        case = (obj['ploidy'], obj['phased'], tuple(obj['alleles']), 'replay')
        jv = json.loads(J.run(cls, MAIN, _line(case) + '\n').splitlines()[0])
        vs = judge_call(case, jv)
    else:
        jv = json.loads(J.run(cls, MAIN, f'g {obj["i"]}\n').splitlines()[0])
        vs = judge_gt(obj['i'], jv)
    if vs:
        return False, '; '.join(f'[{s}] {m}' for s, m in vs)
    return True, f'no violation: {jv}'
