"""C06  Batch and job-group completion reflect their jobs (see vf/batchfamily.py)."""
from vf import batchfamily as bf
from vf.props import c01 as base

NEEDS_SERVICES = True
PID = 'C06'
MONITORS = tuple('C06'.split(','))


def check(tier, seed, procs):
    # additional phase: statement-level interleavings of pairs of these operations under a row-lock model (vf/txpairs.py);
    # run first (its forked workers then copy a small heap), merged into the result at the end; it never raises
    from vf import txpairs

    phase = txpairs.run_phase(tier, procs, ('C06',))
    depth = 5 if tier == 'quick' else 8
    res = bf.run(MONITORS, base.setups(tier), tier, depth, procs, opts={'late_started': False} if tier == 'quick' else None,
                 time_budget=55 if tier == 'quick' else 900)
    cov = bf.coverage(res, f'1 batch, update 1 committed (2-3 jobs, 1-2 nested groups), update 2 submitted step by step '
                           f'(1-2 jobs, 0-1 groups, 1-2 bunches; one setup: batch already complete + group-only update), 2 pool instances, depth {depth}; monitors {MONITORS}')
    out = {'coverage': cov, 'violations': res.violations, 'assumptions': bf.ASSUME,
           'vacuous': None if res.states > 100 else f'only {res.states} states'}
    return txpairs.merge_into(out, phase)


def replay(obj):
    if 'txpair' in obj:
        from vf import txpairs

        return txpairs.replay(obj)
    from vf import dbmc

    v = dbmc.replay_history(bf.Family, (sorted(MONITORS), base.setups('thorough'), 'thorough', None), obj['history'])
    return (not v), (v[0][1] if v else 'no violation')
