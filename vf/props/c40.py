"""C40  Weighted transfer semaphore is safe and releases on cancellation.

Real hailtop.aiotools.weighted_semaphore.WeightedSemaphore (through acquire_manager, as the copy
tool uses it) on the virtual loop.  A configuration is (capacity, weights, hold lengths, how each
body ends, which jobs a controller cancels).  A controller waits for an external event and then calls
`victim.cancel()`, so the cancellation lands before the victim reached acquire, while it is queued, after
the semaphore woke it but before it resumed, while it holds, after it left.
Scheduling model (only schedules real asyncio can produce): the ready queue is strictly FIFO, so a freshly
created task takes its first step in creation order; every yield of a harness body, every arrival and the
cancellation are external events which the environment completes in any order, appending the completion at
the end of the ready queue (timers due at one instant fire in any order too).  All such orders are explored.

Oracle (only what the statement says):
  * the sum of the weights of the jobs inside their critical section never exceeds capacity;
  * when nothing can run any more and nobody is inside, the whole capacity must be obtainable
    again (a probe acquires `capacity`); if it is not, granted weight was not returned or a waiter
    that was cancelled before its grant consumed capacity.  Jobs left blocked for ever are judged
    the same way (the capacity they wait for is gone), never by queue order: the statement does not
    fix a wake-up policy, so none is demanded.
"""
import ast
import asyncio
import itertools

from vf import par, vloop, vloopx

NEEDS_SERVICES = False

K_BEFORE = 'before-queued'
K_QUEUED = 'cancelled-while-queued'
K_GRANTED = 'cancelled-after-grant-before-resume'
K_HOLDING = 'cancelled-while-holding'
K_AFTER = 'after-exit'


class Boom(Exception):
    pass


def make_run_one(cap, weights, pre, hold, exits, victims):
    from hailtop.aiotools.weighted_semaphore import WeightedSemaphore

    n = len(weights)

    def run_one(chooser):
        loop = vloopx.XLoop(chooser)
        loop.ext_mode = True  # FIFO ready queue; every yield of a harness body is an external event (see vloopx)
        sem = WeightedSemaphore(cap)
        phase = [('new', 0)] * n
        st = {'held': 0, 'viol': None, 'sig': None, 'arrivals': [], 'kinds': {}, 'waited': 0, 'unexpected': None}
        tasks = {}

        def fail(sig, msg):
            if st['viol'] is None:
                st['viol'] = msg
                st['sig'] = sig

        async def job(j):
            w = weights[j]
            try:
                for i in range(pre[j] + 1):  # the arrival itself is an external event: jobs arrive in any order
                    phase[j] = ('pre', i + 1)
                    await vloopx.ext_yield()
                phase[j] = ('wait', 0)
                st['arrivals'].append(j)
                async with sem.acquire_manager(w):
                    phase[j] = ('body', 0)
                    st['held'] += w
                    if st['held'] > cap:
                        inside = [k for k in range(n) if phase[k][0] == 'body']
                        fail('capacity-exceeded', f'jobs {inside} (weights {[weights[k] for k in inside]}) are inside '
                             f'together: {st["held"]} > capacity {cap}; cancellations={st["kinds"]}')
                    try:
                        for i in range(hold[j]):
                            phase[j] = ('body', i + 1)
                            await vloopx.ext_yield()
                        if exits[j] == 'raise':
                            raise Boom()
                    finally:
                        st['held'] -= w
                phase[j] = ('done', 'ok')
            except Boom:
                phase[j] = ('done', 'raised')
            except asyncio.CancelledError:
                phase[j] = ('done', 'cancelled')
            except BaseException as e:  # noqa: BLE001
                st['unexpected'] = f'job {j}: {type(e).__name__}: {e}'
                raise

        def wake_pending(t):
            return any(getattr(getattr(h, '_callback', None), '__self__', None) is t and not h._cancelled for h in loop._ready)

        def classify(v):
            t = tasks[v]
            if t.done():
                return K_AFTER
            ph = phase[v][0]
            if ph in ('new', 'pre'):
                return K_BEFORE
            if ph == 'wait':
                return K_GRANTED if wake_pending(t) else K_QUEUED
            if ph == 'body':
                return K_HOLDING
            return K_AFTER

        async def controller(v):
            await vloopx.ext_yield()  # the cancellation arrives at a moment of the environment's choosing
            st['kinds'][v] = classify(v)
            tasks[v].cancel()

        async def setup():
            lp = asyncio.get_running_loop()
            for j in range(n):
                tasks[j] = lp.create_task(job(j), name=f'j{j}')
            for v in victims:
                lp.create_task(controller(v), name=f'ctl{v}')

        async def probe():
            async with sem.acquire_manager(cap):
                pass

        def state():
            evs = getattr(sem, 'events', ())
            try:
                q = tuple((w, bool(e.is_set())) for w, e in evs)
            except Exception:  # noqa: BLE001  (a changed representation only weakens pruning keys, not soundness checks)
                q = repr(evs)
            relevant = tuple(j for j in st['arrivals'] if phase[j][0] == 'wait' or st['kinds'].get(j) == K_QUEUED)
            return (tuple(phase), tuple(vloopx.pc(t) for t in tasks.values()), tuple(sorted(st['kinds'].items())), st['held'],
                    relevant, st['waited'], st['viol'] is None, getattr(sem, 'value', None), q)

        def hook():
            # count jobs that really had to wait (non-vacuity); part of the state so pruning keeps it exact
            w = sum(1 for j in range(n) if phase[j][0] == 'wait')
            if w > st['waited']:
                st['waited'] = w

        loop.state_fn = state
        loop.step_hook = hook
        loop.run(setup(), max_steps=50)
        loop.drain(max_steps=5000)
        if st['unexpected']:
            raise RuntimeError(f'C40 harness: unexpected exception out of the semaphore: {st["unexpected"]}')
        blocked = tuple(j for j in range(n) if not tasks[j].done())
        inside = [j for j in range(n) if phase[j][0] == 'body']
        if inside:
            raise RuntimeError(f'C40 harness: quiescent with jobs {inside} inside their bodies')
        probe_ok = True
        try:
            loop.run(probe(), max_steps=200)
        except vloop.Deadlock:
            probe_ok = False
        kinds = tuple(sorted(st['kinds'].items()))
        if not probe_ok:
            why = sorted({k for _, k in kinds} & {K_QUEUED, K_GRANTED})
            sig = 'capacity-lost:' + ('+'.join(why) if why else 'no-waiter-cancelled')
            ends = {j: phase[j] for j in range(n)}
            fail(sig, f'capacity {cap}, weights {list(weights)}: after every holder has exited, {cap} can no longer be acquired '
                 f'(free value {getattr(sem, "value", "?")}); cancellations={dict(kinds)} job ends={ends} '
                 f'left blocked for ever={list(blocked)}')
        loop.finish()
        starved = bool(blocked) and probe_ok
        outcome = (kinds, tuple(phase), blocked, probe_ok, st['waited'], starved)
        return outcome, st['viol'], st['sig']

    return run_one


def _explore_config(cfg):
    r = vloop.explore(make_run_one, cfg, bound=None, procs=1, determinism_checks=2)
    kinds = {}
    waited = starved = 0
    for k, c in r.outcomes.items():
        o = ast.literal_eval(k)
        for _, kind in o[0]:
            kinds[kind] = kinds.get(kind, 0) + c
        if o[4] > 0:
            waited += c
        if o[5]:
            starved += c
    best = {}
    for s, m, c in r.violations:
        if s not in best or (len(c), c) < (len(best[s][2]), best[s][2]):
            best[s] = (s, m, c)
    return (cfg, r.executions, r.choice_points, len(r.outcomes), waited, r.distinct_states, sorted(best.values()),
            r.samples[:1], kinds, starved)


def _size(cfg):
    cap, w, pre, hold, exits, victims = cfg
    return (len(w), len(victims), sum(hold) + sum(pre), sum(1 for e in exits if e == 'raise'), sum(w), cfg)


def _job_types(weights, pres, holds, victim_pres):
    ts = []
    for w in weights:
        for h in holds:
            for e in ('return', 'raise'):
                for p in pres:
                    ts.append((w, p, h, e, False))
                for p in victim_pres:
                    ts.append((w, p, h, e, True))
    return sorted(ts)


def _mk(cap, recs):
    n = len(recs)
    return (cap, tuple(r[0] for r in recs), tuple(r[1] for r in recs), tuple(r[2] for r in recs),
            tuple(r[3] for r in recs), tuple(j for j in range(n) if recs[j][4]))


def configs(tier):
    """Jobs are interchangeable (every order of runnable callbacks is explored, including the order of the
    first steps), so configurations are multisets of job descriptions."""
    out = []
    if tier == 'quick':
        plan = [(3, 2, (1, 2, 3), (0,), (0, 1), (0,), 1, 2), (3, 3, (1, 2, 3), (0,), (0, 1), (0,), 1, 1)]
    else:
        plan = [(3, 2, (1, 2, 3), (0,), (0, 1, 2), (0, 1), 2, 2),
                (3, 3, (1, 2, 3), (0,), (0, 1), (0,), 2, 3),
                (3, 4, (1, 2, 3), (0,), (0, 1), (0,), 1, 0),
                (2, 2, (1, 2), (0,), (0, 1), (0,), 2, 2),
                (2, 3, (1, 2), (0,), (0, 1), (0,), 2, 3)]
    for cap, n, weights, pres, holds, vpres, max_victims, max_raise in plan:
        for recs in itertools.combinations_with_replacement(_job_types(weights, pres, holds, vpres), n):
            if sum(1 for r in recs if r[4]) > max_victims:
                continue
            if sum(1 for r in recs if r[3] == 'raise') > max_raise:
                continue
            out.append(_mk(cap, recs))
    out.sort(key=_size)
    return out


SELFCHECK = [
    (3, (2, 2), (0, 0), (1, 1), ('return', 'return'), (1,)),
    (3, (3, 2, 2), (0, 0, 0), (1, 0, 1), ('return', 'raise', 'return'), (1,)),
    (3, (1, 2, 3), (0, 1, 0), (1, 1, 0), ('return', 'return', 'return'), (1, 2)),
]


def _selfcheck_pruning():
    """State-hash pruning must not lose behaviours: every outcome / violation class found by the plain search (capped, it
    explodes quickly) must be found by the pruned one; equal sets when the plain search completed."""
    for cfg in SELFCHECK:
        a = vloop.explore(make_run_one, cfg, bound=None, procs=1)
        b = vloop.explore(make_run_one, cfg, bound=None, procs=1, prune=False, cap=8000)
        if not set(b.outcomes) <= set(a.outcomes) or (not b.capped and set(a.outcomes) != set(b.outcomes)):
            raise RuntimeError(f'state-hash pruning lost outcomes for {cfg}: {sorted(set(b.outcomes) ^ set(a.outcomes))[:3]}')
        va, vb = {v[0] for v in a.violations}, {v[0] for v in b.violations}
        if not vb <= va or (not b.capped and va != vb):
            raise RuntimeError(f'state-hash pruning changed the violation set for {cfg}')


def check(tier, seed, procs):
    _selfcheck_pruning()
    allc = configs(tier)
    rows = par.pmap(_explore_config, par.rotate(allc, seed), procs)
    rows.sort(key=lambda r: _size(r[0]))
    execs = sum(r[1] for r in rows)
    points = sum(r[2] for r in rows)
    outcomes = sum(r[3] for r in rows)
    waited = sum(r[4] for r in rows)
    dstates = sum(r[5] for r in rows)
    starved = sum(r[9] for r in rows)
    kinds = {}
    for r in rows:
        for k, c in r[8].items():
            kinds[k] = kinds.get(k, 0) + c
    violations = []
    nviol_cfg = 0
    for r in rows:
        if r[6]:
            nviol_cfg += 1
        for sig, msg, choices in r[6]:
            violations.append({'signature': sig, 'message': msg, 'replay': {'config': r[0], 'choices': choices}})
    samples = [{'config': r[0], **r[7][0]} for r in rows[-3:] if r[7]]
    cov = {
        'states': dstates,
        'transitions': points,
        'traces_validated_against_impl': execs,
        'samples': samples,
        'exhaustive': True,
        'configurations': len(allc),
        'configurations_with_a_violation': nviol_cfg,
        'schedules_executed': execs,
        'distinct_outcomes': outcomes,
        'executions_with_a_waiter': waited,
        'executions_by_cancellation_point': dict(sorted(kinds.items())),
        'executions_blocked_with_full_capacity_free(not judged)': starved,
        'deviation_bound': 'unbounded (every order of external-event completions over a FIFO ready queue, state-hash pruned)',
        'bounds': ('capacity 3; 2-3 jobs (multisets of job descriptions); weights 1..3; hold 0..1 yields; body returns/raises; '
                   '0-1 cancelled job; with 3 jobs at most one raises' if tier == 'quick' else
                   'capacity 3: 2-4 jobs (multisets of job descriptions), weights 1..3, hold 0..2 yields (0..1 for 3-4 jobs), body '
                   'returns/raises (none raising for 4 jobs), 0-2 cancelled jobs (0-1 for 4 jobs), extra arrival delay 0..1 yields for 2 jobs; '
                   'capacity 2: 2-3 jobs, weights 1..2, hold 0..1'),
    }
    need = (K_BEFORE, K_QUEUED, K_GRANTED, K_HOLDING, K_AFTER)
    missing = [k for k in need if not kinds.get(k)]
    vac = None
    if missing:
        vac = f'cancellation never landed at: {missing}'
    elif waited == 0:
        vac = 'no job ever had to wait'
    return {
        'coverage': cov,
        'violations': violations,
        'assumptions': [
            'every execution is the real WeightedSemaphore/_AcquireManager on a virtual asyncio loop',
            'only schedules real asyncio can produce: the ready queue is FIFO (a new task takes its first step in creation order); the '
            'environment decides when each external event completes (job arrival, each yield of a body, the cancellation) and appends '
            'that completion at the end of the ready queue; every such order is explored',
            'weights never exceed capacity (acquire asserts it)',
            'cancellation is Task.cancel() issued by a controller task at every step boundary; bodies only yield, return or raise',
            'no wake-up order or liveness beyond "the returned capacity can be acquired again" is demanded (the statement fixes none)',
        ],
        'vacuous': None if violations else vac,  # a reported violation is itself evidence that the run was not vacuous
    }


def replay(obj):
    cap, w, p, h, ex, vs = obj['config']
    x = vloop.run_prefix(make_run_one(cap, tuple(w), tuple(p), tuple(h), tuple(ex), tuple(vs)), tuple(obj['choices']))
    return x.violation is None, x.violation or 'no violation'
