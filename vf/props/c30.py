"""C30  CI merges only fully tested, approved, current PRs.

Explicit-state breadth-first search over histories of world events.  Every transition executes
the REAL ci.github.WatchedBranch / PR code (update, _update, _update_github, _update_batch, _heal,
_start_build, try_to_merge, is_mergeable, merge, update_from_gh_json ...) and the REAL webhook /
batch-callback handlers of ci.ci against a fake GitHub, a fake batch service (under the real
hailtop BatchClient / Batch) and a fake database (vf/ci_world.py).  A state is a history; it is
replayed on fresh objects, canonicalised (world truth + every attribute of the CI objects) and
deduplicated.  The oracle runs inside the fake GitHub at the instant a merge PUT is accepted and
looks only at the world's truth.

Events: push to a PR (p<n>), external push to the target (T), review -> approved / changes requested /
dismissed (r<n>A|C|N), add / remove the do-not-merge label (l<n>1|0), external status success / failure /
pending on the PR's head (e<n>s|f|p), test batch succeeds / fails (b<id>s|f), delivery of an undelivered
GitHub webhook through the real router (hP0 pull_request, hR<n> pull_request_review, hU0 push), delivery
of a batch callback through the real handler (c), periodic CI update pass (t).

Three searches (CONFIGS): both PRs with the full alphabet; one PR, deeper; both PRs with every GitHub
webhook delivered instantly (so only information GitHub never pushes to the CI can be stale).

Signature = <clause that was false in the world>/<why>:
  clause  unapproved | do-not-merge-label | check-not-success | tests-not-passed | head-not-tested |
          target-not-current | two-merges-one-target-update
  why     ci-logic           the CI's own cached facts already forbade the merge
          webhook-in-flight  the cache was out of date and the webhook announcing the change is undelivered
          not-notified       the cache was out of date and no webhook exists / is pending for that change
"""
import copy
import gc
import hashlib
import pickle

from vf import par

NEEDS_SERVICES = True

# Prefixes that spend no search depth on setup (DESIGN 2.2 "non-initial states for free").
# Histories are ','-joined event codes (vf.ci_world.enc): r1A = PR 1 approved, t = CI update pass,
# b1s = batch 1 succeeds, c = batch callback delivered, ...
ROOTS2 = (
    '',
    'r1A,r2A,t',  # both PRs approved, CI has seen them and started both test batches
    'r1A,r2A,t,b1s,b2s',  # ... and both test batches have passed, callbacks not yet delivered
)
ROOTS1 = ('', 'r1A,t', 'r1A,t,b1s')
# name -> (world configuration, roots, depth per tier)
CONFIGS = {
    'two-prs': ({'prs': (1, 2)}, ROOTS2, {'quick': 5, 'thorough': 6}),
    'one-pr': ({'prs': (1,)}, ROOTS1, {'quick': 6, 'thorough': 8}),
    # GitHub webhooks delivered instantly (atomically with the change that causes them); batch callbacks still lag
    'two-prs-prompt-webhooks': ({'prs': (1, 2), 'prompt_hooks': True}, ROOTS2, {'quick': 4, 'thorough': 5}),
    # many status contexts on the head commit: the rollup spans 2 (3) GraphQL pages of 10; the contexts that change
    # sit at the start of page 1, the end of page 1 and beyond it.  Only status flips, deliveries, batch results, ticks.
    'paged-checks-11': ({'prs': (1,), 'n_ext': 11, 'flip': (0, 9, 10), 'ext': 'sf', 'knobs': ()}, ROOTS1,
                        {'quick': 5, 'thorough': 7}),
    'paged-checks-21': ({'prs': (1,), 'n_ext': 21, 'flip': (0, 10, 20), 'ext': 'sfp', 'knobs': ()}, ROOTS1,
                        {'quick': None, 'thorough': 6}),
    # a world change lands, and its webhook reaches the real handler, while the k-th GitHub request of a running CI
    # pass is in flight (k answered so far).  The pass is then resumed; later events are the usual ones.
    'midpass-webhook-one-pr': ({'prs': (1,), 'knobs': (), 'ext': 'sf',
                                'windows': {'bases': ('tick',), 'ks': (0, 1, 2, 3),
                                            'changes': ('label', 'review', 'target', 'push')}},
                               ROOTS1, {'quick': 4, 'thorough': None}),
    'midpass-webhook-one-pr-full': ({'prs': (1,), 'knobs': ('label', 'review'), 'ext': 'sf',
                                     'windows': {'bases': ('tick', 'hook'), 'ks': (0, 1, 2, 3, 4, 5, 6),
                                                 'changes': ('label', 'review', 'target', 'push', 'ext')}},
                                    ROOTS1, {'quick': None, 'thorough': 5}),
    'midpass-webhook-two-prs': ({'prs': (1, 2), 'knobs': (), 'ext': 'sf',
                                 'windows': {'bases': ('tick', 'hook'), 'ks': (0, 1, 2, 3, 4, 5),
                                             'changes': ('label', 'review', 'target', 'push')}},
                                ROOTS2, {'quick': None, 'thorough': 4}),
    # the k-th GitHub request of a CI pass (ref fetch, PR list, rollup query, status POST, merge PUT) fails with a 502;
    # the real exception paths run (the update aborts / the status POST failure is swallowed / the merge is skipped)
    'github-fault-two-prs': ({'prs': (1, 2), 'knobs': (), 'ext': 'sf', 'faults': {'ks': (0, 1, 2, 3, 4, 5), 'max': 1}},
                             ROOTS2, {'quick': 3, 'thorough': None}),
    'github-fault-one-pr': ({'prs': (1,), 'knobs': ('label', 'review', 'target'), 'ext': 'sf',
                             'faults': {'ks': (0, 1, 2, 3, 4), 'max': 1}},
                            ROOTS1, {'quick': 4, 'thorough': None}),
    'github-fault-two-prs-full': ({'prs': (1, 2), 'knobs': ('label', 'review', 'target'), 'ext': 'sf',
                                   'faults': {'ks': (0, 1, 2, 3, 4, 5, 6, 7), 'max': 2}},
                                  ROOTS2, {'quick': None, 'thorough': 4}),
    'github-fault-one-pr-full': ({'prs': (1,), 'knobs': ('label', 'review', 'target', 'push'), 'ext': 'sf',
                                  'faults': {'ks': (0, 1, 2, 3, 4, 5), 'max': 2}},
                                 ROOTS1, {'quick': None, 'thorough': 5}),
}
STATE_CAP = 5_000_000


def _lst(x):
    return [_lst(v) for v in x] if isinstance(x, (list, tuple)) else x


def _hkey(h):
    return (h.count(','), h)


def _digest(canon):
    return hashlib.blake2b(repr(canon).encode(), digest_size=12).digest()


def _guard(fn):
    """HarnessError is a BaseException (so the code under test cannot swallow it); outside the CI step it
    must become an ordinary exception: pool workers survive it and the runner reports exit 2."""
    import functools

    @functools.wraps(fn)
    def wrapped(*a, **k):
        from vf import ci_world as cw

        try:
            return fn(*a, **k)
        except cw.HarnessError as e:
            raise RuntimeError(f'harness gap: {e}') from e

    return wrapped


@_guard
def _expand_chunk(items):
    """items: [(world cfg, history, expected_digest | None, is_last_level)].  Returns successors and per-chunk statistics."""
    from vf import ci_world as cw

    succ = []
    counters = {}
    viols = {}
    merges_seen = []
    n_trans = 0
    for cfg, hist, expected, last in items:
        s, _ = cw.replay_history(hist, cfg=cfg)
        ci0 = _digest(s.ci_canon())
        d0 = _digest((s.world.canon(), ci0))
        if expected is not None and d0 != expected:
            raise RuntimeError(f'nondeterminism not owned: replaying {hist} on fresh objects gives a different state')
        blob = None
        for ev in s.enabled():
            n_trans += 1
            h2 = f'{hist},{cw.enc(ev)}' if hist else cw.enc(ev)
            if ev[0] in cw.Sys.WORLD_EVENTS and (ev[0] in ('ext', 'extk', 'batch') or not s.world.cfg['prompt_hooks']):
                # a pure world event: the CI objects are not touched, so apply / read / undo in place
                snap = s.world.snapshot()
                v, c, merged = s.apply(ev)
                d = _digest((s.world.canon(), ci0))
                s.world.restore(snap)
                if v or merged or c:
                    raise RuntimeError(f'world event {ev} reached the CI')
            else:
                if blob is None:
                    blob = pickle.dumps(s, protocol=5)
                s2 = pickle.loads(blob)
                v, c, merged = s2.apply(ev)
                d = _digest((s2.world.canon(), _digest(s2.ci_canon())))
            for k, n in c.items():
                counters[k] = counters.get(k, 0) + n
            if c.get('faults_not_reached') or c.get('windows_not_reached'):
                continue  # the pass never got to its k-th request: identical to the plain event, which is explored too
            for sig, msg in v:
                old = viols.get(sig)
                if old is None or _hkey(h2) < _hkey(old[0]):
                    viols[sig] = (h2, msg)
            if merged and not v:
                merges_seen = sorted(merges_seen + [h2], key=_hkey)[:2]  # smallest, whatever the chunking
            if d != d0:
                succ.append((d, None if last else h2))  # the last level is only counted, never expanded
            else:
                counters['self_loops'] = counters.get('self_loops', 0) + 1
    return succ, counters, viols, merges_seen, n_trans


def _chunks(xs, n):
    k = max(1, min(64, len(xs) // max(1, n * 4) or 1))
    return [xs[i:i + k] for i in range(0, len(xs), k)]


def _selfcheck():
    """The fake GitHub must refuse what the real one refuses; the oracle must stay silent on a clean merge."""
    from vf import ci_world as cw

    clean = cw.dec_history('r1A,t,b1s,c')
    s, res = cw.replay_history(clean)
    if res[-1][2] != [1] or res[-1][0]:
        raise RuntimeError(f'self-check: the plain approve/test/merge history did not merge cleanly: {res[-1]}')
    if s.world.target != 'M1' or s.world.prs[1]['state'] != 'merged':
        raise RuntimeError('self-check: merge did not move the target branch')
    # the fake GitHub, asked directly: wrong head sha -> 409, closed PR -> 405, nothing merged either way
    import asyncio

    import gidgethub

    for ev in s.enabled():
        if cw.dec(cw.enc(ev)) != ev:
            raise RuntimeError(f'self-check: event coding is not a bijection for {ev}')
    s = cw.Sys()
    url = f'/repos/{cw.REPO_SS}/pulls/2/merge'

    def put(sha):
        try:
            asyncio.run(s.gh.put(url, data={'merge_method': 'squash', 'sha': sha}))
            return 200
        except gidgethub.HTTPException as e:
            return int(e.status_code)

    if put('b1') != 409 or s.world.prs[2]['state'] != 'open' or s.world.target != 'T0' or s.world.merges:
        raise RuntimeError('self-check: fake GitHub accepted a merge whose sha is not the current head')
    s.world.prs[2]['state'] = 'merged'
    if put('b0') != 405 or s.world.target != 'T0':
        raise RuntimeError('self-check: fake GitHub merged a closed PR')
    s.world.prs[2]['state'] = 'open'
    s.world.violations = []
    if put('b0') != 200 or s.world.target != 'M1' or not {'unapproved/ci-logic', 'head-not-tested/ci-logic'} <= {
            x for x, _ in s.world.violations}:
        raise RuntimeError(f'self-check: the oracle did not flag an unapproved, untested merge: {s.world.violations}')
    # replay == deepcopy path
    a, _ = cw.replay_history(clean)
    b, _ = cw.replay_history(clean[:-1])
    b = copy.deepcopy(b)
    b.apply(clean[-1])
    if a.canon() != b.canon():
        raise RuntimeError('self-check: deepcopy successor differs from fresh replay')


def _bfs(cfg, roots, depth, seed, procs, pool=None):
    from vf import ci_world as cw

    visited = set()
    frontier = []
    for r in roots:
        s, _ = cw.replay_history(r, cfg=cfg)
        d = _digest((s.world.canon(), _digest(s.ci_canon())))
        if d not in visited:
            visited.add(d)
            frontier.append((r, d))
    counters, viols, samples = {}, {}, []
    transitions = 0
    levels = [len(frontier)]
    capped = False
    for level in range(depth):
        if not frontier:
            break
        last = level == depth - 1
        items = [(cfg, h, d, last) for h, d in par.rotate(sorted(frontier), seed)]
        if pool is None or len(items) < 200:
            rows = [_expand_chunk(items)]
        else:
            rows = pool.imap(_expand_chunk, _chunks(items, procs), chunksize=1)  # streamed: bounded memory
        nxt = {}
        for succ, c, v, ms, nt in rows:
            transitions += nt
            for k, n in c.items():
                counters[k] = counters.get(k, 0) + n
            for sig, (h, msg) in v.items():
                old = viols.get(sig)
                if old is None or _hkey(h) < _hkey(old[0]):
                    viols[sig] = (h, msg)
            samples.extend(ms)
            for d, h in succ:
                if d in visited:
                    continue
                if last:
                    nxt[d] = None
                    continue
                old = nxt.get(d)
                if old is None or h < old:
                    nxt[d] = h
        visited.update(nxt)
        frontier = [] if last else [(h, d) for d, h in nxt.items()]
        levels.append(len(nxt))
        if len(visited) > STATE_CAP:
            capped = True
            break
    samples = sorted(samples, key=_hkey)[:2]
    return len(visited), transitions, counters, viols, samples, levels, capped


def _with_protection(history, sig, cfg):
    """Would GitHub itself have refused this merge if branch protection applied to the CI's token?"""
    from vf import ci_world as cw

    _, res = cw.replay_history(history, enforce=True, cfg=cfg)
    return any(s == sig for v, _, _ in res for s, _ in v)


@_guard
def check(tier, seed, procs):
    from vf import ci_world as cw

    _selfcheck()
    states = transitions = 0
    counters, viols, samples, per_cfg = {}, {}, [], {}
    capped = False
    pool = None
    if procs > 1:
        # one pool of forked workers for the whole run (forking per BFS level costs seconds on a busy machine)
        import multiprocessing as mp

        cw.install_seams()
        gc.collect()
        gc.freeze()  # workers must not copy-on-write the parent's heap when their collector runs
        pool = mp.get_context('fork').Pool(procs)
    try:
        results = {name: _bfs(cfg, roots, depths[tier], seed, procs, pool)
                   for name, (cfg, roots, depths) in CONFIGS.items() if depths[tier] is not None}
    finally:
        if pool is not None:
            pool.terminate()
            pool.join()
            gc.unfreeze()
    for name, (cfg, roots, depths) in CONFIGS.items():
        depth = depths[tier]
        if depth is None:
            continue
        n, tr, c, v, sm, levels, cap = results[name]
        states += n
        transitions += tr
        capped = capped or cap
        for k, x in c.items():
            counters[k] = counters.get(k, 0) + x
        for sig, (h, msg) in v.items():
            old = viols.get(sig)
            if old is None or _hkey(h) < _hkey(old[0]):
                viols[sig] = (h, msg, name)
        samples.extend((name, h) for h in sm)
        per_cfg[name] = {'depth': depth, 'roots': list(roots), 'states': n, 'transitions': tr, 'states_per_level': levels,
                         'merges_judged': c.get('merges', 0), 'violation_signatures': sorted(v)}
        if cap:
            per_cfg[name]['cap'] = f'state cap {STATE_CAP} hit after level {len(levels) - 1}'
    violations = []
    for sig, (h, msg, name) in sorted(viols.items(), key=lambda kv: (_hkey(kv[1][0]), kv[0])):
        events = _lst(cw.dec_history(h))
        still = _with_protection(h, sig, CONFIGS[name][0])
        prompt = sig in per_cfg['two-prs-prompt-webhooks']['violation_signatures']
        msg = (f'{msg}; history={events}; '
               + ('GitHub accepts this merge even when branch protection (required review + required checks) binds the CI token'
                  if still else
                  'needs a CI token that branch protection does not bind (with enforcement GitHub answers 405)')
               + ('; also reached when every GitHub webhook is delivered instantly' if prompt else
                  '; not reached (within the bound) when every GitHub webhook is delivered instantly'))
        violations.append({'signature': sig, 'message': msg,
                           'replay': {'config': name, 'history': events, 'signature': sig}})
    merges = counters.get('merges', 0)
    cov = {
        'states': states,
        'transitions': transitions,
        'traces_validated_against_impl': transitions,
        'samples': [{'config': name, 'history': _lst(cw.dec_history(h)),
                     'outcome': 'merged; every clause of the statement true in the world'} for name, h in samples[:4]],
        'exhaustive': not capped,
        'bounds': '; '.join(
            f'{name}: PRs {list(CONFIGS[name][0]["prs"])} x 2 head shas, <= {cw.MAX_TARGET_MOVES} external target moves, '
            f'{CONFIGS[name][0].get("n_ext", 1)} external status context(s), every history of <= {per_cfg[name]["depth"]} '
            f'events after each of the roots {per_cfg[name]["roots"]}' for name in per_cfg),
        'configurations': per_cfg,
        'merges_judged': merges,
        'merges_with_every_clause_true': counters.get('merges_clean', 0),
        'merge_puts': counters.get('merge_puts', 0),
        'merge_puts_rejected_stale_head_409': counters.get('merge_rejected_409_head_moved', 0),
        'graphql_rollup_pages_beyond_first': counters.get('graphql_pages_beyond_first', 0),
        'midpass_webhook_windows_fired': counters.get('windows_fired', 0),
        'approved_prs_left_unmerged_because_own_batch': {
            k: counters.get(f'seen_unmerged_approved_pr_{k}', 0) for k in (
                'own_batch_failed', 'own_batch_running', 'batch_only_for_older_head', 'batch_only_for_older_target')},
        'merges_while_github_table_lacks_own_success_not_judged': {
            'status_post_lost': counters.get('merges_while_github_shows_own_context_not_success_post_lost', 0),
            'other': counters.get('merges_while_github_shows_own_context_not_success', 0)},
        'github_request_failures_injected': sum(x for k, x in counters.items() if k.startswith('github_faults_on_')),
        'ci_passes_aborted_by_github_failure': counters.get('ci_pass_aborted_by_github_failure', 0),
        'clauses_excused_change_inside_merging_pass': counters.get('clauses_excused_change_inside_merging_pass', 0),
        'ci_update_passes': counters.get('ticks', 0) + counters.get('batch_callbacks', 0)
        + sum(x for k, x in counters.items() if k.startswith('webhooks_')),
        'counters': dict(sorted(counters.items())),
        'violation_signatures': sorted(viols),
    }
    vac = None
    if merges == 0 or counters.get('merges_clean', 0) == 0:
        vac = f'no (clean) merge was ever performed ({merges=})'
    elif counters.get('builds_started', 0) == 0 or counters.get('batch_callbacks', 0) == 0:
        vac = 'no test batch was started / no batch callback delivered'
    elif counters.get('graphql_pages_beyond_first', 0) == 0:
        vac = 'the status rollup never needed a second GraphQL page'
    elif counters.get('windows_fired', 0) == 0:
        vac = 'no mid-pass webhook window ever fired'
    elif counters.get('ci_pass_aborted_by_github_failure', 0) == 0:
        vac = 'no injected GitHub failure ever aborted a CI pass'
    elif not all(counters.get(f'seen_unmerged_approved_pr_{k}', 0) for k in (
            'own_batch_failed', 'own_batch_running', 'batch_only_for_older_head', 'batch_only_for_older_target')):
        vac = 'never saw an approved PR whose own test batch had failed / was running / was for an older head or target'
    return {
        'coverage': cov,
        'violations': violations,
        'assumptions': [
            'transitions are atomic: one world event, one webhook / batch-callback delivery or one CI update pass runs to '
            'completion (no interleaving inside a pass)',
            'fake GitHub (vf/ci_world.py): refs, open-PR list, GraphQL reviewDecision + statusCheckRollup of the head commit, '
            'status POST, merge PUT = 405 if not open / 409 if sha is not the current head; it does not itself enforce reviews '
            'or required checks (each violation message says whether it survives enforcement)',
            'every reported status context is a required one (isRequired=true); the CI deliberately ignores non-required '
            'contexts and that is not judged',
            'fake batch service under the real hailtop BatchClient/Batch; fake DB answers the SQL of ci/github.py, ci/utils.py, '
            'ci/ci.py by text pattern',
            'PR._start_build runs its real body; check_shell, check_shell_output, BuildConfiguration, open(build.yaml), secrets '
            'are substituted in ci.github; the rich progress bar is a no-op; git merge never conflicts',
            'watched branch is mergeable, not deployable, not frozen; PR authors are authorized users; undelivered GitHub '
            'webhooks of one kind coalesce; GitHub sends no status/check_run webhooks (the CI registers no handler for them)',
            '"its test batch" = a batch of the batch service with test=1 and source_sha = the head; it must have succeeded '
            '("fully tested") with target_sha = the target ref at the instant of the merge; for the CI\'s OWN status context '
            'that batch result is the ground truth (not GitHub\'s status table: a lost status POST is counted, not judged); '
            'for every external required context GitHub\'s table is the truth',
            'functional shims: gidgethub (exceptions, sansio.Event, routing.Router), prometheus_client, aiohttp_session, jinja2',
        ],
        'vacuous': vac,
    }


@_guard
def replay(obj):
    from vf import ci_world as cw

    cfg = CONFIGS[obj.get('config', 'two-prs')][0]
    hist = [cw._tup(e) for e in obj['history']]
    _, res = cw.replay_history(hist, enforce=bool(obj.get('enforce', False)), cfg=cfg)
    hits = [(s, m) for v, _, _ in res for s, m in v if obj.get('signature') in (None, s)]
    if hits:
        return False, f'{hits[0][0]}: {hits[0][1]}'
    return True, 'no violation'
