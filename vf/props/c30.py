"""C30  CI merges only fully tested, approved, current PRs.

Explicit-state breadth-first search over histories of world events.  Every transition executes
the REAL ci.github.WatchedBranch / PR code (update, _update, _update_github, _update_batch, _heal,
_start_build, try_to_merge, is_mergeable, merge, update_from_gh_json ...) and the REAL webhook /
batch-callback handlers of ci.ci against a fake GitHub, a fake batch service (under the real
hailtop BatchClient / Batch) and a fake database (vf/ci_world.py).  A state is a history; it is
replayed on fresh objects, canonicalised (world truth + every attribute of the CI objects) and
deduplicated.  The oracle runs inside the fake GitHub at the instant a merge PUT is accepted and
looks only at the world's truth.
"""
import copy
import hashlib

from vf import par

NEEDS_SERVICES = True

# Prefixes that spend no search depth on setup (DESIGN 2.2 "non-initial states for free").
ROOTS = (
    (),
    # both PRs approved, CI has seen them and started both test batches
    (('review', 1, 'A'), ('review', 2, 'A'), ('tick',)),
    # ... and both test batches have passed, callbacks not yet delivered
    (('review', 1, 'A'), ('review', 2, 'A'), ('tick',), ('batch', 1, 's'), ('batch', 2, 's')),
)
DEPTH = {'quick': 6, 'thorough': 8}
STATE_CAP = 3_000_000


def _digest(canon):
    return hashlib.blake2b(repr(canon).encode(), digest_size=12).digest()


def _expand_chunk(items):
    """items: [(history, expected_digest | None)].  Returns successors and per-chunk statistics."""
    from vf import ci_world as cw

    succ = []
    counters = {}
    viols = {}
    merges_seen = []
    n_trans = 0
    for hist, expected in items:
        s, _ = cw.replay_history(hist)
        d0 = _digest(s.canon())
        if expected is not None and d0 != expected:
            raise RuntimeError(f'nondeterminism not owned: replaying {hist} on fresh objects gives a different state')
        for ev in s.enabled():
            s2 = copy.deepcopy(s)
            v, c, merged = s2.apply(ev)
            n_trans += 1
            h2 = hist + (ev,)
            for k, n in c.items():
                counters[k] = counters.get(k, 0) + n
            for sig, msg in v:
                old = viols.get(sig)
                if old is None or (len(h2), h2) < (len(old[0]), old[0]):
                    viols[sig] = (h2, msg)
            if merged and not v and len(merges_seen) < 2:
                merges_seen.append(h2)
            d = _digest(s2.canon())
            if d != d0:
                succ.append((d, h2))
            else:
                counters['self_loops'] = counters.get('self_loops', 0) + 1
    return succ, counters, viols, merges_seen, n_trans


def _chunks(xs, n):
    k = max(1, min(64, len(xs) // max(1, n * 4) or 1))
    return [xs[i:i + k] for i in range(0, len(xs), k)]


def _selfcheck():
    """The fake GitHub must refuse what the real one refuses; the oracle must stay silent on a clean merge."""
    from vf import ci_world as cw

    clean = (('review', 1, 'A'), ('ext', 1, 's'), ('tick',), ('batch', 1, 's'), ('callback',))
    s, res = cw.replay_history(clean)
    if res[-1][2] != [1] or res[-1][0]:
        raise RuntimeError(f'self-check: the plain approve/test/merge history did not merge cleanly: {res[-1]}')
    if s.world.target != 'M1' or s.world.prs[1]['state'] != 'merged':
        raise RuntimeError('self-check: merge did not move the target branch')
    # stale head: the CI's `sha` no longer matches -> GitHub answers 409, nothing is merged
    stale = (('review', 1, 'A'), ('tick',), ('batch', 1, 's'), ('push', 1), ('callback',))
    s, res = cw.replay_history(stale)
    if res[-1][2] or res[-1][1].get('merge_rejected_409_head_moved') != 1:
        raise RuntimeError(f'self-check: merge with a stale head sha was not rejected: {res[-1]}')
    # replay == deepcopy path
    a, _ = cw.replay_history(clean)
    b, _ = cw.replay_history(clean[:-1])
    b = copy.deepcopy(b)
    b.apply(clean[-1])
    if a.canon() != b.canon():
        raise RuntimeError('self-check: deepcopy successor differs from fresh replay')


def _bfs(depth, seed, procs):
    visited = {}
    frontier = []
    for r in ROOTS:
        from vf import ci_world as cw

        s, _ = cw.replay_history(r)
        d = _digest(s.canon())
        if d not in visited:
            visited[d] = r
            frontier.append((r, d))
    counters, viols, samples = {}, {}, []
    transitions = 0
    levels = [len(frontier)]
    capped = False
    for level in range(depth):
        if not frontier:
            break
        items = par.rotate(sorted(frontier), seed)
        rows = par.pmap(_expand_chunk, _chunks(items, procs), procs, chunksize=1)
        nxt = {}
        for succ, c, v, ms, nt in rows:
            transitions += nt
            for k, n in c.items():
                counters[k] = counters.get(k, 0) + n
            for sig, (h, msg) in v.items():
                old = viols.get(sig)
                if old is None or (len(h), h) < (len(old[0]), old[0]):
                    viols[sig] = (h, msg)
            samples.extend(ms)
            for d, h in succ:
                if d in visited:
                    continue
                old = nxt.get(d)
                if old is None or h < old:
                    nxt[d] = h
        for d, h in nxt.items():
            visited[d] = h
        frontier = [(h, d) for d, h in nxt.items()]
        levels.append(len(frontier))
        if len(visited) > STATE_CAP:
            capped = True
            break
    samples = sorted(samples, key=lambda h: (len(h), h))[:3]
    return visited, transitions, counters, viols, samples, levels, capped


def _with_protection(history, sig):
    """Would GitHub itself have refused this merge if branch protection applied to the CI's token?"""
    from vf import ci_world as cw

    _, res = cw.replay_history(history, enforce=True)
    return any(s == sig for v, _, _ in res for s, _ in v)


def check(tier, seed, procs):
    _selfcheck()
    depth = DEPTH[tier]
    visited, transitions, counters, viols, samples, levels, capped = _bfs(depth, seed, procs)
    violations = []
    for sig, (h, msg) in sorted(viols.items(), key=lambda kv: (len(kv[1][0]), kv[1][0])):
        still = _with_protection(h, sig)
        msg = (f'{msg}; history={[list(e) for e in h]}; '
               + ('GitHub accepts this merge even when branch protection (required review + required checks) binds the CI token'
                  if still else
                  'reproduces when the CI token is not bound by branch protection (with enforcement GitHub answers 405)'))
        violations.append({'signature': sig, 'message': msg, 'replay': {'history': [list(e) for e in h], 'signature': sig}})
    merges = counters.get('merges', 0)
    cov = {
        'states': len(visited),
        'transitions': transitions,
        'traces_validated_against_impl': transitions,
        'samples': [{'history': [list(e) for e in h], 'outcome': 'merged, every clause true in the world'} for h in samples],
        'exhaustive': not capped,
        'bounds': f'2 PRs x 2 head shas, <= 2 external target moves, 1 external status context, depth {depth} from each of '
                  f'{len(ROOTS)} root histories (lengths {[len(r) for r in ROOTS]})',
        'max_depth': depth,
        'states_per_level': levels,
        'merges_judged': merges,
        'merges_with_every_clause_true': counters.get('merges_clean', 0),
        'merge_puts': counters.get('merge_puts', 0),
        'merge_puts_rejected_stale_head_409': counters.get('merge_rejected_409_head_moved', 0),
        'counters': dict(sorted(counters.items())),
        'violation_signatures': sorted(viols),
    }
    if capped:
        cov['cap'] = f'state cap {STATE_CAP} hit; levels completed: {len(levels) - 1}'
    vac = None
    if merges == 0 or counters.get('merges_clean', 0) == 0:
        vac = f'no (clean) merge was ever performed ({merges=})'
    elif counters.get('merge_rejected_409_head_moved', 0) == 0:
        vac = 'no history reached a merge attempt with a stale head sha'
    return {
        'coverage': cov,
        'violations': violations,
        'assumptions': [
            'transitions are atomic: one world event, webhook delivery or CI update pass runs to completion (no interleaving inside a pass)',
            'fake GitHub (vf/ci_world.py): refs, open-PR list, GraphQL reviewDecision + statusCheckRollup of the head commit, '
            'status POST, merge PUT = 405 if not open / 409 if sha is not the current head; it does not itself enforce reviews or '
            'required checks unless replayed with enforce=True (each violation message says which)',
            'every reported status context is a required one (isRequired=true); the CI deliberately ignores non-required contexts and that is not judged',
            'fake batch service under the real hailtop BatchClient/Batch; fake DB answers the SQL of ci/github.py, ci/utils.py, ci/ci.py by text pattern',
            'PR._start_build runs its real body; check_shell, check_shell_output, BuildConfiguration, open(build.yaml), secrets are substituted; '
            'rich progress bar replaced by a no-op; git merge never conflicts',
            'watched branch is mergeable, not deployable, not frozen; PR authors are authorized users; webhooks of one kind for one PR coalesce; '
            'GitHub sends no status/check_run webhooks to the CI (no handler is registered for them)',
            'functional shims: gidgethub (exceptions, sansio.Event, routing.Router), prometheus_client, aiohttp_session, jinja2',
        ],
        'vacuous': vac,
    }


def replay(obj):
    from vf import ci_world as cw

    hist = [tuple(e) for e in obj['history']]
    _, res = cw.replay_history(hist, enforce=bool(obj.get('enforce', False)))
    hits = [(s, m) for v, _, _ in res for s, m in v if obj.get('signature') in (None, s)]
    if hits:
        return False, f'{hits[0][0]}: {hits[0][1]}'
    return True, 'no violation'
