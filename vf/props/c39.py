"""C39  Job lifecycle protocol terminates and never double-runs.

The complete reachable state graph (BFS to fixpoint; canonical form ignores ended attempts and renames
attempt ids) of small batches under the real scheduler sweep, the three real canceller sweeps + orphan
sweep, worker success / failure reports, user cancellation of any group and one preemption.
Safety on every state / row change: the current attempt of a running job is never replaced without the job
going back to Ready; always-run jobs are never cancelled; after the orphan sweep no attempt that is not its job's
current one is left running on a worker.  Liveness on the graph: with the system's own
transitions (scheduler, canceller sweeps, workers finishing attempts) only, a state where every committed job is
terminal is reachable from every state, and every bottom strongly connected component of that fair sub-graph
consists of such states (no livelock, no stuck state).
"""
from vf import batchfamily as bf
from vf import batchops as ops
from vf import dbmc

NEEDS_SERVICES = True
G, J = bf.G, bf.J

bf.SCRIPTS.update({
    'c39_chain_ar': [('new_update', 'u1', 't1', 3, 1), ('add_groups', 'u1', 1, [G(1, parent_abs=0)]),
                     ('add_jobs', 'u1', 1, [J(1, abs_group=0), J(2, parents=[1], group=1), J(3, parents=[1], group=1, always_run=True)]),
                     ('commit_tail', 'u1', 1)],
    'c39_two_groups': [('new_update', 'u1', 't1', 3, 2), ('add_groups', 'u1', 1, [G(1, parent_abs=0), G(2, parent_in=1)]),
                       ('add_jobs', 'u1', 1, [J(1, group=1), J(2, group=2, always_run=True), J(3, parents=[1], group=2)]),
                       ('commit_tail', 'u1', 1)],
    'c39_none': [],
})
FAIR = ('sched', 'complete', 'canceller', 'started')


class H(bf.Family):
    def __init__(self, tier):
        super().__init__(['C04', 'C07', 'C39'], SETUPS, tier,
                         {'stale_attempt': False, 'token_flip': False, 'dup_reports': False, 'no_sweeps': True, 'readers': False})

    def enabled(self, w):
        out = []
        v = bf.View(w)
        st = {n: i.state for n, i in w.icm.instances.items()}
        n_ready = sum(1 for j in v.jobs if j['state'] == 'Ready')
        for inst in ('i1', 'i2'):
            if st[inst] == 'active' and n_ready:
                out.append(('sched', 0, inst))
                if inst == 'i1' or self.tier != 'quick':
                    # a very short job: the worker's completion report is handled before the driver's own CALL schedule_job
                    out.append(('sched', 0, inst, 'complete'))
        reported = getattr(w, 'reported', ())
        for a in w.table('attempts'):
            inst = a['instance_name']
            if inst is None or st.get(inst) != 'active' or a['end_time'] is not None:
                continue
            if (a['job_id'], a['attempt_id']) in reported:
                continue  # the worker's report was acknowledged: it will not be sent again (liveness must not rely on retries)
            for s in ('Success', 'Failed'):
                out.append(('complete', a['job_id'], a['attempt_id'], inst, s, 10, 20))
        # the driver's CALL schedule_job can arrive after the instance it picked was preempted or after the job was
        # cancelled (it POSTs to the worker first): the guard inside schedule_job has to refuse
        existing = {a['attempt_id'] for a in w.table('attempts')}
        for j in v.jobs:
            if j['state'] == 'Ready' and j['update_id'] in v.committed and f"L{j['job_id']}" not in existing:
                for inst in ('i1', 'i2') if self.tier != 'quick' else ('i1',):
                    if st[inst] != 'active' or v.job_cancelled(j):
                        out.append(('schedule', j['job_id'], f"L{j['job_id']}", inst))
        # the scheduler POSTed job j to i1, the worker accepted, but the driver timed out (2 s) and never called schedule_job: the
        # job stays Ready (and may run elsewhere meanwhile) and the worker's job_started for that attempt arrives at any later time
        if st['i1'] == 'active':
            for j in v.jobs[: 1 if self.tier == 'quick' else 2]:
                g = f"G{j['job_id']}"
                if j['state'] != 'Pending' and j['update_id'] in v.committed and g not in existing:
                    out.append(('started', j['job_id'], g, 'i1', 10))
        for which in ('ready', 'running', 'orphans'):
            out.append(('canceller', which))
        for g in v.groups:
            if not v.group_cancelled(g['job_group_id']):
                out.append(('cancel', g['job_group_id']))
        if st['i1'] == 'active' and any(a['instance_name'] == 'i1' and a['end_time'] is None for a in w.table('attempts')):
            out.append(('deactivate', 'i1', 'preempted', 30))
        return out

    def check_state(self, w):
        out = super().check_state(w)
        for j in w.table('jobs'):
            if j['always_run'] and j['state'] == 'Cancelled':
                out.append(('always-run-job-cancelled', f"always-run job {j['job_id']} is Cancelled"))
            if j['state'] in ('Running', 'Creating'):
                cur = [a for a in w.table('attempts') if a['job_id'] == j['job_id'] and a['attempt_id'] == j['attempt_id']]
                if not cur:
                    out.append(('running-job-without-current-attempt', f"job {j['job_id']} {j['state']} attempt_id={j['attempt_id']}"))
        return out

    def check_transition(self, w, pre, label, obs):
        out = super().check_transition(w, pre, label, obs)
        live = {(a['job_id'], a['attempt_id']) for a in w.table('attempts') if a['end_time'] is None}
        for e in self._events:
            if e['s0'] in ('Running', 'Creating') and e['s1'] in ('Running', 'Creating') and e['att0'] is not None and e['att0'] != e['att1']:
                out.append(('current-attempt-replaced-while-running', f"job {e['job']} attempt {e['att0']} -> {e['att1']} during {label}"))
            if e['s0'] in ('Running', 'Creating') and e['s1'] == 'Ready' and e['att0'] is not None and (e['job'], e['att0']) in live:
                # back to Ready means "will be scheduled again": its current attempt must have been ended by the same operation
                out.append(('job-made-ready-while-its-current-attempt-still-runs',
                            f"job {e['job']} {e['s0']}->Ready during {label} but attempt {e['att0']} has no end time: a second attempt will run next to it"))
        if label[:2] == ('canceller', 'orphans'):
            # the sweep's contract: every attempt a worker still executes (started, not ended, instance active) although the database no longer
            # treats it as its job's current attempt is told to stop - otherwise the job keeps running next to its current attempt
            st = {n: i.state for n, i in w.icm.instances.items()}
            jobs = {j['job_id']: j for j in w.table('jobs')}
            left = [(a['job_id'], a['attempt_id']) for a in w.table('attempts')
                    if a['start_time'] is not None and a['end_time'] is None and st.get(a['instance_name']) == 'active'
                    and (jobs[a['job_id']]['state'] not in ('Running', 'Creating') or jobs[a['job_id']]['attempt_id'] != a['attempt_id'])]
            if left and len(left) <= 300 and not obs.get('exception'):
                j, att = left[0]
                out.append(('orphaned-attempt-survives-the-orphan-sweep',
                            f"after the orphan sweep attempt {att} of job {j} is still open on an active instance although the job is "
                            f"{jobs[j]['state']} with current attempt {jobs[j]['attempt_id']}: the worker keeps running it"))
        return out

    def canon(self, w):
        d = w.mdb.store.dump(drop=bf.DROP | {'attempt_id', 'msec_mcpu'})
        jobs = {j['job_id']: j for j in w.table('jobs')}
        reported = getattr(w, 'reported', ())
        live = sorted((a['job_id'], a['instance_name'], a['attempt_id'] == jobs[a['job_id']]['attempt_id'], a['start_time'] is not None,
                       (a['job_id'], a['attempt_id']) in reported)
                      for a in w.table('attempts') if a['end_time'] is None)
        for t in ('attempts', 'batch_bunches', 'jobs_telemetry', 'aggregated_job_resources_v3'):
            d.pop(t, None)
        mirror = sorted((n, s) for n, (s, _) in w.mirror().items())
        return repr(sorted(d.items())) + repr((live, mirror))


SETUPS = [('chain_ar', 'c39_chain_ar', 'c39_none', []), ('two_groups', 'c39_two_groups', 'c39_none', [])]


def done(hist_state):
    return hist_state


def check(tier, seed, procs):
    import networkx as nx

    res = dbmc.bfs(H, (tier,), depth=60, procs=procs, time_budget=240 if tier == 'quick' else 900, keep_graph=True)
    viol = list(res.violations)
    cov_extra = {'liveness_judged': bool(res.fixpoint)}
    if res.fixpoint:
        # classify states: done = every committed job terminal.  Recover it by replaying is expensive; instead the
        # harness marks done-ness through a self-labelled edge-free predicate computed from the canonical string.
        ids = res.canon_ids
        is_done = {}
        for c, i in ids.items():
            is_done[i] = _canon_done(c)
        g = nx.DiGraph()
        g.add_nodes_from(ids.values())
        for a, label, b in res.graph:
            if label[0] in FAIR:
                g.add_edge(a, b)
        # (a) a done state is reachable through fair transitions from every state
        done_nodes = [i for i, dn in is_done.items() if dn]
        rev = g.reverse(copy=False)
        can = set(done_nodes)
        stack = list(done_nodes)
        while stack:
            x = stack.pop()
            for y in rev.successors(x):
                if y not in can:
                    can.add(y)
                    stack.append(y)
        stuck = sorted(set(ids.values()) - can, key=lambda i: (len(res.hist_of[i]), i))
        if stuck:
            i = stuck[0]
            viol.append({'signature': 'completion-unreachable-by-system-transitions',
                         'message': f'{len(stuck)} reachable states from which no sequence of scheduler / canceller / worker steps completes the batch; '
                                    f'shortest history: {res.hist_of[i]}', 'replay': {'history': res.hist_of[i]}})
        # (b) every bottom SCC of the fair sub-graph is made of done states
        cond = nx.condensation(g)
        bad_bottom = 0
        for n in cond.nodes:
            if cond.out_degree(n) == 0:
                members = cond.nodes[n]['members']
                if not all(is_done[m] for m in members):
                    bad_bottom += 1
                    m = min(members, key=lambda i: (len(res.hist_of[i]), i))
                    if bad_bottom == 1 and not stuck:
                        viol.append({'signature': 'fair-cycle-avoids-completion',
                                     'message': f'a bottom strongly connected component of {len(members)} non-complete states under fair transitions; '
                                                f'history to it: {res.hist_of[m]}', 'replay': {'history': res.hist_of[m]}})
        cov_extra = {'liveness_judged': True, 'liveness_graph_states': g.number_of_nodes(), 'fair_edges': g.number_of_edges(), 'done_states': len(done_nodes),
                     'bottom_sccs_not_done': bad_bottom, 'states_that_cannot_complete': len(stuck)}
    cov = bf.coverage(res, 'batches of 3 jobs (chain with an always-run sibling; nested groups), 2 pool instances, one preemption, '
                           'cancellation of any group; explored to fixpoint' + ('' if res.fixpoint else ' NOT reached (liveness not judged)'), cov_extra)
    return {'coverage': cov, 'violations': viol, 'assumptions': bf.ASSUME + [
        'fair transitions: scheduler sweep with a free instance, canceller sweeps, orphan sweep, workers reporting an outcome for every live attempt; '
        'instance i2 is never preempted (capacity remains available)',
        'liveness is judged on the complete reachable graph of the bounded configuration only'],
            'vacuous': None if res.states > 100 else f'states={res.states}'}


def _canon_done(c):
    """done-ness from the canonical string: no job row in a non-terminal state (jobs tuples contain the state string)."""
    import ast
    import re

    m = re.search(r"\('jobs', \[(.*?)\]\), \('", c)
    body = m.group(1) if m else ''
    return not any(f"'{s}'" in body for s in ('Pending', 'Ready', 'Creating', 'Running'))


def replay(obj):
    v = dbmc.replay_history(H, ('thorough',), obj['history'])
    return (not v), (v[0][1] if v else 'liveness findings are re-derived from the full graph; safety replay found no violation')
