"""C17  Batch DSL: dependency order, cycle rejection, LocalBackend failure propagation.

Bounded-exhaustive PROGRAM enumeration.  Every pipeline in the bounded space is built with the
real hailtop.batch DSL (Batch / BashJob / resources) and run through the real Batch._async_run and
LocalBackend._async_run.  Only the execution plane is replaced, from outside: the name `sp`
(= subprocess) inside hailtop/batch/backend.py is substituted by a recorder whose check_call()
never executes anything, records which job's script it was handed and raises CalledProcessError
for exactly the jobs of the chosen failing set.

A pipeline is a labelled digraph on n jobs (label = creation position, so every shape occurs under
every creation order), every ordered pair u->v ("v depends on u") being absent, realised as
v.depends_on(u), or realised as a resource read  v.command(f'cat {u.ofile}'); self-loops
j.depends_on(j) included; every always_run flag vector; every failing subset; and every iteration
order of the Set[Job] dependency sets (Job hashes are identity based in the repo, i.e. arbitrary;
the harness pins them to a chosen rank so the order is owned and enumerated).

Oracle (exactly the statement):
  * cyclic  => Batch.run raises and the recorder saw no call at all;
  * acyclic => not rejected; job ids are distinct and id(v) > id(u) for every dependency u->v;
               executed jobs appear in the execution record after every dependency that executed;
               the set of jobs NOT executed == least fixed point of
               "not always_run and some parent failed or was skipped".
"""
import contextlib
import io
import itertools
import os
import re
import shutil
import subprocess
import warnings

from vf import par

NEEDS_SERVICES = False

_ROOT = None  # scratch root, fixed by check()/replay() before any worker is forked
_ENV = None


class HarnessError(Exception):
    pass


# ----------------------------------------------------------------------------------------------
# environment: the real DSL with the execution plane replaced
# ----------------------------------------------------------------------------------------------


class _Recorder:
    """Stands in for the `subprocess` module inside hailtop.batch.backend."""

    CalledProcessError = subprocess.CalledProcessError

    def __init__(self):
        self.reset(())

    def reset(self, fail):
        self.fail = set(fail)
        self.calls = []  # job labels in execution order
        self.other = []  # scripts that belong to no job

    def check_call(self, code, shell=False, **kw):
        if not isinstance(code, str) or not shell:
            raise HarnessError(f'unexpected check_call form: {code!r} shell={shell}')
        ks = sorted(set(re.findall(r'MARK(\d+)X', code)))
        if len(ks) != 1:
            self.other.append(code)
            if ks:
                raise HarnessError(f'script mentions the markers of several jobs: {ks}')
            return 0
        k = int(ks[0])
        self.calls.append(k)
        if k in self.fail:
            raise subprocess.CalledProcessError(1, f'<script of job {k}>')
        return 0

    def run(self, cmd, shell=False, check=False, **kw):
        # the only other use in backend.py: `rm -rf <scratch dir>`
        m = re.fullmatch(r'rm -rf (\S+)', cmd) if isinstance(cmd, str) else None
        if not m or not os.path.realpath(m.group(1)).startswith(os.path.realpath(_ROOT) + '/'):
            raise HarnessError(f'unexpected subprocess.run: {cmd!r}')
        shutil.rmtree(m.group(1), ignore_errors=True)
        return subprocess.CompletedProcess(cmd, 0)

    def __getattr__(self, name):
        raise HarnessError(f'backend.py used subprocess.{name}, which the recorder does not model')


class _Tokens:
    """Deterministic stand-in for secret_alnum_string inside hailtop.batch.batch: distinct tokens."""

    ALPHA = '0123456789ABCDEFGHIJKLMNOPQRSTUVWXYZabcdefghijklmnopqrstuvwxyz'

    def __init__(self):
        self.n = 0

    def __call__(self, n=22, *, case=None):
        self.n += 1
        k, out = self.n, []
        for _ in range(n):
            k, r = divmod(k, 62)
            out.append(self.ALPHA[r])
        return ''.join(reversed(out))


def _env():
    global _ENV
    if _ENV is not None and _ENV['pid'] == os.getpid():
        return _ENV
    if _ROOT is None:
        raise HarnessError('scratch root not set')
    import hailtop.batch as hb
    import hailtop.batch.backend as backend_mod
    import hailtop.batch.batch as batch_mod
    import hailtop.batch.job as job_mod
    import hailtop.batch.resource as resource_mod
    from hailtop.batch.exceptions import BatchException

    rec = _Recorder()
    backend_mod.sp = rec
    tokens = _Tokens()
    batch_mod.secret_alnum_string = tokens

    def job_hash(self):
        return self.__dict__.get('_vf_rank', 1000 + int(self.__dict__['_uid'][len('__JOB__'):]))

    job_mod.Job.__hash__ = job_hash

    tmp = os.path.join(_ROOT, f'w{os.getpid()}')
    os.makedirs(tmp, exist_ok=True)
    be = hb.LocalBackend(tmp_dir=tmp)
    _ENV = {
        'pid': os.getpid(), 'hb': hb, 'rec': rec, 'tokens': tokens, 'backend': be, 'tmp': tmp,
        'BatchException': BatchException, 'job_mod': job_mod, 'resource_mod': resource_mod, 'batch_mod': batch_mod,
    }
    return _ENV


def _reset_counters(env):
    env['job_mod'].Job._counter = 1
    env['batch_mod'].Batch._counter = 0
    env['resource_mod'].ResourceFile._counter = 0
    env['resource_mod'].ResourceGroup._counter = 0
    env['resource_mod'].PythonResult._counter = 0
    env['tokens'].n = 0


# ----------------------------------------------------------------------------------------------
# reference model
# ----------------------------------------------------------------------------------------------


def parents_of(n, edges):
    ps = [set() for _ in range(n)]
    for u, v, _ in edges:
        ps[v].add(u)
    return ps


def topo_order(n, edges):
    """A topological order of the dependency digraph, or None if it has a cycle."""
    ps = parents_of(n, edges)
    done, order = set(), []
    while len(order) < n:
        ready = [v for v in range(n) if v not in done and ps[v] <= done]
        if not ready:
            return None
        done.add(ready[0])
        order.append(ready[0])
    return order


def expected_status(n, edges, always_run, fail):
    """Least fixed point of: skipped(v) <=> not always_run(v) and some parent failed or skipped."""
    ps = parents_of(n, edges)
    st = {}
    for v in topo_order(n, edges):
        if not always_run[v] and any(st[p] in ('failed', 'skipped') for p in ps[v]):
            st[v] = 'skipped'
        else:
            st[v] = 'failed' if v in fail else 'ok'
    return st


# ----------------------------------------------------------------------------------------------
# one case
# ----------------------------------------------------------------------------------------------


def run_case(n, edges, always_run, fail, ranks):
    """Build the pipeline with the real DSL, run it on the real LocalBackend with the recorder.
    Returns (violations [(signature, message)], info dict)."""
    env = _env()
    hb, rec = env['hb'], env['rec']
    _reset_counters(env)
    rec.reset(fail)
    b = hb.Batch(backend=env['backend'], name='c17')
    jobs = []
    for k in range(n):
        j = b.new_job(name=f'j{k}')
        j.__dict__['_vf_rank'] = ranks[k]
        if always_run[k]:
            j.always_run()
        jobs.append(j)
    for k, j in enumerate(jobs):
        j.command(f'echo MARK{k}X > {j.ofile}')
    for u, v, kind in edges:
        if kind == 'dep':
            jobs[v].depends_on(jobs[u])
        elif kind == 'res':
            jobs[v].command(f'cat {jobs[u].ofile}')
        else:
            raise HarnessError(kind)

    raised = None
    out = io.StringIO()
    with contextlib.redirect_stdout(out):
        try:
            b.run()
        except HarnessError:
            raise
        except subprocess.CalledProcessError as e:
            raised = e
        except env['BatchException'] as e:
            raised = e
    calls = list(rec.calls)
    if rec.other:
        raise HarnessError(f'LocalBackend ran a script that belongs to no job: {rec.other[0][:200]!r}')

    viol = []
    cyclic = topo_order(n, edges) is None
    info = {'cyclic': cyclic, 'calls': calls, 'raised': type(raised).__name__ if raised else None}
    if cyclic:
        if calls:
            viol.append(('cyclic-pipeline-ran-jobs', f'cyclic pipeline executed jobs {calls} (raised: {info["raised"]})'))
        elif raised is None:
            viol.append(('cyclic-pipeline-not-rejected', 'Batch.run returned normally for a cyclic pipeline'))
        return viol, info

    if isinstance(raised, env['BatchException']):
        viol.append(('acyclic-pipeline-rejected', f'acyclic pipeline rejected: {raised}'))
        return viol, info

    ids = [j._job_id for j in jobs]
    info['ids'] = ids
    if any(i is None for i in ids) or len(set(ids)) != n:
        viol.append(('job-ids-not-distinct', f'job ids {ids}'))
    else:
        for u, v, kind in edges:
            if not ids[u] < ids[v]:
                viol.append(('job-id-not-after-dependency',
                             f'job {v} (id {ids[v]}) depends on job {u} (id {ids[u]}) via {kind}'))
                break
    if len(set(calls)) != len(calls):
        viol.append(('job-executed-twice', f'execution record {calls}'))
    pos = {k: i for i, k in enumerate(calls)}
    for u, v, kind in edges:
        if u in pos and v in pos and not pos[u] < pos[v]:
            viol.append(('executed-before-dependency', f'job {v} executed before its dependency {u} ({kind}); record {calls}'))
            break
    exp = expected_status(n, edges, always_run, fail)
    info['expected'] = exp
    exp_run = {v for v in range(n) if exp[v] != 'skipped'}
    got_run = set(calls)
    if got_run - exp_run:
        viol.append(('ran-job-that-must-be-skipped',
                     f'executed {sorted(got_run)}, expected {sorted(exp_run)} (skipped must be {sorted(set(range(n)) - exp_run)})'))
    if exp_run - got_run:
        viol.append(('skipped-job-that-must-run',
                     f'executed {sorted(got_run)}, expected {sorted(exp_run)}; wrongly skipped {sorted(exp_run - got_run)}'))
    return viol, info



# ----------------------------------------------------------------------------------------------
# multi-run histories:  run() ; mutate the same Batch ; run() again
# ----------------------------------------------------------------------------------------------
# mutation alphabet (applied to the Batch object after the first run):
#   ('front', x)      new job N, existing job x .depends_on(N)          (a job put IN FRONT of x)
#   ('end', x)        new job N .depends_on(x)   (x = None: independent new job at the end)
#   ('edge', u, v, kind)   existing job v depends on existing job u (kind 'dep' | 'res'); u may be later than v,
#                          the edge may close a cycle


def _run_batch(env, b):
    raised = None
    with contextlib.redirect_stdout(io.StringIO()):
        try:
            b.run()
        except HarnessError:
            raise
        except subprocess.CalledProcessError as e:
            raised = e
        except env['BatchException'] as e:
            raised = e
    if env['rec'].other:
        raise HarnessError(f'LocalBackend ran a script that belongs to no job: {env["rec"].other[0][:200]!r}')
    return raised


def expected_rerun(n, edges, always_run, fail, done):
    """Second run: only jobs not executed before (`done`) are candidates; statuses of THIS run propagate:
    skipped(v) <=> not always_run(v) and some parent that is a candidate of this run failed or was skipped in it."""
    ps = parents_of(n, edges)
    st = {}
    for v in topo_order(n, edges):
        if v in done:
            continue
        if not always_run[v] and any(st.get(p) in ('failed', 'skipped') for p in ps[v]):
            st[v] = 'skipped'
        else:
            st[v] = 'failed' if v in fail else 'ok'
    return st


def run_history(n, edges, always_run, fail, muts):
    """Real DSL + LocalBackend: build, run(), apply the mutations to the same Batch, run() again; the SECOND run is
    judged.  Returns (violations, info)."""
    env = _env()
    hb, rec = env['hb'], env['rec']
    _reset_counters(env)
    rec.reset(fail)
    b = hb.Batch(backend=env['backend'], name='c17h')
    jobs = []

    def new_job():
        k = len(jobs)
        j = b.new_job(name=f'j{k}')
        j.__dict__['_vf_rank'] = k
        jobs.append(j)
        j.command(f'echo MARK{k}X > {j.ofile}')
        return k

    for k in range(n):
        new_job()
        if always_run[k]:
            jobs[k].always_run()

    def add_edge(u, v, kind):
        if kind == 'dep':
            jobs[v].depends_on(jobs[u])
        elif kind == 'res':
            jobs[v].command(f'cat {jobs[u].ofile}')
        else:
            raise HarnessError(kind)

    for u, v, kind in edges:
        add_edge(u, v, kind)
    if topo_order(n, edges) is None:
        raise HarnessError('histories start from acyclic pipelines')
    _run_batch(env, b)
    calls1 = list(rec.calls)
    exp1 = expected_status(n, edges, always_run, fail)
    if set(calls1) != {v for v in range(n) if exp1[v] != 'skipped'}:
        # the single-run block reports this; a history built on a wrong first run would only blur the verdict
        return [], {'first_run_off': True}

    edges2 = list(edges)
    ar2 = list(always_run)
    for m in muts:
        if m[0] == 'front':
            k = new_job()
            ar2.append(False)
            add_edge(k, m[1], 'dep')
            edges2.append((k, m[1], 'dep'))
        elif m[0] == 'end':
            k = new_job()
            ar2.append(False)
            if m[1] is not None:
                add_edge(m[1], k, 'dep')
                edges2.append((m[1], k, 'dep'))
        elif m[0] == 'edge':
            add_edge(m[1], m[2], m[3])
            edges2.append((m[1], m[2], m[3]))
        else:
            raise HarnessError(m)
    n2 = len(jobs)
    rec.calls = []
    raised = _run_batch(env, b)
    calls = list(rec.calls)
    done = set(calls1)

    viol = []
    cyclic = topo_order(n2, edges2) is None
    info = {'cyclic': cyclic, 'first_run': calls1, 'calls': calls, 'raised': type(raised).__name__ if raised else None,
            'first_run_off': False}
    if cyclic:
        if calls:
            viol.append(('second-run-cyclic-pipeline-ran-jobs',
                         f'after run 1 (executed {calls1}) and {muts} the pipeline is cyclic, yet run 2 executed {calls}'))
        elif raised is None:
            viol.append(('second-run-cyclic-pipeline-not-rejected',
                         f'after run 1 (executed {calls1}) and {muts} the pipeline is cyclic, yet run 2 returned normally'))
        return viol, info
    if isinstance(raised, env['BatchException']):
        viol.append(('second-run-acyclic-pipeline-rejected', f'acyclic pipeline rejected on the second run: {raised}'))
        return viol, info
    ids = [j._job_id for j in jobs]
    info['ids'] = ids
    if any(i is None for i in ids) or len(set(ids)) != n2:
        viol.append(('second-run-job-ids-not-distinct', f'job ids {ids}'))
    else:
        for u, v, kind in edges2:
            if not ids[u] < ids[v]:
                viol.append(('second-run-job-id-not-after-dependency',
                             f'job {v} (id {ids[v]}) depends on job {u} (id {ids[u]}) via {kind}'))
                break
    if len(set(calls)) != len(calls) or set(calls) & done:
        viol.append(('second-run-job-executed-twice', f'run 1 executed {calls1}, run 2 executed {calls}'))
    pos = {k: i for i, k in enumerate(calls)}
    for u, v, kind in edges2:
        if u in pos and v in pos and not pos[u] < pos[v]:
            viol.append(('second-run-executed-before-dependency',
                         f'job {v} executed before its dependency {u} ({kind}); run 2 record {calls}'))
            break
    exp = expected_rerun(n2, edges2, ar2, fail, done)
    info['expected'] = exp
    exp_run = {v for v in exp if exp[v] != 'skipped'}
    got_run = set(calls) - done
    if got_run - exp_run:
        viol.append(('second-run-ran-job-that-must-be-skipped', f'run 2 executed {sorted(got_run)}, expected {sorted(exp_run)}'))
    if exp_run - got_run:
        viol.append(('second-run-skipped-job-that-must-run', f'run 2 executed {sorted(got_run)}, expected {sorted(exp_run)}'))
    ps = parents_of(n2, edges2)
    info['cross_run'] = any(v in got_run and not ar2[v] and any(p in done and p in fail for p in ps[v]) for v in range(n2))
    return viol, info


def mutation_sets(n, edges, tier):
    """every single mutation, and every pair {one new job, one new edge between existing jobs} (the new job is created
    first); thorough also every pair of new edges for n <= 3"""
    have = {(u, v) for u, v, _ in edges}
    kinds = ('dep',) if tier == 'quick' else ('dep', 'res')
    adds = [('front', x) for x in range(n)] + [('end', x) for x in [None] + list(range(n))]
    es = [('edge', u, v, k) for u in range(n) for v in range(n) if u != v and (u, v) not in have for k in kinds]
    out = [(m,) for m in adds + es]
    out += [(a, e) for a in adds for e in es]
    if tier != 'quick' and n <= 3:
        out += [(e1, e2) for i, e1 in enumerate(es) for e2 in es[i + 1:] if (e1[1], e1[2]) != (e2[1], e2[2])]
    return out


def _work_hist(item):
    n, prefix, tier, dep_only = item
    res = {'hist': 0, 'cyc2': 0, 'ran2': 0, 'skip2': 0, 'fail1': 0, 'ok1': 0, 'cross_run': 0, 'viol': {}, 'samples': []}
    all_fails = [tuple(s) for r in range(n + 1) for s in itertools.combinations(range(n), r)]
    flags = [(False,) * n] + ([tuple(i == k for i in range(n)) for k in range(n)] if tier != 'quick' and n <= 3 else [])
    for edges in graphs(n, prefix, tier):
        if topo_order(n, edges) is None or any(u == v for u, v, _ in edges):
            continue
        if dep_only and any(k != 'dep' for _, _, k in edges):
            continue
        for ar in flags:
            for fail in all_fails:
                for muts in mutation_sets(n, edges, tier):
                    viol, info = run_history(n, edges, ar, fail, muts)
                    res['hist'] += 1
                    if info.get('first_run_off'):
                        continue
                    case = {'history': True, 'n': n, 'edges': [list(e) for e in edges], 'always_run': list(ar),
                            'fail': list(fail), 'mutations': [list(m) for m in muts]}
                    for sig, msg in viol:
                        key = (n, len(muts), len(edges), len(fail), repr(case))
                        old = res['viol'].get(sig)
                        if old is None or key < old[0]:
                            res['viol'][sig] = (key, msg, case)
                    res['fail1' if fail else 'ok1'] += 1
                    res['cross_run'] += bool(info.get('cross_run'))
                    if info['cyclic']:
                        res['cyc2'] += 1
                        continue
                    res['ran2'] += bool(info['calls'])
                    sk = any(v == 'skipped' for v in info['expected'].values())
                    res['skip2'] += sk
                    if sk and len(muts) == 2 and len(res['samples']) < 1:
                        res['samples'].append(dict(case, first_run=info['first_run'], second_run=info['calls'],
                                                   job_ids=info['ids']))
    res['viol'] = sorted(res['viol'].items(), key=lambda kv: kv[1][0])
    return ('hist', n, prefix), res


# ----------------------------------------------------------------------------------------------
# python-job wirings: a resource handed to PythonJob.call in every argument SHAPE
# ----------------------------------------------------------------------------------------------
# node types 'B' (bash job) / 'P' (python job).  Edge u -> v ("v depends on u") realisations:
#   ('dep',)              v.depends_on(u)
#   ('res',)              bash v reads u's file in its command (python u: its as_str file)
#   ('py', form, shape)   python v receives a resource of u as an argument of call():
#        form  (bash u)   'file' j.ofile | 'member' j.og.a | 'group' j.og
#              (python u) 'res' PythonResult | 'str' | 'json' | 'repr'  (the converted files)
#        shape 'pos' | 'kw' | 'list' | 'tuple' | 'dictval' | 'list_in_dict' | 'dict_in_list' | 'tuple_in_dict' | 'kw_dict'
# All incoming resources of a python job go into ONE call (several resources mixed in one call).

PY_SHAPES = ('pos', 'kw', 'list', 'tuple', 'dictval', 'list_in_dict', 'dict_in_list', 'tuple_in_dict', 'kw_dict')
B_FORMS = ('file', 'member', 'group')
P_FORMS = ('res', 'str', 'json', 'repr')


def _pyfn(*args, **kwargs):
    return len(args) + len(kwargs)


def _shape_arg(shape, r, args, kwargs, tag):
    if shape == 'pos':
        args.append(r)
    elif shape == 'kw':
        kwargs[f'k{tag}'] = r
    elif shape == 'list':
        args.append([1, r])
    elif shape == 'tuple':
        args.append((r, 'x'))
    elif shape == 'dictval':
        args.append({'a': 1, 'k': r})
    elif shape == 'list_in_dict':
        args.append({'k': [r]})
    elif shape == 'dict_in_list':
        args.append([{'k': r}])
    elif shape == 'tuple_in_dict':
        args.append({'k': (0, r)})
    elif shape == 'kw_dict':
        kwargs[f'k{tag}'] = {'k': r}
    else:
        raise HarnessError(shape)


def run_py_case(n, types, edges, always_run, fail):
    """Like run_case, with python jobs.  edges: (u, v, real).  Returns (violations, info)."""
    env = _env()
    hb, rec = env['hb'], env['rec']
    _reset_counters(env)
    rec.reset(fail)
    b = hb.Batch(backend=env['backend'], name='c17p')
    plain = [(u, v, r[0]) for u, v, r in edges]
    order = topo_order(n, plain)
    if order is None:
        raise HarnessError('python wirings are enumerated over acyclic pipelines')
    jobs = []
    for k in range(n):
        j = b.new_job(name=f'j{k}') if types[k] == 'B' else b.new_python_job(name=f'j{k}')
        j.__dict__['_vf_rank'] = k
        if always_run[k]:
            j.always_run()
        jobs.append(j)
    results = {}

    def resource(u, form):
        j = jobs[u]
        if types[u] == 'B':
            return {'file': j.ofile, 'member': j.og.a, 'group': j.og}[form]
        r = results[u]
        return {'res': r, 'str': r.as_str(), 'json': r.as_json(), 'repr': r.as_repr()}[form] if form != 'res' else r

    # statements are issued producer-first (a resource must be defined before it is used); job CREATION order is the labels
    for v in order:
        j = jobs[v]
        inc = [(u, r) for u, vv, r in edges if vv == v]
        for u, r in inc:
            if r[0] == 'dep':
                j.depends_on(jobs[u])
        if types[v] == 'B':
            j.declare_resource_group(og={'a': '{root}.a', 'b': '{root}.b'})
            j.command(f'echo MARK{v}X > {j.ofile}; echo > {j.og}')
            for u, r in inc:
                if r[0] == 'res':
                    j.command(f'cat {resource(u, "file" if types[u] == "B" else "str")}')
                elif r[0] == 'py':
                    raise HarnessError('python-argument edge into a bash job')
        else:
            args, kwargs = [f'MARK{v}X'], {}
            for u, r in inc:
                if r[0] == 'py':
                    _shape_arg(r[2], resource(u, r[1]), args, kwargs, u)
                elif r[0] == 'res':
                    raise HarnessError('command edge into a python job')
            results[v] = j.call(_pyfn, *args, **kwargs)

    raised = _run_batch(env, b)
    calls = list(rec.calls)
    viol = []
    info = {'calls': calls, 'raised': type(raised).__name__ if raised else None}
    if isinstance(raised, env['BatchException']):
        viol.append(('acyclic-pipeline-rejected', f'acyclic pipeline rejected: {raised}'))
        return viol, info
    ids = [j._job_id for j in jobs]
    info['ids'] = ids
    if any(i is None for i in ids) or len(set(ids)) != n:
        viol.append(('job-ids-not-distinct', f'job ids {ids}'))
    else:
        for u, v, r in edges:
            if not ids[u] < ids[v]:
                viol.append(('job-id-not-after-dependency',
                             f'job {v} (id {ids[v]}) depends on job {u} (id {ids[u]}) via {r}'))
                break
    if len(set(calls)) != len(calls):
        viol.append(('job-executed-twice', f'execution record {calls}'))
    pos = {k: i for i, k in enumerate(calls)}
    for u, v, r in edges:
        if u in pos and v in pos and not pos[u] < pos[v]:
            viol.append(('executed-before-dependency', f'job {v} executed before its dependency {u} ({r}); record {calls}'))
            break
    exp = expected_status(n, plain, always_run, fail)
    info['expected'] = exp
    exp_run = {v for v in range(n) if exp[v] != 'skipped'}
    got_run = set(calls)
    if got_run - exp_run:
        viol.append(('ran-job-that-must-be-skipped',
                     f'executed {sorted(got_run)}, expected {sorted(exp_run)} (skipped must be {sorted(set(range(n)) - exp_run)})'))
    if exp_run - got_run:
        viol.append(('skipped-job-that-must-run',
                     f'executed {sorted(got_run)}, expected {sorted(exp_run)}; wrongly skipped {sorted(exp_run - got_run)}'))
    return viol, info


def py_pipelines(tier):
    """(n, types, edges) -- every labelled DAG shape in the bound (label = creation position, so the consumer is created
    before AND after its producer), every assignment of job types, every edge into a python job realised as a python
    argument in every shape."""
    out = []

    def edge_choices(types, u, v, forms_mode):
        if types[v] == 'B':
            return [('dep',), ('res',)] if forms_mode == 'all' else [('res',)]
        forms = B_FORMS if types[u] == 'B' else P_FORMS
        if forms_mode == 'one':
            forms = forms[:1] if types[u] == 'B' else ('str',)
        return [('py', f, sh) for f in forms for sh in PY_SHAPES]

    # two jobs, one edge, either direction, every type assignment with a python job somewhere, all forms x all shapes
    for u, v in ((0, 1), (1, 0)):
        for types in itertools.product('BP', repeat=2):
            if 'P' not in types:
                continue
            for r in edge_choices(types, u, v, 'all'):
                out.append((2, types, ((u, v, r),)))
    # three jobs, two edges (chain, fan-in = several resources mixed in one call, fan-out); thorough: + triangles, all forms
    pairs = _pairs(3)
    for es in itertools.combinations(pairs, 2) if tier == 'quick' else \
            itertools.chain(itertools.combinations(pairs, 2), itertools.combinations(pairs, 3)):
        if topo_order(3, [(u, v, 'dep') for u, v in es]) is None:
            continue
        for types in itertools.product('BP', repeat=3):
            if not any(types[v] == 'P' for _, v in es):
                continue
            mode = 'one' if tier == 'quick' or len(es) == 3 else 'all'
            for rs in itertools.product(*[edge_choices(types, u, v, mode) for u, v in es]):
                if not any(r[0] == 'py' for r in rs):
                    continue
                out.append((3, types, tuple((u, v, r) for (u, v), r in zip(es, rs))))
    return out


def _work_py(item):
    tier, shard, nshards = item
    res = {'evals': 0, 'skips': 0, 'by_shape': {}, 'consumer_first': 0, 'viol': {}, 'samples': []}
    for i, (n, types, edges) in enumerate(py_pipelines(tier)):
        if i % nshards != shard:
            continue
        flags = [(False,) * n] + ([tuple(i == k for i in range(n)) for k in range(n)] if tier != 'quick' and n == 2 else [])
        max_fail = n if (tier != 'quick' or n == 2) else 1
        for ar in flags:
            for r_ in range(max_fail + 1):
                for fail in itertools.combinations(range(n), r_):
                    viol, info = run_py_case(n, types, edges, ar, fail)
                    res['evals'] += 1
                    case = {'python': True, 'n': n, 'types': ''.join(types), 'edges': [[u, v, list(r)] for u, v, r in edges],
                            'always_run': list(ar), 'fail': list(fail)}
                    for sig, msg in viol:
                        key = (n, len(edges), len(fail), repr(case))
                        old = res['viol'].get(sig)
                        if old is None or key < old[0]:
                            res['viol'][sig] = (key, msg, case)
                    if 'expected' in info and any(s == 'skipped' for s in info['expected'].values()):
                        res['skips'] += 1
                        if len(res['samples']) < 1 and n == 3:
                            res['samples'].append(dict(case, executed=info['calls'], job_ids=info['ids']))
                    if not fail and not any(ar):
                        for u, v, r in edges:
                            if r[0] == 'py':
                                res['by_shape'][r[2]] = res['by_shape'].get(r[2], 0) + 1
                                res['consumer_first'] += v < u
    res['viol'] = sorted(res['viol'].items(), key=lambda kv: kv[1][0])
    return ('py', shard), res


# ----------------------------------------------------------------------------------------------
# enumeration
# ----------------------------------------------------------------------------------------------

KINDS = (None, 'dep', 'res')


PREFIX_LEN = {1: 0, 2: 0, 3: 3, 4: 5}


def _pairs(n):
    return [(u, v) for u in range(n) for v in range(n) if u != v]


def graph_key(n, edges):
    return (n, len(edges), tuple(edges))


def graphs(n, prefix, tier):
    """Every labelled digraph on n jobs whose first len(prefix) ordered pairs have the given kinds:
    ordered pair absent / depends_on / resource read; self-loop absent / depends_on (n = 4: no self-loops,
    they are covered exhaustively for n <= 3)."""
    pairs = _pairs(n)
    loops = [(u, u) for u in range(n)]
    loop_choices = itertools.product((None, 'dep'), repeat=n) if n <= 3 else [(None,) * n]
    loop_choices = list(loop_choices)
    for rest in itertools.product(KINDS, repeat=len(pairs) - len(prefix)):
        ks = tuple(prefix) + rest
        base = tuple((u, v, k) for (u, v), k in zip(pairs, ks) if k)
        for ls in loop_choices:
            yield base + tuple((u, v, k) for (u, v), k in zip(loops, ls) if k)


def rank_vectors(n):
    perms = list(itertools.permutations(range(n)))
    if n <= 3:
        return perms
    return [perms[0], perms[-1]]  # n = 4: ascending and descending by creation position


def _work(item):
    n, prefix, tier = item
    res = {'evals': 0, 'cyclic': 0, 'skips': 0, 'rescues': 0, 'multihop': 0, 'fails': 0, 'viol': {}, 'samples': [],
           'pipelines': 0, 'n_cyc': 0, 'n_res': 0}
    all_flags = list(itertools.product((False, True), repeat=n))
    all_fails = [tuple(s) for r in range(n + 1) for s in itertools.combinations(range(n), r)]
    rvs = rank_vectors(n)
    for edges in graphs(n, prefix, tier):
        cyclic = topo_order(n, edges) is None
        ps = parents_of(n, edges)
        res['pipelines'] += 1
        res['n_cyc'] += cyclic
        res['n_res'] += any(k == 'res' for _, _, k in edges)
        if cyclic:
            flags = all_flags if n == 1 else ([all_flags[0], all_flags[-1]] if n <= 3 else [all_flags[0]])
            fails = [()]
        else:
            flags, fails = all_flags, all_fails
        sampled = False
        for ar in flags:
            for fail in fails:
                for ranks in rvs:
                    viol, info = run_case(n, edges, ar, fail, ranks)
                    res['evals'] += 1
                    if viol:
                        case = {'n': n, 'edges': [list(e) for e in edges], 'always_run': list(ar), 'fail': list(fail),
                                'ranks': list(ranks)}
                        for sig, msg in viol:
                            old = res['viol'].get(sig)
                            if old is None or graph_key(n, edges) < old[0]:
                                res['viol'][sig] = (graph_key(n, edges), msg, case)
                    if cyclic:
                        res['cyclic'] += 1
                        continue
                    if ranks != rvs[0]:
                        continue
                    exp = info['expected']
                    skipped = any(s == 'skipped' for s in exp.values())
                    if fail:
                        res['fails'] += 1
                    if skipped:
                        res['skips'] += 1
                    if any(ar[v] and any(exp[p] != 'ok' for p in ps[v]) for v in range(n)):
                        res['rescues'] += 1
                    multihop = any(exp[v] == 'skipped' and not any(exp[p] == 'failed' for p in ps[v]) for v in range(n))
                    if multihop:
                        res['multihop'] += 1
                    if multihop and not sampled and len(res['samples']) < 2:
                        sampled = True
                        res['samples'].append({'n': n, 'edges': [list(e) for e in edges], 'always_run': list(ar),
                                               'fail': list(fail), 'executed': info['calls'], 'job_ids': info['ids'],
                                               'expected': [exp[v] for v in range(n)]})
    res['viol'] = sorted(res['viol'].items(), key=lambda kv: kv[1][0])
    return (n, prefix), res


def _dispatch(item):
    if item[0] == 'H':
        return _work_hist(item[1:])
    if item[0] == 'PY':
        return _work_py(item[1:])
    return _work(item)


def _set_root(path):
    global _ROOT
    _ROOT = path


def check(tier, seed, procs):
    warnings.simplefilter('ignore')
    root = f'/dev/shm/vf-c17-{os.getpid()}'
    shutil.rmtree(root, ignore_errors=True)
    os.makedirs(root)
    _set_root(root)
    try:
        ns = (1, 2, 3) if tier == 'quick' else (1, 2, 3, 4)
        items = [(n, pre, tier) for n in ns for pre in itertools.product(KINDS, repeat=PREFIX_LEN[n])]
        hitems = [('H', n, pre, tier, False) for n in (2, 3) for pre in itertools.product(KINDS, repeat=PREFIX_LEN[n])]
        if tier != 'quick':
            hitems += [('H', 4, pre, tier, True) for pre in itertools.product(KINDS[:2], repeat=PREFIX_LEN[4])]
        npy = 32 if tier == 'quick' else 128
        pitems = [('PY', tier, sh, npy) for sh in range(npy)]
        allrows = par.pmap(_dispatch, par.rotate(items + hitems + pitems, seed), procs, chunksize=1)
    finally:
        shutil.rmtree(root, ignore_errors=True)
    prows = sorted((r for r in allrows if r[0][0] == 'py'), key=lambda r: r[0][1])
    allrows = [r for r in allrows if r[0][0] != 'py']
    rows = [r for r in allrows if r[0][0] != 'hist']
    hrows = sorted((r for r in allrows if r[0][0] == 'hist'), key=lambda r: (r[0][1], tuple(KINDS.index(k) for k in r[0][2])))
    rows.sort(key=lambda r: (r[0][0], tuple(KINDS.index(k) for k in r[0][1])))
    keys = ('evals', 'cyclic', 'skips', 'rescues', 'multihop', 'fails', 'pipelines', 'n_cyc', 'n_res')
    tot = {k: sum(r[1][k] for r in rows) for k in keys}
    best = {}
    for _, r in rows:
        for sig, (key, msg, case) in r['viol']:
            if sig not in best or key < best[sig][0]:
                best[sig] = (key, msg, case)
    violations = [{'signature': sig, 'message': f'{msg}; case={case}', 'replay': case}
                  for sig, (key, msg, case) in sorted(best.items(), key=lambda kv: kv[1][0])]
    hkeys = ('hist', 'cyc2', 'ran2', 'skip2', 'fail1', 'ok1', 'cross_run')
    htot = {k: sum(r[1][k] for r in hrows) for k in hkeys}
    hbest = {}
    for _, r in hrows:
        for sig, (key, msg, case) in r['viol']:
            if sig not in hbest or key < hbest[sig][0]:
                hbest[sig] = (key, msg, case)
    violations += [{'signature': sig, 'message': f'{msg}; history={case}', 'replay': case}
                   for sig, (key, msg, case) in sorted(hbest.items(), key=lambda kv: kv[1][0])]
    ptot = {k: sum(r[1][k] for r in prows) for k in ('evals', 'skips', 'consumer_first')}
    by_shape = {sh: sum(r[1]['by_shape'].get(sh, 0) for r in prows) for sh in PY_SHAPES}
    pbest = {}
    for _, r in prows:
        for sig, (key, msg, case) in r['viol']:
            if sig not in pbest or key < pbest[sig][0]:
                pbest[sig] = (key, msg, case)
    for sig, (key, msg, case) in sorted(pbest.items(), key=lambda kv: kv[1][0]):
        if not any(v['signature'] == sig for v in violations):
            violations.append({'signature': sig, 'message': f'{msg}; python-wiring case={case}', 'replay': case})
    samples = [s for _, r in rows for s in r['samples']]
    samples = samples[:: max(1, len(samples) // 2)][:2]
    ps_ = [s for _, r in prows for s in r['samples']]
    samples += ps_[:: max(1, len(ps_) // 2)][:2]
    hs = [s for _, r in hrows for s in r['samples']]
    samples += hs[:: max(1, len(hs) // 2)][:2]
    cov = {
        'evaluations': tot['evals'] + htot['hist'] + ptot['evals'],
        'distinct_nontrivial': tot['n_cyc'] + tot['skips'] + htot['cyc2'] + htot['skip2'] + ptot['skips'],
        'rule': 'distinct cyclic pipelines (must be rejected) + distinct (acyclic pipeline, always_run vector, failing '
                'set) cases in which the reference model skips at least one job + distinct two-run histories whose second '
                'run is cyclic or skips at least one job + distinct python-wiring cases that skip at least one job',
        'samples': samples,
        'exhaustive': True,
        'bounds': f'all labelled digraphs on 1..{ns[-1]} jobs (each ordered pair: none | depends_on | resource read; '
                  'self-loop none | depends_on for n<=3, no self-loops for n=4); label = creation position (= every shape '
                  'under every creation order); acyclic: every always_run vector x every failing subset x dependency-set '
                  'iteration orders (all n! for n<=3; ascending+descending for n=4); cyclic: always_run none/all (n=4: none) '
                  'x the same iteration orders.  Two-run histories: every acyclic pipeline (no self-loops) on 2..3 jobs'
                  + (' (+ depends_on-only pipelines on 4 jobs)' if tier != 'quick' else '') + ' x every failing subset'
                  + (' x always_run {none, each single job}' if tier != 'quick' else '') + ': run(); then every single mutation of '
                  'the same Batch from {new job in front of x, new job after x / independent, new depends_on'
                  + ('/resource' if tier != 'quick' else '') + ' edge between any two existing jobs incl. cycle-closing and '
                  'earlier-on-later} and every pair {new job, new edge}' + (' and (2..3 jobs) every pair of new edges' if tier != 'quick' else '')
                  + '; run() again; the second run is judged.  Python wirings: 2 jobs / one edge in either creation order, every '
                  'type assignment, every form (bash: file, group member, whole group; python: PythonResult, as_str, as_json, '
                  'as_repr) x every argument shape ' + str(list(PY_SHAPES)) + '; 3 jobs: every DAG with 2 edges'
                  + (' (all forms) and every triangle (one form)' if tier != 'quick' else ' (one form per producer type)')
                  + ', all type assignments, every shape per python-argument edge (fan-in = several resources in one call); failing '
                  'sets: ' + ('all subsets' if tier != 'quick' else 'all subsets for 2 jobs, none + each single job for 3 jobs'),
        'python_wiring_cases': ptot['evals'],
        'python_wiring_cases_with_a_skipped_job': ptot['skips'],
        'python_argument_edges_by_shape': by_shape,
        'python_argument_edges_with_consumer_created_before_producer': ptot['consumer_first'],
        'two_run_histories': htot['hist'],
        'histories_whose_second_run_is_cyclic': htot['cyc2'],
        'histories_whose_second_run_executes_jobs': htot['ran2'],
        'histories_whose_second_run_skips_a_job': htot['skip2'],
        'histories_with_a_failure_in_the_first_run': htot['fail1'],
        'histories_with_an_all_success_first_run': htot['ok1'],
        'info_second_runs_executing_a_child_of_a_job_that_failed_in_run_1': htot['cross_run'],
        'pipelines': tot['pipelines'],
        'acyclic_pipelines': tot['pipelines'] - tot['n_cyc'],
        'cyclic_pipelines': tot['n_cyc'],
        'pipelines_with_resource_edge': tot['n_res'],
        'cyclic_cases': tot['cyclic'],
        'cases_with_a_failing_job': tot['fails'],
        'cases_with_a_skipped_job': tot['skips'],
        'cases_where_always_run_job_ran_after_bad_parent': tot['rescues'],
        'cases_with_skip_propagated_through_a_skipped_job': tot['multihop'],
    }
    vac = None
    for k in ('cyclic', 'skips', 'rescues', 'multihop'):
        if tot[k] == 0:
            vac = f'counter {k} is zero'
    for k in ('cyc2', 'ran2', 'skip2', 'fail1', 'ok1'):
        if htot[k] == 0:
            vac = f'history counter {k} is zero'
    if ptot['skips'] == 0 or ptot['consumer_first'] == 0 or min(by_shape.values()) == 0:
        vac = f'python-wiring counters: {ptot} {by_shape}'
    return {
        'coverage': cov,
        'violations': violations,
        'assumptions': [
            'real hailtop.batch Batch/BashJob/resources, Batch._async_run and LocalBackend._async_run; only the name `sp` '
            '(subprocess) inside hailtop/batch/backend.py is replaced by a recorder: check_call executes nothing and '
            'raises CalledProcessError for exactly the chosen failing jobs; run() only removes the scratch directory',
            'a job is identified in the script handed to check_call by a unique marker in its own command',
            'Job.__hash__ (identity based, i.e. arbitrary, in the repo) is pinned to an enumerated rank so that the '
            'iteration order of Set[Job] dependency sets is owned and enumerated',
            'secret_alnum_string in hailtop.batch.batch is replaced by a deterministic generator of distinct tokens',
            'python jobs run on the real LocalBackend too: function/argument files are really written (dill -> pickle shim) '
            'under the /dev/shm scratch directory; a python job is recognised in its script by a marker passed as its first '
            'positional argument (it appears in the USER CODE comment)',
            'a failing command is modelled as check_call raising CalledProcessError (the only failure LocalBackend detects)',
            'two-run histories: the second run is judged per run -- candidates are the jobs not executed by the first run '
            '(skipped ones and new ones); a job is skipped iff not always_run and a parent failed or was skipped IN THAT RUN; '
            'jobs already executed are never executed again.  That LocalBackend executes, on a re-run, children of a job '
            'that failed in the earlier run is counted (info_...) but not judged: the statement does not say how failures '
            'carry across runs',
            'inert stand-ins: rich, dill, google/azure/boto SDKs (imported by hailtop.batch, never touched here)',
        ],
        'vacuous': vac,
    }


def replay(obj):
    warnings.simplefilter('ignore')
    root = f'/dev/shm/vf-c17-{os.getpid()}'
    os.makedirs(root, exist_ok=True)
    _set_root(root)
    try:
        edges = tuple(tuple(e) for e in obj['edges'])
        if obj.get('python'):
            pe = tuple((u, v, tuple(r)) for u, v, r in obj['edges'])
            viol, info = run_py_case(obj['n'], tuple(obj['types']), pe, tuple(obj['always_run']), tuple(obj['fail']))
        elif obj.get('history'):
            muts = tuple(tuple(m) for m in obj['mutations'])
            viol, info = run_history(obj['n'], edges, tuple(obj['always_run']), tuple(obj['fail']), muts)
        else:
            viol, info = run_case(obj['n'], edges, tuple(obj['always_run']), tuple(obj['fail']), tuple(obj['ranks']))
    finally:
        shutil.rmtree(root, ignore_errors=True)
    if viol:
        return False, '; '.join(f'{s}: {m}' for s, m in viol)
    return True, f'no violation ({info})'
