"""C19  Client spec bunching preserves order and limits.

Bounded-exhaustive input enumeration of the REAL hailtop.batch_client.aioclient.Batch._create_bunches
(called on a real, never-submitted Batch object; no server is involved: the method only serialises
and packs).  Inputs: every list of <= G job-group specs and <= J job specs whose serialised sizes are
drawn, freely per position, from tiny / medium / large values (a padding attribute makes each spec 15, 33 or
70 bytes; thorough adds 16), every max_bunch_bytesize from 1 to (total bytes + 1) and every max_bunch_size in
{1,2,3,8} (thorough adds 4).  Heterogeneous sizes matter: stale-running-total mistakes only show when a small
count-closed bunch is followed by large specs.

Oracle (the statement, judged on the returned bunches only):
* the bunches, concatenated, are exactly the job-group specs in order followed by the job specs in
  order (bytes decode to the original dicts, SpecType matches);
* every bunch holds at most max_bunch_size specs and fewer than max_bunch_bytesize bytes (the
  client's documented convention: "every spec must be less than max_bunch_bytesize");
* when some spec is not smaller than max_bunch_bytesize no bunching can respect the limit: the call
  must refuse (the documented assertion) instead of returning bunches.
"""
import itertools
import json

from vf import par

NEEDS_SERVICES = False

# padding lengths -> serialised sizes BASE+u: tiny, tiny+1 (off-by-one neighbour), medium, large.  Sizes of very different magnitude
# are essential: with near-equal sizes a byte total carried over from a previous bunch can never be smaller than the real one.
UNITS_BY_TIER = {'quick': (1, 19, 56), 'thorough': (1, 2, 19, 56)}
UNITS = UNITS_BY_TIER['thorough']
COUNT_LIMITS_BY_TIER = {'quick': (1, 2, 3, 8), 'thorough': (1, 2, 3, 4, 8)}
BOUNDS = {'quick': (2, 4), 'thorough': (2, 5)}  # (max job groups, max jobs)


def _spec(kind, i, pad):
    return {kind: i, 'p': 'x' * pad}


BASE = len(json.dumps(_spec('j', 1, 0), separators=(',', ':')))


def make_specs(gsizes, jsizes):
    groups = [_spec('g', i + 1, u) for i, u in enumerate(gsizes)]
    jobs = [_spec('j', i + 1, u) for i, u in enumerate(jsizes)]
    return groups, jobs


_batch = None


def batch():
    global _batch
    if _batch is None:
        from hailtop.batch_client.aioclient import Batch

        _batch = Batch(object(), None, token='verif')  # client is never touched by _create_bunches
    return _batch


def run_real(groups, jobs, max_bytes, max_size):
    """-> ('bunches', [[(typ, bytes), ...], ...]) | ('raised', ExceptionTypeName)"""
    try:
        res = batch()._create_bunches(groups, jobs, max_bytes, max_size)
    except Exception as e:  # noqa: BLE001
        return 'raised', type(e).__name__
    return 'bunches', [[(sb.typ.value, bytes(sb.spec_bytes)) for sb in bunch] for bunch in res]


def judge(groups, jobs, max_bytes, max_size, pre=None):
    """-> (list of (signature, message), facts)"""
    if pre is None:
        want = [('job_group', g) for g in groups] + [('job', j) for j in jobs]
        sizes = [len(json.dumps(s, separators=(',', ':')).encode()) for _, s in want]
    else:
        want, sizes = pre
    kind, res = run_real(groups, jobs, max_bytes, max_size)
    facts = {'refused': kind == 'raised', 'n_bunches': 0, 'mixed': False, 'byte_bound': False, 'count_bound': False, 'empty': 0}
    oversized = any(n >= max_bytes for n in sizes)
    bad = []
    if kind == 'raised':
        if not oversized:
            bad.append(('raised-on-satisfiable-input', f'raised {res} although every spec is smaller than max_bunch_bytesize'))
        return bad, facts
    if oversized:
        bad.append(('oversized-spec-not-refused', f'a spec of {max(sizes)} bytes is not smaller than max_bunch_bytesize={max_bytes} but bunches were returned'))
    flat = [x for bunch in res for x in bunch]
    got = []
    for typ, b in flat:
        try:
            got.append((typ, json.loads(b.decode('utf-8'))))
        except Exception:  # noqa: BLE001
            got.append((typ, ('undecodable', b)))
    if got != want:
        gk = [json.dumps(x, sort_keys=True, default=str) for x in got]
        wk = [json.dumps(x, sort_keys=True, default=str) for x in want]
        if any(k not in gk for k in wk):
            sig = 'spec-missing-or-altered'
        elif len(gk) != len(wk):
            sig = 'spec-duplicated'
        else:
            sig = 'order-changed'
        bad.append((sig, f'concatenated bunches are {[(t, s) for t, s in got]}, expected {want}'))
    facts['n_bunches'] = len(res)
    for bunch in res:
        nb = sum(len(b) for _, b in bunch)
        if not bunch:
            facts['empty'] += 1
        if len({t for t, _ in bunch}) > 1:
            facts['mixed'] = True
        if len(bunch) > max_size:
            bad.append(('count-limit-exceeded', f'a bunch holds {len(bunch)} specs > max_bunch_size={max_size}'))
        if bunch and nb >= max_bytes and not oversized:
            bad.append(('byte-limit-exceeded', f'a bunch holds {nb} bytes, not fewer than max_bunch_bytesize={max_bytes}'))
        if len(bunch) == max_size:
            facts['count_bound'] = True
        if nb + min(sizes, default=0) >= max_bytes:
            facts['byte_bound'] = True
    return bad, facts


class Acc:
    def __init__(self):
        self.c = {}
        self.fail = {}

    def inc(self, k, n=1):
        self.c[k] = self.c.get(k, 0) + n

    def bad(self, sig, key, msg, replay):
        f = self.fail.get(sig)
        if f is None:
            self.fail[sig] = {'count': 1, 'key': key, 'message': msg, 'replay': replay}
            return
        f['count'] += 1
        if key < f['key']:
            f.update(key=key, message=msg, replay=replay)

    def merge(self, o):
        for k, n in o.c.items():
            self.inc(k, n)
        for sig, g in o.fail.items():
            f = self.fail.get(sig)
            if f is None:
                self.fail[sig] = g
            else:
                f['count'] += g['count']
                if g['key'] < f['key']:
                    f.update(key=g['key'], message=g['message'], replay=g['replay'])


def _shard(arg):
    gsizes, jsizes, count_limits = arg
    groups, jobs = make_specs(gsizes, jsizes)
    total = sum(BASE + u for u in gsizes + jsizes)
    acc = Acc()
    samples = []
    want = [('job_group', g) for g in groups] + [('job', j) for j in jobs]
    pre = (want, [len(json.dumps(s, separators=(',', ':')).encode()) for _, s in want])
    for max_bytes in range(1, total + 2):
        for max_size in count_limits:
            bad, facts = judge(groups, jobs, max_bytes, max_size, pre)
            acc.inc('cases')
            if facts['refused']:
                acc.inc('refused')
            else:
                acc.inc('bunched')
                if facts['n_bunches'] >= 2:
                    acc.inc('split-into-several-bunches')
                    if len(samples) < 1 and facts['mixed'] and facts['byte_bound'] and facts['count_bound']:
                        samples.append({'group_sizes': [BASE + u for u in gsizes], 'job_sizes': [BASE + u for u in jsizes],
                                        'max_bunch_bytesize': max_bytes, 'max_bunch_size': max_size, 'n_bunches': facts['n_bunches']})
                for k in ('mixed', 'byte_bound', 'count_bound'):
                    if facts[k]:
                        acc.inc(k)
                acc.inc('empty-bunches', facts['empty'])
            for sig, msg in bad:
                n = len(gsizes) + len(jsizes)
                acc.bad(sig, (n, total, max_bytes, max_size, list(gsizes), list(jsizes)),
                        f'_create_bunches({len(gsizes)} job groups of {[BASE + u for u in gsizes]} bytes, {len(jsizes)} jobs of {[BASE + u for u in jsizes]} bytes, '
                        f'max_bunch_bytesize={max_bytes}, max_bunch_size={max_size}): {msg}',
                        {'group_units': list(gsizes), 'job_units': list(jsizes), 'max_bunch_bytesize': max_bytes, 'max_bunch_size': max_size})
    return acc, samples


def _selfcheck():
    # the padding really produces the advertised sizes with the serialiser the client uses
    import orjson

    for kind in ('g', 'j'):
        for u in UNITS:
            n = len(orjson.dumps(_spec(kind, 3, u)))
            if n != BASE + u:
                raise RuntimeError(f'harness: spec size {n} != {BASE + u}')
    # the oracle rejects hand-made wrong bunchings (so that a silent oracle means a correct result)
    import hailtop.batch_client.aioclient as ac

    groups, jobs = make_specs((1,), (2, 3))
    real = ac.Batch._create_bunches
    S, T = ac.SpecBytes, ac.SpecType

    def fake(builder):
        def f(self, g, j, mb, ms):
            return builder([S(orjson.dumps(x), T.JOB_GROUP) for x in g], [S(orjson.dumps(x), T.JOB) for x in j])
        return f

    cases = {
        'order-changed': lambda g, j: [j, g],
        'spec-missing-or-altered': lambda g, j: [g, j[:1]],
        'spec-duplicated': lambda g, j: [g, j, j[-1:]],
        'count-limit-exceeded': lambda g, j: [g + j],
        'byte-limit-exceeded': lambda g, j: [g + j[:1], j[1:]],
    }
    try:
        for sig, builder in cases.items():
            ac.Batch._create_bunches = fake(builder)
            mb = 2 * BASE + 3 if sig == 'byte-limit-exceeded' else 10 * BASE
            bad, _ = judge(groups, jobs, mb, 2)
            if sig not in [s for s, _ in bad]:
                raise RuntimeError(f'oracle self-check: a {sig} bunching was not recognised ({bad})')
    finally:
        ac.Batch._create_bunches = real


def check(tier, seed, procs):
    _selfcheck()
    G, J = BOUNDS[tier]
    items = []
    units, count_limits = UNITS_BY_TIER[tier], COUNT_LIMITS_BY_TIER[tier]
    for g in range(G + 1):
        for gs in itertools.product(units, repeat=g):
            for j in range(J + 1):
                for js in itertools.product(units, repeat=j):
                    items.append((gs, js, count_limits))
    items.sort(key=lambda it: (len(it[0]) + len(it[1]), it))
    order = par.rotate(items, seed)
    rows = par.pmap(_shard, order, procs)
    acc = Acc()
    samples = []
    for it, (a, s) in sorted(zip(order, rows), key=lambda r: (len(r[0][0]) + len(r[0][1]), r[0])):
        acc.merge(a)
        if s and len(samples) < 3 and len(it[0]) + len(it[1]) >= 4:
            samples.extend(s)
    c = acc.c
    violations = []
    for sig, f in sorted(acc.fail.items(), key=lambda kv: (kv[1]['key'], kv[0])):
        violations.append({'signature': sig, 'message': f'{f["message"]}  [{f["count"]} failing inputs in this class]', 'replay': f['replay']})
    if not samples:
        samples = [{'group_sizes': [BASE + 1], 'job_sizes': [BASE + 2, BASE + 3], 'note': 'no mixed, doubly-bound case seen'}]
    cov = {
        'evaluations': c.get('cases', 0),
        'distinct_nontrivial': c.get('split-into-several-bunches', 0),
        'rule': 'a case is (job-group size list, job size list, max_bunch_bytesize, max_bunch_size), each generated exactly once; '
                'non-trivial = every spec fits and the real function returned at least two bunches, i.e. the packing loop had to close a bunch (counted)',
        'samples': samples,
        'exhaustive': True,
        'bounds': f'<= {G} job-group specs and <= {J} job specs, serialised sizes {[BASE + u for u in units]} bytes (tiny / medium / large, free per position); '
                  f'max_bunch_bytesize 1 .. total bytes + 1 (every integer); max_bunch_size in {list(count_limits)}',
        'spec_lists': len(items),
        'refused_because_a_spec_does_not_fit': c.get('refused', 0),
        'bunched': c.get('bunched', 0),
        'results_with_a_bunch_mixing_groups_and_jobs': c.get('mixed', 0),
        'results_with_a_bunch_at_the_byte_limit': c.get('byte_bound', 0),
        'results_with_a_bunch_at_the_count_limit': c.get('count_bound', 0),
        'empty_bunches_returned': c.get('empty-bunches', 0),
        'failing_inputs_per_class': {sig: f['count'] for sig, f in sorted(acc.fail.items())},
    }
    vac = None
    if not (c.get('split-into-several-bunches') and c.get('refused') and c.get('cases', 0) > len(items)):
        vac = f'degenerate enumeration: {c}'
    return {
        'coverage': cov,
        'violations': violations,
        'assumptions': [
            'the byte limit is exclusive (sum of spec bytes in a bunch < max_bunch_bytesize, the convention of the client\'s own assertion text) and the count limit inclusive',
            'when a spec is not smaller than max_bunch_bytesize any exception counts as the refusal; empty bunches are counted, not judged (the statement does not mention them)',
            'spec contents do not matter to the packing beyond their serialised length (sizes are chosen by a padding attribute); orjson is served by the json-based shim vf/shims/orjson.py '
            '(compact separators, same byte lengths for these ASCII specs)',
            'limits beyond total bytes + 1 behave like "no byte limit" and are represented by that value',
        ],
        'vacuous': vac,
    }


def replay(obj):
    groups, jobs = make_specs(tuple(obj['group_units']), tuple(obj['job_units']))
    bad, _ = judge(groups, jobs, obj['max_bunch_bytesize'], obj['max_bunch_size'])
    if bad:
        return False, '; '.join(f'{s}: {m}' for s, m in bad)
    return True, 'no violation'
