"""C26  Service cache is bounded, fresh and single-flight.

Real gear.time_limited_max_size_cache.TimeLimitedMaxSizeCache on the virtual loop with
time.monotonic_ns owned by the virtual clock.  A configuration is a multiset of lookups
(key, arrival time, optional controller that cancels this lookup at a given time) and a capacity.
Inside an execution the environment decides how every load behaves (returns after a yield, returns
after 1 s, raises after a yield); a cancellation lands before the lookup started, while it waits for a
load (its own or a shared one), and after the load completed but before the waiting lookup resumed.
Scheduling model (only schedules real asyncio can produce): the ready queue is strictly FIFO, so a freshly
created task takes its first step in creation order; every yield of a harness body, every arrival and the
cancellation are external events which the environment completes in any order, appending the completion at
the end of the ready queue (timers due at one instant fire in any order too).  All such orders are explored.

Oracle (the four clauses of the statement, nothing else):
  * number of stored entries <= num_slots after every callback;
  * a returned value was produced by a load that completed at most `lifetime` ago;
  * load(k) is never called while an earlier load(k) is still in flight;
  * a lookup raises only (a) the exception of a load of its key that failed no earlier than the instant
    the lookup was made (a load that itself ended by CancelledError or by a non-Exception BaseException counts:
    the lookups sharing it get that error), or (b) CancelledError when its own task was cancelled.
"""
import ast
import asyncio
import itertools

from vf import par, vloop, vloopx

NEEDS_SERVICES = False
LIFETIME = 10  # seconds of virtual time
LAGS = (0, 1.0)  # a timer may be observed this much after its due time (time.monotonic_ns read on resumption)
LOAD_OPTS = ('returns-after-yield', 'returns-after-1s', 'raises-after-yield', 'raises-CancelledError-after-yield', 'raises-BaseException-after-yield')
OPT_ORDER = (0, 2, 3, 4, 1)  # a configuration with n_opts = n lets the environment pick among the first n of these

K_BEFORE = 'before-lookup'
K_AFTER = 'after-exit'


class BoomBase(BaseException):
    """A load failure that is a BaseException but not an Exception."""

    def __init__(self, key, load_id):
        super().__init__(key, load_id)
        self.key = key
        self.load_id = load_id


class Boom(Exception):
    def __init__(self, key, load_id):
        super().__init__(key, load_id)
        self.key = key
        self.load_id = load_id


def make_run_one(num_slots, lookups, n_opts=3, reduce=True):
    """lookups: tuple of (key, arrival, cancel_time|None)."""
    from gear.time_limited_max_size_cache import TimeLimitedMaxSizeCache

    m = len(lookups)

    def run(chooser):
        loop = vloopx.XLoop(chooser)
        loop.anon_prefix = 'load-task'
        loop.ext_mode = True  # FIFO ready queue + environment-completed external events / same-instant timers (see vloopx)
        if all(c is None for _, _, c in lookups):
            loop.lag_choices = LAGS  # one late wake-up per execution (configurations without a cancellation only)
            loop.lag_budget = 1
        loads = []
        ph = [('new',)] * m
        results = [None] * m
        role = [None] * m
        tasks = {}
        st = {'viol': None, 'sig': None, 'kinds': {}, 'maxsize': 0}

        def fail(sig, msg):
            if st['viol'] is None:
                st['viol'] = msg
                st['sig'] = sig

        def alive(ld):
            return ld['coro'].cr_frame is not None

        def load(k):
            # called synchronously by the cache; returns the coroutine the cache will run
            for ld in loads:
                if ld['key'] == k and alive(ld):
                    fail('second-load-while-one-in-flight',
                         f'load({k!r}) called while load #{ld["id"]} of the same key is still in flight '
                         f'({ld["stage"]}); cancellations={st["kinds"]}')
            ld = {'id': len(loads), 'key': k, 'opt': None, 'stage': 'created', 'done_t': None, 'end_t': None}
            ld['coro'] = _load(ld)
            loads.append(ld)
            return ld['coro']

        async def _load(ld):
            opt = OPT_ORDER[vloop.choose(n_opts, f'load{ld["id"]}({ld["key"]})')]
            ld['opt'] = opt
            ld['stage'] = 'running'
            try:
                if opt == 1:
                    await asyncio.sleep(1)
                else:
                    await vloopx.ext_yield()
                if opt == 2:
                    ld['stage'] = 'raised'
                    ld['end_t'] = vloop.now()
                    raise Boom(ld['key'], ld['id'])
                if opt == 3:
                    # the load itself ends by cancellation (something it awaited was cancelled); nobody cancelled the load task
                    ld['stage'] = 'self-cancelled'
                    ld['end_t'] = vloop.now()
                    raise asyncio.CancelledError()
                if opt == 4:
                    ld['stage'] = 'raised-base'
                    ld['end_t'] = vloop.now()
                    raise BoomBase(ld['key'], ld['id'])
                ld['stage'] = 'returned'
                ld['done_t'] = vloop.now()
                return (ld['key'], ld['id'])
            except asyncio.CancelledError:
                if ld['stage'] != 'self-cancelled':
                    ld['stage'] = 'cancelled'
                    ld['end_t'] = vloop.now()
                raise

        cache = TimeLimitedMaxSizeCache(load, LIFETIME * 10**9, num_slots, 'verif')

        async def looker(i):
            k, a, _ = lookups[i]
            if True:
                ph[i] = ('sleep',)
                try:
                    if a > 0:
                        await asyncio.sleep(a)
                    else:
                        await vloopx.ext_yield()  # arrival at t=0 is an external event too: lookups arrive in any order
                except asyncio.CancelledError:
                    ph[i] = ('done',)
                    results[i] = ('cancelled-before-lookup',)
                    return
            n0 = len(loads)
            t_call = vloop.now()
            inflight0 = {ld['id'] for ld in loads if ld['key'] == k and alive(ld)}
            # the lookup that starts a flight is the "loader", lookups joining while another one waits are "sharers"
            role[i] = 'sharer' if any(j != i and ph[j][0] == 'look' and lookups[j][0] == k for j in range(m)) else 'loader'
            ph[i] = ('look', n0, role[i])
            try:
                v = await cache.lookup(k)
            except asyncio.CancelledError:
                # legitimate if this lookup was cancelled itself, or if "its own load failed": a load of its key ended by
                # cancellation no earlier than the instant the lookup was made (the lookup shared that load)
                own_load_cancelled = any(ld['key'] == k and ld['stage'] == 'self-cancelled' and ld['end_t'] >= t_call for ld in loads)
                if st['kinds'].get(i) is None and not own_load_cancelled:
                    others = {j: kd for j, kd in st['kinds'].items() if j != i}
                    roles = sorted({kd.split(':')[0] for kd in others.values() if ':' in kd})
                    fail('uncancelled-lookup-got-CancelledError:victim-was-' + ('+'.join(roles) if roles else 'nobody'),
                         f'lookup #{i} ({k!r}) made at t={t_call - 1000:g} raised CancelledError although nobody cancelled it and no load of its key '
                         f'ended since then (load end times: {[(ld["key"], ld["stage"], None if ld["end_t"] is None else ld["end_t"] - 1000) for ld in loads]}); '
                         f'cancellations of other lookups={others}; loads={[(ld["key"], ld["stage"]) for ld in loads]}')
                results[i] = ('CancelledError', 'load-ended-by-cancellation' if own_load_cancelled and st['kinds'].get(i) is None else 'cancelled')
            except (Boom, BoomBase) as e:
                # "its own load": a load of its key that failed no earlier than the instant the lookup was made
                if not (e.key == k and loads[e.load_id]['end_t'] >= t_call):
                    fail('lookup-failed-with-foreign-load-error', f'lookup #{i} ({k!r}) made at t={t_call - 1000:g} raised the failure of '
                         f'load #{e.load_id} ({e.key!r}) that had failed at t={loads[e.load_id]["end_t"] - 1000:g}')
                results[i] = (type(e).__name__, e.load_id)
            except Exception as e:  # noqa: BLE001
                fail(f'lookup-failed-without-load-failure:{type(e).__name__}',
                     f'lookup #{i} ({k!r}) raised {type(e).__name__}: {e}; cancellations={st["kinds"]} '
                     f'loads={[(ld["key"], ld["stage"]) for ld in loads]}')
                results[i] = (type(e).__name__,)
            else:
                key, lid = v
                age = vloop.now() - loads[lid]['done_t']
                if age > LIFETIME:
                    fail('stale-value-returned', f'lookup #{i} ({k!r}) at t={vloop.now() - 1000:g} returned the value loaded at '
                         f't={loads[lid]["done_t"] - 1000:g}: age {age:g} > lifetime {LIFETIME}')
                results[i] = ('ok', lid, 'hit' if lid < n0 and lid not in inflight0 else 'loaded' if role[i] == 'loader' else 'shared')
            ph[i] = ('done',)

        def wake_pending(t):
            return any(getattr(getattr(h, '_callback', None), '__self__', None) is t and not h._cancelled for h in loop._ready)

        def classify(v):
            t = tasks[v]
            if t.done() or ph[v][0] == 'done':
                return K_AFTER
            if ph[v][0] in ('new', 'sleep'):
                return K_BEFORE
            return role[v] + (':after-load-done-before-resume' if wake_pending(t) else ':while-waiting')

        async def controller(v, t):
            if t > 0:
                await asyncio.sleep(t)
            await vloopx.ext_yield()  # the cancellation lands at a moment of the environment's choosing within that instant
            st['kinds'][v] = classify(v)
            tasks[v].cancel()

        async def setup():
            lp = asyncio.get_running_loop()
            for i in range(m):
                tasks[i] = lp.create_task(looker(i), name=f'l{i}')
            for i in range(m):
                if lookups[i][2] is not None:
                    lp.create_task(controller(i, lookups[i][2]), name=f'ctl{i}')

        def internals():
            c = getattr(cache, '_cache', None)
            if not isinstance(c, dict):
                raise RuntimeError('C26 harness: TimeLimitedMaxSizeCache._cache is no longer a dict; size oracle needs updating')
            return c

        def hook():
            n = len(internals())
            if n > st['maxsize']:
                st['maxsize'] = n
            if n > num_slots:
                fail('over-capacity', f'{n} entries stored with num_slots={num_slots}: keys {sorted(internals())}')

        def state():
            now = loop._vtime
            now_ns = int(round(now * 10**9))
            c = internals()
            exp = getattr(cache, '_expiry_time', {})
            return (tuple(ph), tuple(results), tuple(vloopx.pc(t) for t in tasks.values()), tuple(sorted(st['kinds'].items())),
                    tuple((ld['key'], ld['opt'], ld['stage'], alive(ld), None if ld['done_t'] is None else now - ld['done_t'])
                          for ld in loads),
                    tuple(sorted((k, v, exp.get(k, 0) - now_ns) for k, v in c.items())),
                    tuple(sorted(getattr(cache, '_futures', {}))), st['maxsize'], st['viol'] is None)

        def independent(h):
            # asyncio plumbing (timer -> sleep future, shield/gather result copying) is independent of every other step
            # except a cancellation of a task it is about to wake: keep the choice while such a controller may still fire
            if vloopx.is_task_step(h):
                return False
            aff = vloopx.affected_tasks(h)
            if aff is None:
                return False
            live_victims = {tasks[i] for i in range(m) if lookups[i][2] is not None and i not in st['kinds'] and i in tasks}
            return not (aff & live_victims)

        loop.state_fn = state
        loop.step_hook = hook
        loop.run(setup(), max_steps=50)
        loop.drain(max_steps=5000)
        blocked = tuple(i for i in range(m) if not tasks[i].done())
        errs = loop.finish()
        bad = [e for e in errs if 'exception' in e and not isinstance(e['exception'], (Boom, BoomBase, asyncio.CancelledError))]
        if bad:
            raise RuntimeError(f'C26 harness: unexpected loop error {bad[0]}')
        outcome = (tuple(sorted(st['kinds'].items())), tuple(results), tuple((ld['key'], ld['opt'], ld['stage']) for ld in loads),
                   st['maxsize'], blocked, len(loop.lag_log))
        return outcome, st['viol'], st['sig']

    def run_one(chooser):
        with vloop.owned_time():
            return run(chooser)

    return run_one


def _explore_config(cfg):
    r = vloop.explore(make_run_one, cfg, bound=None, procs=1, determinism_checks=2)
    cnt = {}

    def bump(k, c):
        cnt[k] = cnt.get(k, 0) + c

    for k, c in r.outcomes.items():
        kinds, results, loads, maxsize, blocked, nlag = ast.literal_eval(k)
        if nlag:
            bump('late-wake-up', c)
        for _, kind in kinds:
            bump('cancel:' + kind, c)
        kinds_of = {res[2] for res in results if res and res[0] == 'ok'}
        for x in kinds_of:
            bump('served:' + x, c)
        if any(res and res[0] == 'Boom' for res in results):
            bump('lookup-raised-load-error', c)
        if any(res and res[0] == 'BoomBase' for res in results):
            bump('lookup-raised-load-BaseException', c)
        if sum(1 for res in results if res and res[0] == 'CancelledError' and res[1] == 'load-ended-by-cancellation') >= 2:
            bump('two-lookups-shared-a-load-that-ended-by-cancellation', c)
        for j, ld in enumerate(loads):
            if ld[2] in ('self-cancelled', 'raised-base') and any(l2[0] == ld[0] and l2[2] == 'returned' for l2 in loads[j + 1:]):
                bump('fresh-load-after-a-load-ended-by-' + ('cancellation' if ld[2] == 'self-cancelled' else 'BaseException'), c)
                break
        if len({ld[0] for ld in loads if ld[2] == 'returned'}) > cfg[0]:
            bump('more-keys-loaded-than-slots', c)
        keys_loaded = [ld[0] for ld in loads if ld[2] == 'returned']
        if len(keys_loaded) != len(set(keys_loaded)):
            bump('key-reloaded', c)
        if blocked:
            bump('lookup-blocked-for-ever(not judged)', c)
    best = {}
    for s, msg, ch in r.violations:
        if s not in best or (len(ch), ch) < (len(best[s][2]), best[s][2]):
            best[s] = (s, msg, ch)
    return (cfg, r.executions, r.choice_points, len(r.outcomes), r.distinct_states, sorted(best.values()), r.samples[:1], cnt)


def _size(cfg):
    slots, lk, n_opts = cfg
    return (len(lk), sum(1 for x in lk if x[2] is not None), len({x[0] for x in lk}), sum(x[1] for x in lk), slots, n_opts,
            tuple((k, a, -1 if c is None else c) for k, a, c in lk))


def configs(tier):
    out = []
    if tier == 'quick':
        plan = [((1, 2), 2, ('a', 'b'), (0, 10, 11), (0, 10), 1, 3),
                ((1, 2), 2, ('a',), (0, 10, 11), (), 0, 5),
                ((1, 2), 3, ('a',), (0, 11), (0,), 1, 2),
                ((1,), 3, ('a',), (0, 11), (), 0, 3),
                ((1, 2), 3, ('a', 'b'), (0, 11), (), 0, 2)]
    else:
        plan = [((1, 2), 2, ('a', 'b'), (0, 1, 10, 11, 12), (0, 1, 10, 11), 2, 5),
                ((1, 2), 3, ('a',), (0, 10, 11), (), 0, 5),
                ((1, 2), 3, ('a', 'b'), (0, 10, 11), (0, 10), 1, 2),
                ((1, 2), 3, ('a',), (0, 10, 11), (0, 10), 2, 2),
                ((1, 2), 3, ('a', 'b', 'c'), (0, 11), (), 0, 2),
                ((1, 2), 4, ('a',), (0, 11), (), 0, 3)]
    seen = set()
    for slotss, m, keys, arrivals, ctimes, maxv, n_opts in plan:
        types = sorted(((k, a, c) for k in keys for a in arrivals for c in (None,) + tuple(ctimes)),
                       key=lambda x: (x[0], x[1], -1 if x[2] is None else x[2]))
        for lk in itertools.combinations_with_replacement(types, m):
            if sum(1 for x in lk if x[2] is not None) > maxv:
                continue
            # keys are interchangeable: keep the representative whose keys appear in first-use order a, b, c
            order = []
            for x in lk:
                if x[0] not in order:
                    order.append(x[0])
            if order != sorted(order) or order != list(keys[:len(order)]):
                continue
            for s in slotss:
                cfg = (s, lk, n_opts)
                if cfg not in seen:
                    seen.add(cfg)
                    out.append(cfg)
    out.sort(key=_size)
    return out


SELFCHECK = [
    (1, (('a', 0, None), ('a', 0, 0)), 5),
    (1, (('a', 0, None), ('b', 10, 10)), 3),
    (2, (('a', 0, 0), ('a', 0, None), ('a', 11, None)), 2),
]


def _selfcheck_pruning():
    """Pruning must not lose behaviours.  The unpruned search is capped (it explodes quickly): every outcome and
    violation class it finds must also be found by the complete pruned search; equality when it completed."""
    for cfg in SELFCHECK:
        a = vloop.explore(make_run_one, cfg + (True,), bound=None, procs=1)
        b = vloop.explore(make_run_one, cfg + (False,), bound=None, procs=1, prune=False, cap=6000)
        if not set(b.outcomes) <= set(a.outcomes) or (not b.capped and set(a.outcomes) != set(b.outcomes)):
            raise RuntimeError(f'state-hash pruning lost outcomes for {cfg}: {sorted(set(b.outcomes) ^ set(a.outcomes))[:3]}')
        va, vb = {v[0] for v in a.violations}, {v[0] for v in b.violations}
        if not vb <= va or (not b.capped and va != vb):
            raise RuntimeError(f'state-hash pruning changed the violation set for {cfg}')
        if not b.capped and a.executions > b.executions:
            raise RuntimeError('pruned search larger than unpruned search')


def check(tier, seed, procs):
    _selfcheck_pruning()
    allc = configs(tier)
    rows = par.pmap(_explore_config, par.rotate(allc[::-1], seed), procs, chunksize=1)  # big configurations first
    rows.sort(key=lambda r: _size(r[0]))
    execs = sum(r[1] for r in rows)
    points = sum(r[2] for r in rows)
    outcomes = sum(r[3] for r in rows)
    dstates = sum(r[4] for r in rows)
    cnt = {}
    for r in rows:
        for k, c in r[7].items():
            cnt[k] = cnt.get(k, 0) + c
    violations = []
    nviol_cfg = 0
    for r in rows:
        if r[5]:
            nviol_cfg += 1
        for sig, msg, choices in r[5]:
            violations.append({'signature': sig, 'message': msg, 'replay': {'config': r[0], 'choices': choices}})
    samples = [{'config': r[0], **r[6][0]} for r in rows[-3:] if r[6]]
    cov = {
        'states': dstates,
        'transitions': points,
        'traces_validated_against_impl': execs,
        'samples': samples,
        'exhaustive': True,
        'configurations': len(allc),
        'configurations_with_a_violation': nviol_cfg,
        'schedules_executed': execs,
        'distinct_outcomes': outcomes,
        'executions_by_feature': dict(sorted(cnt.items())),
        'deviation_bound': 'unbounded (every order of external-event/timer completions over a FIFO ready queue and every load behaviour, state-hash pruned)',
        'bounds': (f'lifetime {LIFETIME}s; num_slots 1-2; '
                   + ('2 lookups (keys a,b; arrivals 0/10/11 s; <=1 cancelled, controller at 0 or 10 s; first 3 load behaviours | key a, none cancelled, '
                      'all 5), 3 lookups (arrivals 0/11; key a only with <=1 cancelled at 0 and the first 2 load behaviours | key a, none cancelled, '
                      '1 slot, first 3 | keys a,b, none cancelled, first 2)'
                      if tier == 'quick' else
                      '2 lookups (keys a,b; arrivals 0/1/10/11/12; <=2 cancelled at 0/1/10/11; all 5 load behaviours), 3 lookups (key a; arrivals '
                      '0/10/11; none cancelled; all 5 | keys a,b; arrivals 0/10/11; <=1 cancelled at 0/10; first 2 | key a; arrivals 0/10/11; <=2 '
                      'cancelled at 0/10; first 2 | keys a,b,c; arrivals 0/11; none cancelled; first 2), 4 lookups (key a; arrivals 0/11; none '
                      'cancelled; first 3)')
                   + '; load behaviours in order: returns after a yield | raises an Exception | raises CancelledError itself | raises a non-Exception '
                     'BaseException | returns after 1 s'),
    }
    need = ['cancel:' + K_BEFORE, 'cancel:loader:while-waiting', 'cancel:sharer:while-waiting',
            'cancel:loader:after-load-done-before-resume', 'cancel:sharer:after-load-done-before-resume',
            'served:hit', 'served:shared', 'served:loaded', 'lookup-raised-load-error', 'more-keys-loaded-than-slots', 'key-reloaded',
            'lookup-raised-load-BaseException', 'two-lookups-shared-a-load-that-ended-by-cancellation',
            'fresh-load-after-a-load-ended-by-cancellation', 'fresh-load-after-a-load-ended-by-BaseException']
    missing = [k for k in need if not cnt.get(k)]
    return {
        'coverage': cov,
        'violations': violations,
        'assumptions': [
            'every execution is the real TimeLimitedMaxSizeCache on a virtual asyncio loop; time.monotonic_ns is the virtual clock',
            'virtual time advances only when no callback is runnable (callbacks take zero time), so a value is stored at the instant its load completed',
            'prometheus_client / prometheus_async are shims: counters are no-ops and prometheus_async.aio.time(metric, fut) awaits fut in the caller\'s task, as the real one does',
            'keys are interchangeable and lookups are enumerated as multisets (arrivals are external events / timers, so every arrival order is explored)',
            'only schedules real asyncio can produce: the ready queue is FIFO (a new task takes its first step in creation order, before '
            'anything queued later); the environment decides when each external event completes (every yield of a harness body, '
            'arrivals, the cancellation) and which of the timers due at one instant fires next, and appends that completion at the '
            'end of the ready queue; every such order is explored',
            'a value exactly `lifetime` old is not "older than its lifetime"; a lookup that never completes is counted but not judged',
            f'late wake-ups: in configurations without a cancellation, once per execution the clock may be observed {LAGS[1]:g} s after the due time '
            'of the timer it advances to; ages are judged on the observed clock',
        ],
        # a reported violation is itself evidence that the run was not vacuous (a broken implementation may skip a feature)
        'vacuous': f'never exercised: {missing}' if missing and not violations else None,
    }


def replay(obj):
    slots, lk, n_opts = obj['config']
    lk = tuple((k, a, c) for k, a, c in lk)
    x = vloop.run_prefix(make_run_one(slots, lk, n_opts), tuple(obj['choices']))
    return x.violation is None, x.violation or 'no violation'
