"""C31  Hail type strings round-trip.

Bounded-exhaustive enumeration of the REAL front-end printer/parser (hail.expr.types, type_parsing,
hail.utils.java.escape_parsable/unescape_parsable, hail.utils.misc.escape_id) over

* a NAME space (field names and reference-genome names): the nasty names of DESIGN.md plus every string
  up to a length bound over a small alphabet of troublemakers, each put into a fixed set of type contexts,
  and every ordered pair of the listed names as a two-field struct;
* a STRUCTURE space: every type up to a depth bound over a leaf alphabet and a field-name alphabet
  (array, set, interval, ndarray(1,2), dict, tuple(0..2), struct(0..2 distinct fields)).

Oracles, on every case:
  P1  every printed form -- str(t), t.pretty() (several indent/increment settings), pprint.pformat(t), the argument of repr(t) --
      parses with hl.dtype, equals t (hail's ==), has the same shape/names by an independent walk, and its loci are the registered genomes;
  P2  for the sub-language of vcf_type_grammar, parsing t._parsable_string() with it gives t back;
  P3  unescape_parsable inverts escape_parsable;
  E1  every identifier the front end emits (escape_parsable for types, escape_id for IR field names) is one
      identifier token for the engine's IRLexer and decodes to the original name;
  E2  t._parsable_string() tokenises for the engine and IRParser.type_expr's grammar reads the same type
      (same constructors, same field names in order, same genome names).
The engine side is `engine_accepts(identifier_text) -> (ok, decoded_name | reason)`; by default the model in
vf.enginelex whose escape set / unescape table are extracted from the current Scala sources at run time.
A compiled slice of the real lexer can be plugged in with `set_engine(fn)`.
"""
import itertools
import json

from vf import boot, par

NEEDS_SERVICES = False

PRIMS = ('int32', 'int64', 'float32', 'float64', 'str', 'bool', 'call')

DESIGN_NAMES = ['a', 'a b', '`', '\\', '"', "'", 'é', '', '1a', 'a.b', '\n', '\t', '\U0001f600', 'tstruct', '\x00']
EXTRA_NAMES = ['aé', 'a²', 'a\U0001d41a', '\\`', 'a\\', '\\n', '\x7f', '\r', '\x08', ' ', 'int', 'ǆ',
               '_', 'a`b', '\\u0041', ' ', 'é', 'struct{a: int32}', 'a:b', 'a,b', '<', '}']
# "special" code points: BOM / byte-swapped BOM, noncharacters, line/paragraph separators, invisible format characters,
# the edges of the surrogate gap, the replacement character, first/last astral code point, NEL
SPECIAL_CODEPOINTS = [0xFEFF, 0xFFFE, 0xFFFF, 0x2028, 0x2029, 0x00AD, 0x200B, 0xD7FF, 0xE000, 0xFFFD, 0x10000, 0x10FFFF, 0x0085]
SPECIAL_NAMES = [f for c in SPECIAL_CODEPOINTS for f in (chr(c), chr(c) + 'a', 'a' + chr(c) + 'b', 'a' + chr(c))]
ALPHA_QUICK = ['a', '1', ' ', '`', '\\', '"', 'é', 'n']
ALPHA_THOROUGH = ['a', '1', '_', ' ', '`', '\\', '"', "'", 'é', '\U0001f600', '\n', 'n', 'u', 'x']

_engine = None          # engine_accepts(identifier_text) -> (ok, decoded | reason)
_engine_info = None
_punct = None
_escape_probe = {}


def set_engine(fn, info=None, punctuation=None):
    """Plug a different engine-side acceptor (e.g. the compiled real lexer)."""
    global _engine, _engine_info, _punct
    _engine = fn
    _engine_info = info or {'engine': getattr(fn, '__qualname__', repr(fn))}
    if punctuation is not None:
        _punct = set(punctuation)
    _escape_probe.clear()


def _use_model_engine(why=None):
    from vf import enginelex

    m = enginelex.build_model(boot.repo())
    info = {'engine': 'vf.enginelex model (data extracted from the Scala sources; JavaTokenParsers.ident modelled)', **m.describe()}
    if why:
        info['real_lexer_not_used_because'] = why
    set_engine(m.accepts, info, m.punctuation)


def _ensure_engine():
    """Lazy default (used by ad-hoc callers): the extracted model.  check()/replay() install the JVM-backed
    acceptor first when it is available, see install_engine()."""
    global _punct
    if _engine is None:
        _use_model_engine()
    if _punct is None:
        from vf import enginelex

        _punct = enginelex.extract_lexer_facts(enginelex.parser_scala_path(boot.repo()).read_text(encoding='utf-8'))['punctuation']


SELFCHECK_TEXTS = ['`a b`', 'abc_1', '`a', 'a b', 'Struct', 'a', 'Dict', 'String', 'Locus', 'GRCh37', '`b c`', 'NDArray', 'Float64', 'c', 'Tuple']


def _probe_text(letter):
    return '`\\' + letter + {'x': '41', 'u': '0041', 'U': '00000041'}.get(letter, '') + '`'


def install_engine(identifier_texts):
    """Choose the engine-side acceptor for this run.  Default: the REAL IRLexer sliced from Parser.scala and run on
    a JVM (vf.jvm_engine_side.lexer_accepts) -- ONE JVM call answering every identifier text of the run, served from a
    table afterwards; a text that was not pre-lexed is a harness error.  Fallback (JVM/compiler/slice unavailable, or
    VERIF_C31_ENGINE=model): the extracted model in vf.enginelex.  The choice is recorded in the evidence."""
    import os

    from vf import enginelex

    want = os.environ.get('VERIF_C31_ENGINE', 'auto')
    if want == 'model':
        return _use_model_engine('VERIF_C31_ENGINE=model')
    texts = set(identifier_texts) | set(SELFCHECK_TEXTS)
    letters = set()
    for t in texts:
        if t.startswith('`'):
            i = 1
            while i < len(t) - 1:
                if t[i] == '\\':
                    letters.add(t[i + 1])
                    i += 2
                else:
                    i += 1
    texts |= {_probe_text(c) for c in letters}
    texts.discard('')
    texts = sorted(texts)
    try:
        from vf import jvm_engine_side

        answers = jvm_engine_side.lexer_accepts(texts)
    except Exception as ex:  # noqa: BLE001
        if want == 'jvm':
            raise
        return _use_model_engine(f'{type(ex).__name__}: {str(ex)[:300]}')
    if len(answers) != len(texts):
        raise RuntimeError('harness: jvm_engine_side.lexer_accepts returned a different number of answers')
    table = {t: (bool(a[0]), a[1]) for t, a in zip(texts, answers)}

    def jvm_accepts(text):
        try:
            return table[text]
        except KeyError:
            raise RuntimeError(f'harness: identifier text {text!r} was not in the batch sent to the JVM lexer') from None

    facts = enginelex.extract_lexer_facts(enginelex.parser_scala_path(boot.repo()).read_text(encoding='utf-8'))
    info = {'engine': 'REAL IRLexer (sliced from Parser.scala + StringEscapeUtils.scala, compiled and run on a JVM by vf.jvm_engine_side); '
                      'one JVM call for the whole run',
            'identifier_texts_lexed_on_jvm': len(texts),
            'type_string_splitting': 'python (backtick literal up to the first unescaped backtick, punctuation set extracted from Parser.scala); '
                                     'each piece is then judged by the real lexer; IRParser.type_expr is a python re-implementation'}
    try:
        m = enginelex.build_model(boot.repo())
        dis = [t for t in texts if (m.accepts(t)[0], m.accepts(t)[1] if m.accepts(t)[0] else None) != (table[t][0], table[t][1] if table[t][0] else None)]
        info['extracted_model_disagrees_on'] = dis[:10]
        info['extracted_model_agrees_on'] = len(texts) - len(dis)
    except Exception as ex:  # noqa: BLE001
        info['extracted_model'] = f'not built: {type(ex).__name__}: {str(ex)[:200]}'
    set_engine(jvm_accepts, info, facts['punctuation'])


def collect_name_texts(name):
    from hail.utils.java import escape_parsable
    from hail.utils.misc import escape_id

    out = set()
    for f in (escape_parsable, escape_id):
        try:
            out.add(f(name))
        except Exception:  # noqa: BLE001
            pass
    return out


def collect_type_texts(spec, punct):
    from vf import enginelex

    try:
        e = build(spec)._parsable_string()
    except Exception:  # noqa: BLE001
        return set()
    import re as _re

    return {v for k, v in enginelex.split_tokens(e, punct) if k == 'backtick' or (k == 'run' and not _re.fullmatch(r'-?\d+', v))}


def engine_accepts(identifier_text):
    _ensure_engine()
    return _engine(identifier_text)


# ---------------------------------------------------------------------------------------------
# specs <-> hail types

def _hl():
    from vf import hailenv

    return hailenv.install_dummy_context()


def _ensure_genome(hl, name):
    from hail.utils.java import Env

    refs = Env.backend()._references
    if name not in refs:
        if name == 'default':
            raise ValueError("'default' is hail's alias for the default genome, not a usable genome name")
        hl.ReferenceGenome(name, ['1', 'X'], {'1': 100, 'X': 50}, x_contigs=['X'])
    return refs[name]


def build(spec):
    hl = _hl()
    k = spec[0]
    if k in PRIMS:
        return getattr(hl, 't' + k)
    if k == 'locus':
        return hl.tlocus(_ensure_genome(hl, spec[1]))
    if k == 'array':
        return hl.tarray(build(spec[1]))
    if k == 'set':
        return hl.tset(build(spec[1]))
    if k == 'interval':
        return hl.tinterval(build(spec[1]))
    if k == 'ndarray':
        return hl.tndarray(build(spec[1]), spec[2])
    if k == 'dict':
        return hl.tdict(build(spec[1]), build(spec[2]))
    if k == 'tuple':
        return hl.ttuple(*[build(c) for c in spec[1]])
    if k == 'struct':
        return hl.tstruct(**{n: build(c) for n, c in spec[1]})
    raise ValueError(f'bad spec {spec!r}')


def spec_of(t):
    """Independent walk of a hail type (does not use hail's == / str)."""
    hl = _hl()
    for k in PRIMS:
        if t is getattr(hl, 't' + k) or type(t) is type(getattr(hl, 't' + k)):
            return (k,)
    if isinstance(t, hl.tlocus):
        return ('locus', t.reference_genome.name)
    if isinstance(t, hl.tarray):
        return ('array', spec_of(t.element_type))
    if isinstance(t, hl.tset):
        return ('set', spec_of(t.element_type))
    if isinstance(t, hl.tinterval):
        return ('interval', spec_of(t.point_type))
    if isinstance(t, hl.tndarray):
        return ('ndarray', spec_of(t.element_type), t.ndim)
    if isinstance(t, hl.tdict):
        return ('dict', spec_of(t.key_type), spec_of(t.value_type))
    if isinstance(t, hl.ttuple):
        return ('tuple', tuple(spec_of(c) for c in t.types))
    if isinstance(t, hl.tstruct):
        return ('struct', tuple((n, spec_of(c)) for n, c in zip(t.fields, t.types)))
    return ('other', type(t).__name__)


def depth(spec):
    k = spec[0]
    if k in PRIMS or k == 'locus':
        return 1
    if k in ('array', 'set', 'interval', 'ndarray'):
        return 1 + depth(spec[1])
    if k == 'dict':
        return 1 + max(depth(spec[1]), depth(spec[2]))
    if k == 'tuple':
        return 1 + max([depth(c) for c in spec[1]], default=0)
    return 1 + max([depth(c) for _, c in spec[1]], default=0)


def names_in(spec):
    k = spec[0]
    if k == 'locus':
        return [spec[1]]
    if k in PRIMS:
        return []
    if k in ('array', 'set', 'interval', 'ndarray'):
        return names_in(spec[1])
    if k == 'dict':
        return names_in(spec[1]) + names_in(spec[2])
    if k == 'tuple':
        return [n for c in spec[1] for n in names_in(c)]
    if k == 'struct':
        return [x for n, c in spec[1] for x in [n] + names_in(c)]
    return []


VCF_KINDS = {'array', 'set', 'int32', 'int64', 'float32', 'float64', 'str', 'bool', 'call', 'struct'}


def _in_vcf_language(spec):
    k = spec[0]
    if k not in VCF_KINDS:
        return False
    if k in ('array', 'set'):
        return _in_vcf_language(spec[1])
    if k == 'struct':
        return all(_in_vcf_language(c) for _, c in spec[1])
    return True


def _tuplify(x):
    return tuple(_tuplify(y) for y in x) if isinstance(x, list) else x


# ---------------------------------------------------------------------------------------------
# oracles

def _escape_accepted(letter):
    """Does the engine accept the single escape \\<letter> in a backtick identifier?  (probed, cached)"""
    if letter not in _escape_probe:
        _escape_probe[letter] = bool(engine_accepts(_probe_text(letter))[0])
    return _escape_probe[letter]


def _reject_signature(text):
    if not text.startswith('`'):
        return 'engine-lexer-rejects-bare-identifier'
    i = 1
    while i < len(text) - 1:
        if text[i] == '\\':
            if not _escape_accepted(text[i + 1]):
                return 'engine-lexer-rejects-\\' + text[i + 1] + '-escape'
            i += 2
        else:
            i += 1
    return 'engine-lexer-rejects-identifier'


def check_identifier(name, emitted, prefix=''):
    """E1 for one emitted identifier.  -> None | (signature, message)."""
    ok, res = engine_accepts(emitted)
    if not ok:
        return (prefix + _reject_signature(emitted),
                f'name {name!r} is emitted as {emitted!r}, which the engine lexer rejects: {res}')
    if res != name:
        return (prefix + 'engine-identifier-denotes-different-name',
                f'name {name!r} is emitted as {emitted!r}, which the engine lexer reads as {res!r}')
    return None


def check_name(name):
    """-> (violations [(sig, msg)], facts dict)."""
    from hail.utils.java import escape_parsable, unescape_parsable
    from hail.utils.misc import escape_id

    out = []
    e = escape_parsable(name)
    if e.startswith('`') and e.endswith('`') and len(e) >= 2:
        try:
            back = unescape_parsable(e[1:-1])
        except Exception as ex:  # noqa: BLE001
            back = f'<{type(ex).__name__}: {ex}>'
    else:
        back = e
    if back != name:
        out.append(('python-unescape-not-inverse-of-escape', f'unescape_parsable(escape_parsable({name!r})) == {back!r} (escaped form {e!r})'))
    v = check_identifier(name, e)
    if v:
        out.append(v)
    e2 = escape_id(name)
    v = check_identifier(name, e2, prefix='ir-identifier:')
    if v:
        out.append(v)
    return out, {'escaped': e != name, 'ir_escaped': e2 != name}


n_forms = [0]      # printed forms parsed back (per process; harvested by _Acc)


def printed_forms(t, s, all_printers):
    """Every public printer of a HailType other than str / _parsable_string: [(label, text)].
    pretty(): HailType.pretty(indent, increment) -> the _pretty overrides of ndarray/array/stream/set/dict/struct/tuple/locus/
    interval; pprint: types.py monkey-patches pprint.PrettyPrinter so that pprint.pformat(type) is t.pretty(indent_per_level);
    repr: "dtype('<str(t) with ' escaped as \\'>')" -- its argument, un-escaped, must be a parsable printed form (Python-evaluating
    the repr is NOT treated as an inverse: it is not documented as one and backslash escapes inside backticks do not survive it)."""
    import pprint

    forms = [('pretty', t.pretty())]
    r = repr(t)
    if r.startswith("dtype('") and r.endswith("')"):
        forms.append(('repr', r[len("dtype('"):-2].replace("\\'", "'")))
    else:
        forms.append(('repr', r))
    if all_printers:
        forms += [('pretty', t.pretty(3, 2)), ('pretty', t.pretty(0, 1)), ('pretty', t.pretty(indent=5, increment=0)),
                  ('pprint', pprint.pformat(t)), ('pprint', pprint.pformat(t, indent=2, width=20))]
    return forms


def _roundtrip_text(label, text, t, spec, s, out):
    from hail.utils.java import Env

    hl = _hl()
    shown = text if label == 'str' else f'{text!r} [{label} form of {s}]'
    try:
        p = hl.dtype(text)
    except Exception as ex:  # noqa: BLE001
        out.append((f'python-{label}-unparseable', f'hl.dtype({text!r}) raises {type(ex).__name__}: {str(ex).splitlines()[0][:160]}'
                    + ('' if label == 'str' else f'  [{label} form of {s}]'), text))
        return
    ps = spec_of(p)
    if ps != spec:
        out.append((f'python-{label}-roundtrip-changes-type', f'hl.dtype({text!r}) is {p!r}: shape/names {ps!r} != {spec!r}', text))
    elif not (p == t and t == p):
        out.append((f'python-{label}-roundtrip-unequal', f'hl.dtype({shown}) has the same shape and names but compares unequal to the original', text))
    else:
        refs = Env.backend()._references
        for lt in _loci(p):
            g = lt.reference_genome
            if refs.get(g.name) is not g:
                out.append((f'python-{label}-denotes-unregistered-genome', f'hl.dtype({shown}) references a genome object that is not the one registered as {g.name!r}', text))
                break


def check_type(spec, all_printers=True):
    """-> list of (sig, msg, example_text)."""
    from vf import enginelex

    _ensure_engine()
    hl = _hl()
    t = build(spec)
    if spec_of(t) != spec:
        raise RuntimeError(f'harness: spec_of(build(spec)) != spec for {spec!r}: {spec_of(t)!r}')
    out = []
    try:
        s = str(t)
        e = t._parsable_string()
    except Exception as ex:  # noqa: BLE001
        return [('python-printer-raises', f'printing the type {spec!r} raises {type(ex).__name__}: {ex}', repr(spec))]
    # P1: every printed form parses back to the same type
    forms = [('str', s)]
    try:
        forms += printed_forms(t, s, all_printers)
    except Exception as ex:  # noqa: BLE001
        out.append(('python-printer-raises', f'a printer of {s!r} raises {type(ex).__name__}: {ex}', s))
    n_forms[0] += len(forms)
    seen_text = set()
    for label, text in forms:
        if text in seen_text:
            continue
        seen_text.add(text)
        _roundtrip_text(label, text, t, spec, s, out)
    # E2
    toks, err = enginelex.lex_type_string(e, engine_accepts, _punct)
    if toks is None:
        reason, ident = err
        sig = _reject_signature(ident) if ident is not None else 'engine-lexer-rejects-type-string'
        out.append((sig, f'_parsable_string() of {s!r} is {e!r}; engine lexer: {reason}', e))
    else:
        try:
            tree = enginelex.parse_engine_type(toks)
        except enginelex.TypeParseError as ex:
            tree = None
            out.append(('engine-type-string-misparsed', f'_parsable_string() of {s!r} is {e!r}; engine type parser: {ex}', e))
        if tree is not None and tree != spec:
            if [n for n in names_in(tree)] != names_in(spec) and _shape(tree) == _shape(spec):
                out.append(('engine-identifier-denotes-different-name',
                            f'_parsable_string() of {s!r} is {e!r}; the engine reads names {names_in(tree)!r}, expected {names_in(spec)!r}', e))
            else:
                out.append(('engine-type-string-misparsed', f'_parsable_string() of {s!r} is {e!r}; the engine reads {tree!r}', e))
    # P2
    if _in_vcf_language(spec):
        from hail.expr.type_parsing import vcf_type_grammar, vcf_type_node_visitor

        try:
            q = vcf_type_node_visitor.visit(vcf_type_grammar.parse(e))
        except Exception as ex:  # noqa: BLE001
            q = None
            out.append(('python-vcf-form-unparseable', f'vcf_type_grammar cannot read {e!r}: {type(ex).__name__}: {str(ex).splitlines()[0][:160]}', e))
        if q is not None and (spec_of(q) != spec or not q == t):
            out.append(('python-vcf-form-roundtrip-changes-type', f'vcf_type_grammar reads {e!r} as {q!r}', e))
    return out


def _shape(spec):
    k = spec[0]
    if k == 'locus':
        return ('locus',)
    if k in PRIMS:
        return spec
    if k in ('array', 'set', 'interval'):
        return (k, _shape(spec[1]))
    if k == 'ndarray':
        return (k, _shape(spec[1]), spec[2])
    if k == 'dict':
        return (k, _shape(spec[1]), _shape(spec[2]))
    if k == 'tuple':
        return (k, tuple(_shape(c) for c in spec[1]))
    if k == 'struct':
        return (k, tuple(_shape(c) for _, c in spec[1]))
    return spec


# ---------------------------------------------------------------------------------------------
# enumeration

def name_space(tier):
    alpha = ALPHA_QUICK if tier == 'quick' else ALPHA_THOROUGH
    maxlen = 2 if tier == 'quick' else 3
    names = list(DESIGN_NAMES) + list(EXTRA_NAMES) + list(SPECIAL_NAMES)
    for n in range(0, maxlen + 1):
        for tup in itertools.product(alpha, repeat=n):
            names.append(''.join(tup))
    if tier != 'quick':
        names.extend(chr(c) for c in range(0, 0x250) if not 0xD800 <= c <= 0xDFFF)
    seen = set()
    out = []
    for n in names:
        if n not in seen and n != 'default':
            seen.add(n)
            out.append(n)
    out.sort(key=lambda n: (len(n), n))
    return out


def name_contexts(n):
    """Type contexts one name is put into (as field name and as genome name)."""
    i32 = ('int32',)
    st = ('struct', ((n, i32),))
    lo = ('locus', n)
    return [
        st,
        lo,
        ('array', ('struct', ((n, lo),))),
        ('dict', lo, ('struct', ((n, ('str',)),))),
        ('tuple', (st, lo)),
        ('interval', lo),
        ('struct', (('z' if n != 'z' else 'y', ('struct', ((n, ('set', lo)),))), (n, ('ndarray', ('float64',), 2)))),
    ]


def pair_contexts(n1, n2):
    return [('struct', ((n1, ('int32',)), (n2, ('locus', n1)))),
            ('struct', ((n1, ('array', ('struct', ((n2, ('str',)),)))), (n2, ('call',))))]


def leaves_of(prims, genomes):
    return [(p,) for p in prims] + [('locus', g) for g in genomes]


def apply_constructors(children_all, must, names):
    """All constructor applications whose children come from children_all and at least one child is in
    `must` (a set); must=None means no constraint."""
    def ok(*cs):
        return must is None or any(c in must for c in cs)

    for c in children_all:
        if ok(c):
            for k in ('array', 'set', 'interval'):
                yield (k, c)
            yield ('ndarray', c, 1)
            yield ('ndarray', c, 2)
            yield ('tuple', (c,))
            for n in names:
                yield ('struct', ((n, c),))
    for a in children_all:
        for b in children_all:
            if ok(a, b):
                yield ('dict', a, b)
                yield ('tuple', (a, b))
                for n1, n2 in itertools.permutations(names, 2):
                    yield ('struct', ((n1, a), (n2, b)))


def types_to_depth2(leaves, names):
    out = list(leaves)
    out.append(('tuple', ()))
    out.append(('struct', ()))
    out.extend(apply_constructors(leaves, None, names))
    return out


STRUCTURE_CONFIGS = {
    # name: (prims, genomes, field names, max depth)
    'quick': [
        ('d2-full', PRIMS, ['GRCh37', 'a b', '`'], ['a', 'a b', '`'], 2),
        ('d3-thin', ('int32', 'str'), ['GRCh37', 'a b'], ['a', 'a b'], 3),
    ],
    'thorough': [
        ('d2-full', PRIMS, ['GRCh37', 'a b', '`', '1a', ''], ['a', 'a b', '`', '1a', '', 'tstruct'], 2),
        ('d3', ('int32', 'float64', 'str', 'bool', 'call', 'int64'), ['GRCh37', 'a b'], ['a', 'a b'], 3),
        ('d3-names3', ('int32', 'str'), ['1a'], ['a', '`', '1a'], 3),
    ],
}


def _d3_items(cfg_index, d2_count):
    """Depth-3 work is cut by the index of the first child (the worker loops over the rest)."""
    return [('d3', cfg_index, i) for i in range(d2_count)]


_d2_cache = {}


def _d2_of(cfg):
    if cfg[0] not in _d2_cache:
        d2 = types_to_depth2(leaves_of(cfg[1], cfg[2]), cfg[3])
        _d2_cache[cfg[0]] = (d2, {s for s in d2 if depth(s) == 2})
    return _d2_cache[cfg[0]]


def _d3_specs(cfg, i):
    names = cfg[3]
    d2, exact2 = _d2_of(cfg)
    a = d2[i]
    if a in exact2:
        for k in ('array', 'set', 'interval'):
            yield (k, a)
        yield ('ndarray', a, 1)
        yield ('ndarray', a, 2)
        yield ('tuple', (a,))
        for n in names:
            yield ('struct', ((n, a),))
    for b in d2:
        if a in exact2 or b in exact2:
            yield ('dict', a, b)
            yield ('tuple', (a, b))
            for n1, n2 in itertools.permutations(names, 2):
                yield ('struct', ((n1, a), (n2, b)))


def work_items(tier):
    items = []
    names = name_space(tier)
    chunk = 8 if tier == 'quick' else 32
    for i in range(0, len(names), chunk):
        items.append(('names', names[i:i + chunk]))
    base = list(dict.fromkeys(DESIGN_NAMES + EXTRA_NAMES + [chr(c) for c in SPECIAL_CODEPOINTS[:4]] + [chr(0xFEFF) + 'a']))
    pairs = [(a, b) for a in base for b in base if a != b]
    for i in range(0, len(pairs), 64):
        items.append(('pairs', pairs[i:i + 64]))
    for ci, cfg in enumerate(STRUCTURE_CONFIGS[tier]):
        _, prims, genomes, fnames, maxd = cfg
        d2 = types_to_depth2(leaves_of(prims, genomes), fnames)
        for i in range(0, len(d2), 256):
            items.append(('d2', ci, i, min(len(d2), i + 256)))
        if maxd >= 3:
            items.extend(_d3_items(ci, len(d2)))
    return items


class _Acc:
    def __init__(self):
        self.types = 0
        self.names = 0
        self.idents = 0
        self.nontrivial = 0
        self.escaped_names = 0
        self.bare_names = 0
        self.by_depth = {}
        self.viol = {}      # sig -> [count, key, message, replay]
        self.samples = []

    def add_violation(self, sig, msg, text, replay):
        key = (len(text), text)
        cur = self.viol.get(sig)
        if cur is None:
            self.viol[sig] = [1, key, msg, replay]
        else:
            cur[0] += 1
            if key < cur[1]:
                cur[1], cur[2], cur[3] = key, msg, replay

    def do_type(self, spec, all_printers=True):
        self.types += 1
        d = depth(spec)
        self.by_depth[d] = self.by_depth.get(d, 0) + 1
        if d >= 2 or spec[0] == 'locus':
            self.nontrivial += 1
        for sig, msg, text in check_type(spec, all_printers):
            self.add_violation(sig, msg, text, {'kind': 'type', 'spec': spec})
        if len(self.samples) < 2 and d >= 2:
            t = build(spec)
            self.samples.append({'type': str(t), 'engine_form': t._parsable_string()})

    def do_name(self, n):
        self.names += 1
        vs, facts = check_name(n)
        self.idents += 2
        if facts['escaped']:
            self.escaped_names += 1
        else:
            self.bare_names += 1
        for sig, msg in vs:
            self.add_violation(sig, msg, n, {'kind': 'name', 'name': n})

    def result(self):
        return (self.types, self.names, self.idents, self.nontrivial, self.escaped_names, self.bare_names,
                self.by_depth, self.viol, self.samples)


def _item_cases(item):
    kind = item[0]
    if kind == 'names':
        for n in item[1]:
            yield ('name', n)
            for spec in name_contexts(n):
                yield ('type', spec)
    elif kind == 'pairs':
        for a, b in item[1]:
            for spec in pair_contexts(a, b):
                yield ('type', spec)
    elif kind == 'd2':
        _, ci, lo, hi = item
        cfg = STRUCTURE_CONFIGS[_TIER[0]][ci]
        d2 = types_to_depth2(leaves_of(cfg[1], cfg[2]), cfg[3])
        for spec in d2[lo:hi]:
            yield ('type', spec)
    elif kind == 'd3':
        _, ci, i = item
        cfg = STRUCTURE_CONFIGS[_TIER[0]][ci]
        for spec in _d3_specs(cfg, i):
            yield ('type', spec)
    else:
        raise ValueError(item)


def _run_item(item):
    acc = _Acc()
    n_forms[0] = 0
    full = item[0] != 'd3'       # the big depth-3 layers use str + pretty() + repr; every other layer uses every printer
    for k, x in _item_cases(item):
        if k == 'name':
            acc.do_name(x)
        else:
            acc.do_type(x, full)
    return acc.result() + (n_forms[0],)


def _collect_item(item):
    """Pass 1 (only when the JVM lexer is used): every identifier text this item will hand to the engine."""
    out = set()
    for k, x in _item_cases(item):
        out |= collect_name_texts(x) if k == 'name' else collect_type_texts(x, _COLLECT_PUNCT[0])
    return out


_COLLECT_PUNCT = [None]


# ---------------------------------------------------------------------------------------------
# multi-step phase: a genome NAME is re-bound to a different genome; every type obtained from a string afterwards must
# denote the genome that is registered under that name NOW.

GENOME_CONFIGS = [  # (contigs, lengths, x, y, mt)
    (['1', '2'], {'1': 100, '2': 50}, [], [], []),
    (['1', '2', 'MT'], {'1': 100, '2': 50, 'MT': 16}, [], [], ['MT']),
    (['1', 'X'], {'1': 70, 'X': 40}, ['X'], [], []),
    (['chr1', 'chr2', 'chrY'], {'chr1': 9, 'chr2': 8, 'chrY': 7}, [], ['chrY'], []),
]
REBIND_WAYS = ['initial registration', 'backend.remove_reference + new ReferenceGenome', 'new ReferenceGenome under the same name (overwrite)',
               'fresh context (new session) + new ReferenceGenome']


def locus_shapes(n):
    lo = ('locus', n)
    i32 = ('int32',)
    o = 'z' if n != 'z' else 'y'      # a field name different from n
    return [lo, ('interval', lo), ('array', lo), ('set', lo), ('dict', lo, i32), ('dict', ('str',), lo), ('tuple', (lo,)),
            ('tuple', (i32, lo)), ('struct', ((o, lo),)), ('struct', ((n, lo),)), ('struct', ((o, i32), (n, lo)))]


def _loci(t):
    hl = _hl()
    if isinstance(t, hl.tlocus):
        yield t
    elif isinstance(t, (hl.tarray, hl.tset)):
        yield from _loci(t.element_type)
    elif isinstance(t, hl.tinterval):
        yield from _loci(t.point_type)
    elif isinstance(t, hl.tndarray):
        yield from _loci(t.element_type)
    elif isinstance(t, hl.tdict):
        yield from _loci(t.key_type)
        yield from _loci(t.value_type)
    elif isinstance(t, (hl.ttuple, hl.tstruct)):
        for c in t.types:
            yield from _loci(c)


def _genome_facts(rg):
    return (rg.name, tuple(rg.contigs), tuple(sorted(rg.lengths.items())), tuple(rg.x_contigs), tuple(rg.y_contigs), tuple(rg.mt_contigs))


def _build_over(spec, rg):
    """hail type for a locus-shape spec, over the given genome OBJECT (not looked up by name)."""
    hl = _hl()
    k = spec[0]
    if k in PRIMS:
        return getattr(hl, 't' + k)
    if k == 'locus':
        return hl.tlocus(rg)
    if k in ('array', 'set', 'interval'):
        return {'array': hl.tarray, 'set': hl.tset, 'interval': hl.tinterval}[k](_build_over(spec[1], rg))
    if k == 'dict':
        return hl.tdict(_build_over(spec[1], rg), _build_over(spec[2], rg))
    if k == 'tuple':
        return hl.ttuple(*[_build_over(c, rg) for c in spec[1]])
    if k == 'struct':
        return hl.tstruct(**{n: _build_over(c, rg) for n, c in spec[1]})
    raise ValueError(spec)


def _rebind_checks(name, rg, step, shapes_idx=None):
    """All string->type paths for every locus shape over `name`, whose current binding is the object `rg`.
    -> (n_parses, [(sig, msg, shape_index)])."""
    from hail.utils.java import Env

    hl = _hl()
    out = []
    parses = 0
    want = _genome_facts(rg)
    if Env.backend()._references.get(name) is not rg:
        raise RuntimeError(f'harness: {name!r} is not bound to the genome just registered')
    for si, spec in enumerate(locus_shapes(name)):
        if shapes_idx is not None and si not in shapes_idx:
            continue
        t = _build_over(spec, rg)
        s = str(t)
        paths = [('hl.dtype(s)', lambda: hl.dtype(s)),
                 ('hl.dtype(t.pretty())', lambda: hl.dtype(t.pretty())),
                 ('hl.missing(s).dtype', lambda: hl.missing(s).dtype),
                 ('hl.literal(None, dtype=s).dtype', lambda: hl.literal(None, dtype=s).dtype),
                 ('hl.tarray(s).element_type', lambda: hl.tarray(s).element_type)]
        for pi, (pname, f) in enumerate(paths):
            parses += 1
            try:
                p = f()
            except Exception as ex:  # noqa: BLE001
                out.append(('rebind:string-type-unparseable', f'after {REBIND_WAYS[step]} of genome {name!r}: {pname} with s={s!r} raises '
                            f'{type(ex).__name__}: {str(ex).splitlines()[0][:160]}', si))
                continue
            stale = None
            for lt in _loci(p):
                g = lt.reference_genome
                if g is not rg or _genome_facts(g) != want:
                    stale = g
                    break
                if Env.backend()._references.get(g.name) is not g:
                    stale = g
                    break
            if stale is not None:
                sig = 'rebind:parsed-type-denotes-stale-genome' if pi == 0 else 'rebind:implicit-string-type-denotes-stale-genome'
                out.append((sig, f'after {REBIND_WAYS[step]} of genome {name!r} (now contigs {list(rg.contigs)}): {pname} with s={s!r} gives a type over '
                            f'a genome with contigs {list(stale.contigs)} that is no longer registered under that name', si))
            elif pi == 0 and not (p == t and t == p and spec_of(p) == spec):
                out.append(('rebind:roundtrip-unequal', f'after {REBIND_WAYS[step]} of genome {name!r}: hl.dtype({s!r}) != the type it was printed from', si))
    return parses, out


def _make_genome(name, k):
    hl = _hl()
    contigs, lengths, x, y, mt = GENOME_CONFIGS[k]
    return hl.ReferenceGenome(name, list(contigs), dict(lengths), x_contigs=list(x), y_contigs=list(y), mt_contigs=list(mt))


def run_rebind_chain(names, shapes_idx=None):
    """State 0: every name bound to configuration 0; then the three re-binding ways in turn, each followed by all checks
    for all names.  hail's own caches are never cleared by the harness.  -> (cases, parses, per_step_cases, viol)."""
    from hail.utils.java import Env

    from vf import hailenv

    viol = {}
    cases = 0
    parses = 0
    per_step = [0] * len(REBIND_WAYS)
    for step in range(len(REBIND_WAYS)):
        if step == 3:
            hailenv.install_dummy_context(fresh=True)
        bound = {}
        for n in names:
            if step == 1:
                Env.backend().remove_reference(n)
            bound[n] = _make_genome(n, step)
        for n in names:
            np_, vs = _rebind_checks(n, bound[n], step, shapes_idx)
            parses += np_
            cases += 1
            per_step[step] += 1
            for sig, msg, si in vs:
                key = (len(n), n, si, step)
                cur = viol.get(sig)
                rep = {'kind': 'rebind', 'name': n, 'shape': si}
                if cur is None:
                    viol[sig] = [1, key, msg, rep]
                else:
                    cur[0] += 1
                    if key < cur[1]:
                        cur[1], cur[2], cur[3] = key, msg, rep
    return cases, parses, per_step, viol


def _run_rebind_item(names):
    return run_rebind_chain(names)


_TIER = ['quick']


def _selfcheck():
    """The harness's own pieces must agree with each other on a plain case before any verdict."""
    from vf import enginelex

    ok, v = engine_accepts('`a b`')
    if not ok or v != 'a b':
        raise RuntimeError(f'engine acceptor rejects the plain identifier `a b`: {v}')
    ok, v = engine_accepts('abc_1')
    if not ok or v != 'abc_1':
        raise RuntimeError(f'engine acceptor rejects the plain identifier abc_1: {v}')
    if engine_accepts('`a')[0] or engine_accepts('a b')[0]:
        raise RuntimeError('engine acceptor accepts an unterminated literal / two tokens as one identifier')
    spec = ('struct', (('a', ('dict', ('str',), ('locus', 'GRCh37'))), ('b c', ('ndarray', ('float64',), 2)), ('c', ('tuple', ()))))
    text = 'Struct{a:Dict[String,Locus(GRCh37)],`b c`:NDArray[Float64,2],c:Tuple[]}'   # hand-written engine form
    toks, err = enginelex.lex_type_string(text, engine_accepts, _punct)
    if toks is None or enginelex.parse_engine_type(toks) != spec:
        raise RuntimeError(f'engine type-string reader disagrees on a hand-written type: {text!r} -> {err or toks}')
    if spec_of(build(spec)) != spec:
        raise RuntimeError('spec_of(build(spec)) != spec')


def check(tier, seed, procs):
    import os

    from vf import enginelex

    _TIER[0] = tier
    hl = _hl()
    # register every genome name once, before forking, so all workers share the same references
    for n in name_space(tier):
        _ensure_genome(hl, n)
    for cfg in STRUCTURE_CONFIGS[tier]:
        for g in cfg[2]:
            _ensure_genome(hl, g)
    items = par.rotate(work_items(tier), seed)
    if os.environ.get('VERIF_C31_ENGINE', 'auto') == 'model':
        install_engine(())
    else:
        _COLLECT_PUNCT[0] = enginelex.extract_lexer_facts(
            enginelex.parser_scala_path(boot.repo()).read_text(encoding='utf-8'))['punctuation']
        texts = set()
        for part in par.pmap(_collect_item, items, procs, chunksize=1):
            texts |= part
        install_engine(texts)
    _selfcheck()
    rows = par.pmap(_run_item, items, procs, chunksize=1)
    types = sum(r[0] for r in rows)
    names = sum(r[1] for r in rows)
    idents = sum(r[2] for r in rows)
    nontrivial = sum(r[3] for r in rows)
    escaped = sum(r[4] for r in rows)
    bare = sum(r[5] for r in rows)
    forms_parsed = sum(r[9] for r in rows)
    by_depth = {}
    merged = {}
    samples = []
    for r in rows:
        for d, c in r[6].items():
            by_depth[d] = by_depth.get(d, 0) + c
        for sig, (cnt, key, msg, rep) in r[7].items():
            cur = merged.get(sig)
            if cur is None:
                merged[sig] = [cnt, tuple(key), msg, rep]
            else:
                cur[0] += cnt
                if tuple(key) < cur[1]:
                    cur[1], cur[2], cur[3] = tuple(key), msg, rep
    for it, r in sorted(zip(items, rows), key=lambda p: repr(p[0]))[:400]:
        for s in r[8]:
            if len(samples) < 4:
                samples.append(s)
    # multi-step phase (after the single-state enumeration; forked workers start from the parent's registry and caches)
    rb_names = [n for n in name_space(tier)]
    step_ = 10 if tier == 'quick' else 64
    rb_items = par.rotate([rb_names[i:i + step_] for i in range(0, len(rb_names), step_)], seed)
    rb_rows = par.pmap(_run_rebind_item, rb_items, procs, chunksize=1)
    rb_cases = sum(r[0] for r in rb_rows)
    rb_parses = sum(r[1] for r in rb_rows)
    rb_steps = [sum(r[2][i] for r in rb_rows) for i in range(len(REBIND_WAYS))]
    for r in rb_rows:
        for sig, (cnt, key, msg, rep) in r[3].items():
            cur = merged.get(sig)
            if cur is None:
                merged[sig] = [cnt, tuple(key), msg, rep]
            else:
                cur[0] += cnt
                if tuple(key) < cur[1]:
                    cur[1], cur[2], cur[3] = tuple(key), msg, rep
    violations = [{'signature': sig, 'message': f'{msg}  [{cnt} enumerated cases in this class]', 'replay': rep}
                  for sig, (cnt, key, msg, rep) in sorted(merged.items())]
    cfgs = STRUCTURE_CONFIGS[tier]
    cov = {
        'evaluations': types + names + rb_parses,
        'distinct_nontrivial': nontrivial,
        'rule': 'distinct enumerated types that are not a bare primitive (depth >= 2, or a locus with a genome name); '
                'every one is printed, re-parsed by hl.dtype and read by the engine-side tokeniser/type grammar',
        'samples': samples,
        'exhaustive': True,
        'bounds': {
            'names': f'{names} names: DESIGN.md list + extras + every string of length <= {2 if tier == "quick" else 3} over '
                     f'{ALPHA_QUICK if tier == "quick" else ALPHA_THOROUGH}' + ('' if tier == 'quick' else ' + every single character U+0000..U+024F')
                     + ' + special code points FEFF FFFE FFFF 2028 2029 00AD 200B D7FF E000 FFFD 10000 10FFFF 0085 each alone / first / middle / last'
                     + '; each as field name and genome name in 7 type contexts; every ordered pair of the listed names as a 2-field struct (2 contexts)',
            'structure': [{'config': c[0], 'prims': list(c[1]), 'genomes': c[2], 'field_names': c[3], 'max_depth': c[4],
                           'constructors': 'array set interval ndarray(1,2) dict tuple(0..2) struct(0..2 distinct names)'} for c in cfgs],
        },
        'rebind_phase': {
            'what': 'every name of the name space as a genome name; 11 type shapes mentioning locus<NAME> (depth <= 2); 4 registry states per name: '
                    + ' -> '.join(REBIND_WAYS) + '; after each state 5 string->type paths (hl.dtype of str and of pretty(), hl.missing(str), hl.literal(None, dtype=str), '
                    'hl.tarray(str)) must give a type over the genome OBJECT currently registered under the name (identity + contigs/lengths), and no '
                    'referenced genome may be unregistered; hail caches are never cleared by the harness',
            'name_x_state_cases': rb_cases,
            'string_to_type_resolutions_checked': rb_parses,
            'cases_per_state': dict(zip(REBIND_WAYS, rb_steps)),
        },
        'printed_forms_round_tripped': forms_parsed,
        'printers': 'str, pretty(), repr argument on every type; additionally pretty(3,2), pretty(0,1), pretty(5,0), pprint.pformat(t), '
                    'pprint.pformat(t, indent=2, width=20) on every type of the name / pair / depth<=2 layers; _parsable_string() goes to the engine side',
        'types_checked': types,
        'types_by_depth': {str(k): v for k, v in sorted(by_depth.items())},
        'names_checked': names,
        'identifiers_given_to_engine_acceptor': idents,
        'names_needing_escape': escaped,
        'names_emitted_bare': bare,
        'violation_classes': {sig: v[0] for sig, v in sorted(merged.items())},
        'engine_side': _engine_info,
    }
    vac = None
    if escaped < 5 or bare < 2 or by_depth.get(2, 0) < 100 or by_depth.get(3, 0) < 100 or min(rb_steps) < 10:
        vac = f'too little explored: {escaped=} {bare=} {by_depth=}'
    return {
        'coverage': cov,
        'violations': violations,
        'assumptions': [
            'front end runs over vf shims: parsimonious (functional PEG stand-in with the real node shapes, stdlib re instead of the regex package), '
            'IPython (get_ipython() -> None); pandas/pyspark/py4j/plotly/bokeh are inert stubs; Env._hc is a real HailContext over vf.hailenv.DummyBackend',
            'engine side: see coverage.engine_side.engine for which acceptor judged identifiers in this run -- by default the REAL IRLexer sliced '
            'from Parser.scala and run on a JVM (one batched call); fallback is the vf.enginelex model whose escape set / delimiter / punctuation / '
            'unescape table are extracted from the current Scala sources (shape change -> harness error) and whose JavaTokenParsers.ident is modelled. '
            'In both cases a whole type string is cut into pieces in python and IRParser.type_expr is re-implemented for the enumerated constructors',
            'hl.dtype cannot read the engine-facing form (it is a different concrete syntax); the engine-facing form is judged by the engine-side reader, '
            'and by vcf_type_grammar on the sub-language that grammar covers',
            "the genome name 'default' is excluded (hail reserves it as an alias)",
            'tuple/struct/dict arity <= 2; lone surrogates are not names',
        ],
        'vacuous': vac,
    }


def replay(obj):
    from vf import enginelex

    _hl()
    punct = enginelex.extract_lexer_facts(enginelex.parser_scala_path(boot.repo()).read_text(encoding='utf-8'))['punctuation']
    if obj['kind'] == 'name':
        install_engine(collect_name_texts(obj['name']))
        vs, _ = check_name(obj['name'])
        return (not vs), ('; '.join(f'{s}: {m}' for s, m in vs) or 'no violation')
    if obj['kind'] == 'rebind':
        _, _, _, viol = run_rebind_chain([obj['name']], {obj['shape']})
        return (not viol), ('; '.join(f'{sg}: {v[2]}' for sg, v in sorted(viol.items())) or 'no violation')
    spec = _tuplify(obj['spec'])
    install_engine(collect_type_texts(spec, punct))
    vs = check_type(spec)
    return (not vs), ('; '.join(f'{s}: {m}' for s, m, _ in vs) or 'no violation')
