"""C41  Uncommitted updates have no effect on a batch.

Same state space as C01 (vf/batchfamily.py) with the second update committed late or never.
(i)  every state: jobs of uncommitted updates stay Pending, never get attempts (the real scheduler sweep is a
     transition), and the C01 / C06 recomputations restricted to committed updates hold;
(ii) differential: a SHADOW world receives exactly the same history minus the requests of the uncommitted update;
     while the update is uncommitted the main database restricted to everything that does not belong to that
     update must be identical to the shadow database ("exactly as if it had not been started").
"""
from vf import batchfamily as bf
from vf import batchops as ops
from vf import dbmc
from vf.props import c01 as base

NEEDS_SERVICES = True
PID = 'C41'
MONITORS = tuple('C41,C01,C06'.split(','))
U = 2  # the update whose requests the shadow world never sees
# quick tier: the environment events that do not touch update handling (token-shard flips, cleanup sweeps, duplicate / stale
# worker reports, late schedule calls, preemption) are left to C01/C04/C06, which run them on the same family; this buys depth
QUICK_OPTS = {'token_flip': False, 'no_sweeps': True, 'dup_reports': False, 'stale_attempt': False, 'late_schedule': False, 'preempt': False}


class PairWorld(ops.BatchWorld):
    def __init__(self, *a, **k):
        super().__init__(*a, **k)
        self.shadow = ops.BatchWorld(*a, **k)
        self.shadow_on = False

    def snapshot(self):
        return (super().snapshot(), self.shadow.snapshot(), self.shadow_on)

    def restore(self, snap):
        super().restore(snap[0])
        self.shadow.restore(snap[1])
        self.shadow_on = snap[2]


def restricted(w, without_update=None):
    d = w.mdb.store.dump(drop=bf.DROP)
    d.pop('batch_bunches', None)
    if without_update is None:
        return d
    T = w.table
    jobs_u = {j['job_id'] for j in T('jobs') if j['update_id'] == without_update}
    groups_u = {g['job_group_id'] for g in T('job_groups') if g['update_id'] == without_update}
    out = {}
    for name in d:
        rows = []
        for r in T(name):
            if name in ('jobs', 'job_parents', 'job_attributes', 'jobs_telemetry', 'attempts', 'attempt_resources', 'aggregated_job_resources_v3') \
                    and r.get('job_id') in jobs_u:
                continue
            if name == 'batch_updates' and r['update_id'] == without_update:
                continue
            if name in ('job_groups_inst_coll_staging', 'job_group_inst_coll_cancellable_resources') and r['update_id'] == without_update:
                continue
            if name in ('job_groups', 'job_group_self_and_ancestors', 'job_group_attributes', 'job_groups_n_jobs_in_complete_states',
                        'job_groups_cancelled', 'aggregated_job_group_resources_v3') and r.get('job_group_id') in groups_u:
                continue
            rows.append(r)
        cols = [c.name for c in w.mdb.store.tables[name].cols if c.name not in bf.DROP]
        rr = sorted((tuple(str(r[c]) if r[c] is not None else None for c in cols) for r in rows), key=repr)
        if rr:
            out[name] = rr
    return out


class H(bf.Family):
    def make_world(self):
        return PairWorld(instances=(('i1', 'standard', 'active'), ('i2', 'standard', 'active')))

    def initial(self, w):
        res = []
        for name, u1, u2, pre in self.setups:
            def setup(w, u1=u1, u2=u2, pre=pre):
                for ww in (w, w.shadow):
                    ops.apply(ww, ('new_batch', 'u1', 't1', 0, 0))
                    for l in bf.SCRIPTS[u1]:
                        self._do(ww, l)
                opens = any(l[0] == 'new_update' for l in pre)  # such setups are not compared (later updates get different ids)
                for l in pre:
                    for ww in ((w,) if opens else (w, w.shadow)):
                        self._do(ww, l)
                w.script, w.pos = u2, 0
                w.shadow.script, w.shadow.pos = None, 0
                w.shadow_on = not opens and bool(bf.SCRIPTS[u2])

            res.append(([('setup', name)], setup))
        return res

    def apply(self, w, label):
        obs = super().apply(w, label)
        if w.shadow_on:
            if label[0] == 'client':
                req = bf.SCRIPTS[w.script][label[1]]
                if req[0] in ('commit', 'commit_tail') and obs.get('status') == 200:
                    w.shadow_on = False   # committed: from now on the update is supposed to have effects
            else:
                w.shadow.token = w.token
                ops.apply(w.shadow, label)
        return obs

    def pre_view(self, w):
        super().pre_view(w)
        v = bf.View(w)
        return {g['job_group_id'] for g in v.groups if g['update_id'] not in v.committed and g['job_group_id'] != 0}

    def check_transition(self, w, pre, label, obs):
        out = super().check_transition(w, None, label, obs)
        if label[0] == 'cancel' and label[1] in (pre or ()):
            # a job group of an uncommitted update does not exist for the rest of the world: cancelling it must be refused
            if obs.get('http') != 404:
                out.append(('cancel-accepted-for-group-of-uncommitted-update',
                            f'cancel of job group {label[1]} (created by an update that is not committed) answered {obs} instead of 404'))
        return out

    def check_state(self, w):
        out = super().check_state(w)
        if w.shadow_on:
            a, b = restricted(w, U), restricted(w.shadow, U)
            if a != b:
                diff = {t: (a.get(t), b.get(t)) for t in set(a) | set(b) if a.get(t) != b.get(t)}
                t = sorted(diff)[0]
                out.append((f'uncommitted-update-changed:{t}',
                            f'with update {U} submitted but uncommitted, table {t} (restricted to everything not belonging to that update) '
                            f'differs from the same history without the update: {diff[t][0]} vs {diff[t][1]}'))
        return out

    def canon(self, w):
        return super().canon(w) + repr(w.shadow_on) + (repr(sorted(restricted(w.shadow).items())) if w.shadow_on else '')


def check(tier, seed, procs):
    # additional phase: statement-level interleavings of pairs of these operations under a row-lock model (vf/txpairs.py);
    # run first (its forked workers then copy a small heap), merged into the result at the end; it never raises
    from vf import txpairs

    phase = txpairs.run_phase(tier, procs, MONITORS)
    depth = 6 if tier == 'quick' else 8
    res = dbmc.bfs(H, (sorted(MONITORS), base.setups(tier), tier, QUICK_OPTS if tier == 'quick' else None), depth=depth, procs=procs,
                   time_budget=70 if tier == 'quick' else 900)
    cov = bf.coverage(res, f'1 batch, update 1 committed (2-3 jobs, 1-2 nested groups), update 2 submitted step by step '
                           f'(1-2 jobs, 0-1 groups, 1-2 bunches) and committed late or never, one setup with two open updates, 2 pool instances, '
                           f'depth {depth}{" (quick: without token flips, cleanup sweeps, duplicate/stale reports, late schedule calls, preemption)" if tier == "quick" else ""}; monitors {MONITORS} + shadow-world differential')
    out = {'coverage': cov, 'violations': res.violations, 'assumptions': bf.ASSUME + [
        'differential clause: compared only while no other update was opened after the uncommitted one (later updates would get different ids)'],
           'vacuous': None if res.states > 100 else f'only {res.states} states'}
    return txpairs.merge_into(out, phase)


def replay(obj):
    if 'txpair' in obj:
        from vf import txpairs

        return txpairs.replay(obj)
    v = dbmc.replay_history(H, (sorted(MONITORS), base.setups('thorough'), 'thorough', None), obj['history'])  # superset alphabet
    return (not v), (v[0][1] if v else 'no violation')
