"""C02  Billing aggregates equal the sum of attempt usage.

BFS over histories of attempts, resource registrations (before or after start, with a pair of resources
sharing a de-duplicated id), billing heartbeats, started / complete reports incl. late and repeated
ones, unscheduling, instance deactivation, table compaction, billing-date and token-shard changes.
In every state the usage recorded per job, per job group (own + descendant jobs), per
(billing project, user) and summed over billing days equals  sum over attempts of quantity x billed
duration, recomputed independently from attempts and attempt_resources.
"""
from collections import defaultdict

from vf import batchfamily as bf
from vf import batchops as ops
from vf import dbmc

NEEDS_SERVICES = True
J, G = ops.job_spec, bf.G
T = (10, 20, 30)
RS1 = (('r/a/1', 2), ('r/a/2', 3))   # two resources with the same deduped id
RS2 = (('r/a/1', 2), ('r/b/1', 5))
# the same resource names with other quantities: a job-private attempt is first registered with the whole instance's resources
# (mark_job_creating) and later, under the same names, with the job's own (job started / complete)
RS1_ALT = (('r/a/1', 7), ('r/a/2', 3))
RS2_ALT = (('r/a/1', 2), ('r/b/1', 1))


def billed(a):
    if a['rollup_time'] is None or a['start_time'] is None:
        return 0
    return max(a['rollup_time'] - a['start_time'], 0)


class H(dbmc.Harness):
    def __init__(self, tier):
        self.tier = tier

    def make_world(self):
        return ops.BatchWorld(instances=(('i1', 'standard', 'active'),))

    def initial(self, w):
        def setup(w):
            ops.apply(w, ('new_batch', 'u1', 't1', 2, 1))
            ops.apply(w, ('new_update', 'u1', 't1', 2, 1))
            ops.apply(w, ('add_groups', 'u1', 1, [G(1, parent_abs=0)]))
            ops.apply(w, ('add_jobs', 'u1', 1, [J(1, abs_group=0), J(2, group=1)]))
            ops.apply(w, ('commit_tail', 'u1', 1))

        return [([('setup',)], setup)]

    def enabled(self, w):
        out = []
        st = w.icm.instances['i1'].state
        atts = {(a['job_id'], a['attempt_id']): a for a in w.table('attempts')}
        have_rs = {(r['job_id'], r['attempt_id']) for r in w.table('attempt_resources')}
        cand = [(1, 'a1'), (2, 'b1'), (1, 'a2')]
        for j, a in cand:
            rs = RS1 if j == 1 else RS2
            if a == 'a2' and self.tier == 'quick':
                # quick: the second attempt of job 1 only ever sends its completion report (the report of an attempt that is not,
                # or no longer, the job's current one)
                if st == 'active':
                    out.append(('complete', j, a, 'i1', 'Success', 10, 30, rs))
                continue
            if st == 'active':
                if (j, a) not in atts:
                    out.append(('schedule', j, a, 'i1'))
                for t in T[:2]:
                    out.append(('started_rs', j, a, 'i1', t, rs))
                if (j, a) in atts:
                    for t in T:
                        out.append(('heartbeat', 'i1', ((j, a),), t))
                out.append(('complete', j, a, 'i1', 'Success', 10, 30, rs))
                out.append(('complete', j, a, 'i1', 'Success', 20, 20, rs))
            if (j, a) in atts and (j, a) not in have_rs:
                out.append(('resources', j, a, rs))
            if (j, a) in atts and (j == 1 or self.tier != 'quick'):
                out.append(('resources', j, a, RS1_ALT if j == 1 else RS2_ALT))   # before or after the other registration, before or after usage was billed
            if (j, a) in atts:
                out.append(('unschedule_at', j, a, 'i1', 20))
        if st == 'active':
            out.append(('deactivate', 'i1', 'preempted', 20))
            out.append(('deactivate', 'i1', 'preempted', 30))
        out.append(('compact',))
        out.append(('compact_by_date',))
        if w.token == 0:
            out.append(('token', 1))
        if str(w.date) == '2024-01-01':
            out.append(('date', '2024-01-02'))
        return out

    def apply(self, w, label):
        if label[0] == 'unschedule_at':
            w.now_ms = label[4]
            return ops.apply(w, ('unschedule',) + tuple(label[1:4]))
        obs = ops.apply(w, label)
        # ledger of what the workers / the driver reported (independent of the attempt_resources table): a report that carries
        # resources for an attempt and is handled without error must leave them registered - otherwise that usage is never billed
        rs = {'started_rs': lambda l: (l[1], l[2], l[5]), 'resources': lambda l: (l[1], l[2], l[3]),
              'complete': lambda l: (l[1], l[2], l[7]) if len(l) > 7 else None}.get(label[0], lambda l: None)(label)
        if rs is not None and rs[2]:
            led = dict(getattr(w, 'rs_ledger', ()))
            names = set(led.get((rs[0], rs[1]), ())) | {n for n, _ in rs[2]}
            led[(rs[0], rs[1])] = tuple(sorted(names))
            w.rs_ledger = tuple(sorted(led.items()))
        return obs

    def pre_view(self, w):
        return totals(w)

    def check_transition(self, w, pre, label, obs):
        out = []
        if label[0] in ('compact', 'compact_by_date'):
            post = totals(w)
            if post != pre:
                out.append((f'{label[0]}-changed-a-total', f'before {pre} after {post}'))
            t = 'aggregated_billing_project_user_resources_v3' if label[0] == 'compact' else 'aggregated_billing_project_user_resources_by_date_v3'
            keys = defaultdict(list)
            for r in w.table(t):
                k = tuple(r[c] for c in r if c not in ('token', 'usage'))
                keys[k].append(r['token'])
            for k, toks in keys.items():
                if len(toks) > 1:
                    pass  # compaction handles a bounded number of keys per run; not demanded by the statement
        return out

    def check_state(self, w):
        out = []
        jobs = {j['job_id']: j for j in w.table('jobs')}
        anc = defaultdict(list)
        for r in w.table('job_group_self_and_ancestors'):
            anc[r['job_group_id']].append(r['ancestor_id'])
        exp_job = defaultdict(int)
        exp_group = defaultdict(int)
        exp_bp = defaultdict(int)
        atts = {(a['job_id'], a['attempt_id']): a for a in w.table('attempts')}
        for r in w.table('attempt_resources'):
            a = atts[(r['job_id'], r['attempt_id'])]
            u = r['quantity'] * billed(a)
            rid = r['deduped_resource_id']
            exp_job[(r['job_id'], rid)] += u
            for g in anc[jobs[r['job_id']]['job_group_id']]:
                exp_group[(g, rid)] += u
            exp_bp[rid] += u
        act_job = defaultdict(int)
        for r in w.table('aggregated_job_resources_v3'):
            act_job[(r['job_id'], r['resource_id'])] += r['usage']
        act_group = defaultdict(int)
        for r in w.table('aggregated_job_group_resources_v3'):
            act_group[(r['job_group_id'], r['resource_id'])] += r['usage']
        act_bp = defaultdict(int)
        for r in w.table('aggregated_billing_project_user_resources_v3'):
            if (r['billing_project'], r['user']) == ('bp', 'u1'):
                act_bp[r['resource_id']] += r['usage']
            else:
                out.append(('usage-billed-to-wrong-project-or-user', str(r)))
        act_date = defaultdict(int)
        for r in w.table('aggregated_billing_project_user_resources_by_date_v3'):
            act_date[r['resource_id']] += r['usage']

        def diff(name, act, exp):
            bad = {k: (act.get(k, 0), exp.get(k, 0)) for k in set(act) | set(exp) if act.get(k, 0) != exp.get(k, 0)}
            if bad:
                out.append((f'{name}-usage-differs-from-attempt-usage', f'(actual, expected) by key: {bad}; attempts='
                            f'{[(k, a["start_time"], a["rollup_time"], a["end_time"]) for k, a in atts.items()]}'))

        registered = defaultdict(int)
        for r in w.table('attempt_resources'):
            registered[(r['job_id'], r['attempt_id'])] += 1
        for (j, att), names in getattr(w, 'rs_ledger', ()):
            if (j, att) in atts and registered[(j, att)] < len(names):
                out.append(('reported-resources-not-registered',
                            f'attempt {(j, att)} was reported with resources {names} (report handled without error) but attempt_resources has '
                            f'{registered[(j, att)]} rows for it: its usage (billed {billed(atts[(j, att)])} ms) is never billed; attempt={fmt_att(atts[(j, att)])}'))
        diff('job', act_job, exp_job)
        diff('job-group', act_group, exp_group)
        diff('billing-project-user', act_bp, exp_bp)
        diff('by-date-summed-over-days', act_date, exp_bp)
        return out

    def on_exception(self, w, pre, label, e):
        import pymysql

        if isinstance(e, pymysql.err.MySQLError):
            return [(f'database-error-{e.args[0]}-in-{label[0]}', f'{label} raised {type(e).__name__}{e.args}')]
        return None

    def canon(self, w):
        drop = set(bf.DROP) - {'start_time', 'end_time', 'rollup_time'}
        d = w.mdb.store.dump(drop=drop)
        return repr(sorted(d.items())) + repr((sorted(w.mirror().items()), w.token, str(w.date)))


def fmt_att(a):
    return {k: a[k] for k in ('start_time', 'rollup_time', 'end_time', 'instance_name')}


def totals(w):
    t = {}
    for name in ('aggregated_billing_project_user_resources_v3', 'aggregated_billing_project_user_resources_by_date_v3',
                 'aggregated_job_group_resources_v3', 'aggregated_job_resources_v3'):
        d = defaultdict(int)
        for r in w.table(name):
            k = tuple(str(r[c]) for c in r if c not in ('token', 'usage'))
            d[k] += r['usage']
        t[name] = sorted(d.items())
    return t


def _patch_snapshot():
    BW = ops.BatchWorld
    if getattr(BW, '_c02_patched', False):
        return
    s0, r0 = BW.snapshot, BW.restore

    def snapshot(self):
        return s0(self) + (('ledger', getattr(self, 'rs_ledger', ())), ('date', str(self.date)),)

    def restore(self, snap):
        import datetime

        if snap and isinstance(snap[-1], tuple) and len(snap[-1]) == 2 and snap[-1][0] == 'date':
            self.date = datetime.date.fromisoformat(snap[-1][1])
            snap = snap[:-1]
        self.rs_ledger = ()
        if snap and isinstance(snap[-1], tuple) and len(snap[-1]) == 2 and snap[-1][0] == 'ledger':
            self.rs_ledger = snap[-1][1]
            snap = snap[:-1]
        r0(self, snap)

    BW.snapshot, BW.restore = snapshot, restore
    BW._c02_patched = True


_patch_snapshot()


def check(tier, seed, procs):
    depth = 5 if tier == 'quick' else 7
    res = dbmc.bfs(H, (tier,), depth=depth, procs=procs, time_budget=90 if tier == 'quick' else 900)
    cov = bf.coverage(res, f'2 jobs (root group / nested group), attempts a1 (a2 thorough), b1, resources with a shared de-duplicated id and re-registration of the same names with other quantities, '
                           f'times {T}, 2 billing dates, 2 token shards, depth {depth}')
    return {'coverage': cov, 'violations': res.violations, 'assumptions': bf.ASSUME + [
        'per-day split is judged only through its sum over days (the day a delta lands on depends on the wall clock)'],
            'vacuous': None if res.states > 100 else f'only {res.states} states'}


def replay(obj):
    v = dbmc.replay_history(H, ('thorough',), obj['history'])
    return (not v), (v[0][1] if v else 'no violation')
