"""C05  Dependencies gate readiness; failed parents cancel children.

All job DAGs on 3 jobs (thorough: 4) x every split of the jobs over update 1 / update 2 x always-run
flags; for each, BFS over all interleavings of the second update's requests (committed at every
possible point) with real scheduler sweeps, success/failure reports and canceller sweeps.
"""
import itertools

from vf import batchfamily as bf
from vf import batchops as ops

NEEDS_SERVICES = True
MONITORS = ('C05',)


def gen(n, tier):
    scripts, setups = {}, []
    pairs = [(i, j) for j in range(2, n + 1) for i in range(1, j)]
    ar_choices = [()] + [(k,) for k in range(2, n + 1)] if tier == 'quick' else [tuple(c) for r in range(0, n + 1) for c in itertools.combinations(range(1, n + 1), r)]
    # how a job names its parents inside its own update: update-relative ids ('in'), absolute ids ('abs', what the
    # legacy `parent_ids` key becomes), or the first parent absolute and the others relative ('mix')
    styles = ('in', 'abs') if tier == 'quick' else ('in', 'abs', 'mix')

    def spec(j, base, edges, ar, style):
        same = [i for i, jj in edges if jj == j and i > base]
        earlier = [i for i, jj in edges if jj == j and i <= base]
        if style == 'in':
            inup, absp = [i - base for i in same], earlier
        elif style == 'abs':
            inup, absp = [], earlier + same
        else:
            inup, absp = [i - base for i in same[1:]], earlier + same[:1]
        return ops.job_spec(j - base, parents=inup, abs_parents=absp, abs_group=0, always_run=j in ar)

    for mask in range(1 << len(pairs)):
        edges = [p for b, p in enumerate(pairs) if mask >> b & 1]
        for k in range(1, n + 1):  # jobs 1..k in update 1, the rest in update 2
            for style in styles:
                if style != 'in' and not edges:
                    continue
                for ar in (ar_choices if style == 'in' or tier != 'quick' else ar_choices[:1]):
                    name = f'dag{n}_{mask}_k{k}_ar{"".join(map(str, ar))}' + ('' if style == 'in' else '_' + style)
                    u1 = [('new_update', 'u1', 't1', k, 0)]
                    u1.append(('add_jobs', 'u1', 1, [spec(j, 0, edges, ar, style) for j in range(1, k + 1)]))
                    u1.append(('commit_tail', 'u1', 1))
                    scripts[name + '_u1'] = u1
                    if k < n:
                        u2 = [('new_update', 'u1', 't2', n - k, 0)]
                        u2.append(('add_jobs', 'u1', 2, [spec(j, k, edges, ar, style) for j in range(k + 1, n + 1)]))
                        u2.append(('commit', 'u1', 2))
                        scripts[name + '_u2'] = u2
                        setups.append((name, name + '_u1', name + '_u2', []))
                    else:
                        scripts[name + '_none'] = []
                        setups.append((name, name + '_u1', name + '_none', []))
    return scripts, setups


for _n in (3, 4):
    for _t in ('quick', 'thorough'):
        bf.SCRIPTS.update(gen(_n, _t)[0])

OPTS = {'stale_attempt': False, 'preempt': False, 'token_flip': False, 'dup_reports': False, 'no_cancel': True, 'no_sweeps': True}


def check(tier, seed, procs):
    # statement-level interleavings of the lifecycle procedures (vf/txpairs.py), e.g. the same completion report handled twice
    # at once while a shared child's other parent still runs; every interleaving must end like some serial order
    from vf import txpairs

    phase = txpairs.run_phase(tier, procs, ('C01', 'C06', 'C41'))
    n = 3 if tier == 'quick' else 4
    _, setups = gen(n, tier)
    if tier != 'quick':
        setups = gen(3, 'thorough')[1] + setups[:: 7]
    depth = 7 if tier == 'quick' else 9
    res = bf.run(MONITORS, setups, tier, depth, procs, opts=OPTS, time_budget=100 if tier == 'quick' else 900)
    cov = bf.coverage(res, f'all DAGs on {n} jobs x update split x always-run choices x parent-reference style (update-relative / absolute ids) = {len(setups)} programs; depth {depth}; '
                           f'ops: client requests of update 2, scheduler sweep, worker success/failure, canceller sweeps',
                      {'programs': len(setups)})
    out = {'coverage': cov, 'violations': res.violations, 'assumptions': bf.ASSUME,
           'vacuous': None if res.states > 500 else f'only {res.states} states'}
    return txpairs.merge_into(out, phase)


def replay(obj):
    if 'txpair' in obj:
        from vf import txpairs

        return txpairs.replay(obj)
    from vf import dbmc

    v = dbmc.replay_history(bf.Family, (sorted(MONITORS), gen(3, 'thorough')[1] + gen(4, 'thorough')[1], 'thorough', OPTS), obj['history'])
    return (not v), (v[0][1] if v else 'no violation')
