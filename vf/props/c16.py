"""C16  Worker CPU semaphore is safe, FIFO and live.

Real batch.semaphore.FIFOWeightedSemaphore on the virtual loop.  For every configuration
(weights, arrival delays, hold lengths) EVERY order of runnable callbacks is executed.  A boring
reference model (value + FIFO list) is advanced at the harness's own arrive / release events;
the real semaphore is judged only by behaviour: a job may enter its critical section only when
the reference has granted it, granted weight never exceeds capacity, a job the reference has
granted must have its wake-up pending (not be left blocked), and every execution terminates.
"""
import asyncio
import itertools

from vf import par, vloop

NEEDS_SERVICES = False
CAP = 3


class Ref:
    def __init__(self, cap):
        self.value = cap
        self.queue = []
        self.granted = set()
        self.grant_order = []
        self.arrivals = []

    def _grant(self, j, w):
        self.value -= w
        self.granted.add(j)
        self.grant_order.append(j)

    def arrive(self, j, w):
        self.arrivals.append(j)
        if not self.queue and self.value >= w:
            self._grant(j, w)
        else:
            self.queue.append((j, w))

    def release(self, j, w):
        self.value += w
        while self.queue and self.value >= self.queue[0][1]:
            k, kw = self.queue.pop(0)
            self._grant(k, kw)


def make_run_one(weights, pre, hold, cap=CAP):
    from batch.semaphore import FIFOWeightedSemaphore

    n = len(weights)

    def run_one(chooser):
        loop = vloop.VLoop(chooser)
        sem = FIFOWeightedSemaphore(cap)
        ref = Ref(cap)
        st = {'held': 0, 'started': [], 'viol': None, 'sig': None, 'waited': 0}
        tasks = {}

        def fail(sig, msg):
            if st['viol'] is None:
                st['viol'] = msg
                st['sig'] = sig

        phase = [('pre', 0)] * n

        async def job(j):
            for i in range(pre[j]):
                phase[j] = ('pre', i + 1)
                await asyncio.sleep(0)
            phase[j] = ('wait', 0)
            ref.arrive(j, weights[j])
            if j not in ref.granted:
                st['waited'] += 1
            async with sem(weights[j]):
                if j not in ref.granted:
                    fail('entered-before-fifo-turn', f'job {j} (w={weights[j]}) entered while the FIFO reference has it waiting; '
                         f'arrivals={ref.arrivals} ref_queue={ref.queue}')
                st['started'].append(j)
                st['held'] += weights[j]
                if st['held'] > cap:
                    fail('capacity-exceeded', f'held {st["held"]} > capacity {cap} after job {j} entered')
                for i in range(hold[j]):
                    phase[j] = ('body', i + 1)
                    await asyncio.sleep(0)
                st['held'] -= weights[j]
                ref.release(j, weights[j])
                phase[j] = ('done', 0)

        def hook():
            # a job granted by the reference but not yet inside must have its wake-up pending
            for j in ref.granted:
                if j in st['started']:
                    continue
                t = tasks.get(j)
                if t is None or t.done():
                    continue
                pending = any(getattr(getattr(h, '_callback', None), '__self__', None) is t for h in loop._ready)
                if not pending:
                    fail('head-left-blocked', f'job {j} is at the head with enough free capacity but was not woken; '
                         f'ref_value={ref.value} started={st["started"]}')

        async def main():
            for j in range(n):
                tasks[j] = asyncio.get_running_loop().create_task(job(j), name=f'j{j}')
            for j in range(n):
                st['main'] = j
                await tasks[j]

        def state():
            q = getattr(sem, 'queue', ())
            return (tuple(phase), st.get('main'), ref.value, tuple(ref.queue), tuple(sorted(ref.granted)),
                    tuple(st['started']), st['waited'], st['viol'] is None, getattr(sem, 'value', None), tuple(w for _, w in q))

        loop.step_hook = hook
        loop.state_fn = state
        try:
            _, exc = loop.run(main(), max_steps=2000)
            if exc is not None:
                fail('job-raised', f'{type(exc).__name__}: {exc}')
        except vloop.Deadlock:
            fail('deadlock', f'waiters blocked forever: started={st["started"]} ref_queue={ref.queue} ref_value={ref.value}')
        errs = loop.finish()
        if st['viol'] is None and st['started'] != ref.grant_order:
            # entering order may lag grant order (wake-ups are reordered by the scheduler) but the sets must agree
            if sorted(st['started']) != sorted(ref.grant_order):
                fail('grant-set-mismatch', f'started={st["started"]} ref={ref.grant_order}')
        if st['viol'] is None and getattr(sem, 'value', cap) != cap:
            fail('capacity-not-restored', f'value={sem.value} after all jobs finished')
        outcome = (tuple(ref.arrivals), tuple(st['started']), st['waited'])
        return outcome, st['viol'], st['sig']

    return run_one


def _explore_config(cfg):
    weights, pre, hold = cfg
    r = vloop.explore(make_run_one, (weights, pre, hold), bound=None, procs=1, determinism_checks=2)
    waited = sum(c for k, c in r.outcomes.items() if not k.endswith(', 0)'))
    return (cfg, r.executions, r.choice_points, len(r.outcomes), waited, r.distinct_states,
            [(s, m, c) for s, m, c in r.violations[:3]], r.samples[:1])


def configs(tier):
    out = []
    ns = (2, 3) if tier == 'quick' else (2, 3, 4)
    for n in ns:
        holds = (0, 1) if n >= 4 or (n == 3 and tier == 'quick') else (0, 1, 2)
        pres = (0, 1)
        for w in itertools.product((1, 2, 3), repeat=n):
            for p in itertools.product(pres, repeat=n):
                for h in itertools.product(holds, repeat=n):
                    if n == 4 and tier != 'quick' and sum(p) > 1:
                        continue
                    out.append((w, p, h))
    return out


def _selfcheck_pruning():
    """State-hash pruning must not lose behaviours: compare outcome sets with the unpruned search."""
    for cfg in [((2, 2), (0, 0), (1, 1)), ((1, 2, 3), (0, 0, 0), (1, 1, 1)), ((3, 2, 1), (1, 0, 0), (1, 0, 1))]:
        a = vloop.explore(make_run_one, cfg, bound=None, procs=1)
        b = vloop.explore(make_run_one, cfg, bound=None, procs=1, prune=False)
        if set(a.outcomes) != set(b.outcomes):
            raise RuntimeError(f'state-hash pruning lost outcomes for {cfg}')
        if a.executions > b.executions:
            raise RuntimeError('pruned search larger than unpruned search')


def check(tier, seed, procs):
    _selfcheck_pruning()
    cfgs = par.rotate(configs(tier), seed)
    rows = par.pmap(_explore_config, cfgs, procs)
    execs = sum(r[1] for r in rows)
    points = sum(r[2] for r in rows)
    outcomes = sum(r[3] for r in rows)
    waited = sum(r[4] for r in rows)
    dstates = sum(r[5] for r in rows)
    violations = []
    for cfg, _, _, _, _, _, vs, _ in sorted(rows, key=lambda r: (len(r[0][0]), r[0])):
        for sig, msg, choices in vs:
            violations.append({'signature': sig, 'message': msg, 'replay': {'config': cfg, 'choices': choices}})
    samples = [{'config': r[0], **r[7][0]} for r in rows[:3] if r[7]]
    cov = {
        'states': dstates,
        'transitions': points,
        'traces_validated_against_impl': execs,
        'samples': samples,
        'exhaustive': True,
        'configurations': len(cfgs),
        'schedules_executed': execs,
        'distinct_outcomes': outcomes,
        'executions_with_a_waiter': waited,
        'deviation_bound': 'unbounded (every order of runnable callbacks)',
        'bounds': f'capacity {CAP}; {"2-3" if tier == "quick" else "2-4"} jobs; weights 1..3; arrival delay 0..1 yields; hold 0..2 yields',
    }
    return {
        'coverage': cov,
        'violations': violations,
        'assumptions': [
            'every execution is the real FIFOWeightedSemaphore on a virtual asyncio loop; scheduling points are event-loop callbacks',
            'weights never exceed capacity (as in the property statement)',
            'bodies neither raise nor get cancelled (not part of C16)',
        ],
        'vacuous': None if waited > 0 and outcomes > len(cfgs) else f'no waiting/collision observed ({waited=}, {outcomes=})',
    }


def replay(obj):
    w, p, h = obj['config']
    x = vloop.run_prefix(make_run_one(tuple(w), tuple(p), tuple(h)), tuple(obj['choices']))
    return x.violation is None, x.violation or 'no violation'
