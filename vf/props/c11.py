"""C11  Fair-share allocation is max-min fair.

The real ``PoolScheduler._compute_fair_share`` (batch/batch/driver/instance_collection/pool.py) is
called unbound with a stub ``self`` whose ``db.execute_and_fetchall`` is an async generator yielding
the per-user records (the SQL ``HAVING n_ready_jobs + n_running_jobs > 0`` filter is applied by the
stub as written in the query).  Every multiset of users over a (running, ready) grid and every free
core amount on a grid is enumerated completely, smallest first, each in several record orders.

Oracle = exact water filling with Fractions, computed by direct evaluation of the piecewise linear
"cores handed out at level L" function at its break points (not by the scheduler's incremental
loop).  Exactly the clauses of the statement are demanded, with one mcpu of rounding per user.
"""
import itertools
from fractions import Fraction

from vf import par

NEEDS_SERVICES = True

GRID_Q = (0, 250, 1000, 1250, 3000)
FREE_Q = (-1000, 0, 1, 2, 3, 249, 250, 251, 999, 1000, 1001, 2500, 4999, 12000, 10**6)
GRID_T = (0, 1, 250, 1000, 1250, 3000)
FREE_T = (-1000, -1, 0, 1, 2, 3, 4, 5, 7, 249, 250, 251, 500, 999, 1000, 1001, 1250, 2500, 3001, 4999, 7000,
          12000, 10**6)
POOL_NAME = 'standard'


# ----------------------------------------------------------------------------- real code

class _Harness(Exception):
    pass


def _jobs(mcpu):
    return (mcpu + 249) // 250


def run_real(users, free):
    """users: sequence of (running_mcpu, ready_mcpu) in record order.  Returns {index: allocated}."""
    from batch.driver.instance_collection.pool import PoolScheduler

    seen = {}

    class DB:
        def execute_and_fetchall(self, sql, args=None, query_name=None):
            if 'user_inst_coll_resources' not in sql or 'HAVING n_ready_jobs + n_running_jobs > 0' not in sql:
                raise _Harness('fair-share query changed; the stub no longer represents it')
            if tuple(args or ()) != (POOL_NAME,):
                raise _Harness(f'unexpected query arguments {args!r}')
            seen['called'] = seen.get('called', 0) + 1

            async def gen():
                for i, (running, ready) in enumerate(users):
                    rec = {
                        'user': f'u{i}',
                        'n_ready_jobs': _jobs(ready),
                        'ready_cores_mcpu': ready,
                        'n_running_jobs': _jobs(running),
                        'running_cores_mcpu': running,
                    }
                    if rec['n_ready_jobs'] + rec['n_running_jobs'] > 0:  # HAVING
                        yield rec

            return gen()

    class Pool:
        name = POOL_NAME

    class Self:
        db = DB()
        pool = Pool()

    coro = PoolScheduler._compute_fair_share(Self(), free)
    try:
        coro.send(None)
    except StopIteration as e:
        result = e.value
    else:
        coro.close()
        raise _Harness('_compute_fair_share suspended on something the stub does not provide')
    if seen.get('called') != 1:
        raise _Harness('the user records were not read exactly once')
    out = {}
    for user, rec in result.items():
        i = int(user[1:])
        if rec['user'] != user:
            raise _Harness('result keyed by something other than the user')
        out[i] = rec['allocated_cores_mcpu']
    return out


# ----------------------------------------------------------------------------- reference

def exact_fill(users, free):
    """Exact max-min fair allocation.  Returns (alloc list of Fractions, level or None, binding)."""
    F = Fraction(max(free, 0))
    D = sum(d for _, d in users)
    if F >= D:
        return [Fraction(d) for _, d in users], None, False
    if F == 0:
        return [Fraction(0)] * len(users), None, True

    def g(L):
        return sum(min(max(L - r, 0), d) for r, d in users)

    bps = sorted({r for r, d in users if d > 0} | {r + d for r, d in users if d > 0})
    prev = bps[0]
    assert g(prev) == 0
    L = None
    for bp in bps[1:]:
        if g(bp) >= F:
            slope = sum(1 for r, d in users if d > 0 and r <= prev < r + d)
            L = Fraction(prev) + (F - g(prev)) / slope
            break
        prev = bp
    assert L is not None and g(L) == F, (users, free, L)
    return [min(max(L - r, 0), Fraction(d)) for r, d in users], L, True


def judge(users, free, got, ref=None):
    """Returns list of (signature, message) for one case.  got: {index: allocated}."""
    n = len(users)
    F = max(free, 0)
    D = sum(d for _, d in users)
    exact, L, binding = ref if ref is not None else exact_fill(users, free)
    alloc = []
    for i in range(n):
        a = got.get(i, 0)
        if isinstance(a, bool) or not isinstance(a, (int, float)) or a != a:
            return [('allocation-not-a-number', f'user {i} allocated {a!r}')]
        alloc.append(Fraction(a))
    v = []
    for i, (r, d) in enumerate(users):
        if alloc[i] < 0:
            v.append(('negative-allocation', f'user {i} (running {r}, ready {d}) allocated {alloc[i]}'))
        if alloc[i] > d:
            v.append(('allocated-more-than-ready', f'user {i} (running {r}, ready {d}) allocated {alloc[i]}'))
    total = sum(alloc)
    k = sum(1 for a in alloc if a > 0)
    if total > F + k:
        v.append(('total-exceeds-free-cores', f'total allocated {total} > free {F} + {k} mcpu of rounding'))
    if not binding:
        if any(alloc[i] != users[i][1] for i in range(n)):
            v.append(('demand-not-met-although-free-cores-suffice',
                      f'free {F} >= total ready {D} but allocations {[int(a) for a in alloc]} != ready demands'))
    else:
        short = sum(1 for i in range(n) if alloc[i] < users[i][1])
        if total < F - short:
            v.append(('free-cores-left-unallocated',
                      f'only {total} of {F} free mcpu handed out while {short} users are left short'))
        if L is not None:
            for i, (r, d) in enumerate(users):
                if alloc[i] < d - 1 and abs(r + alloc[i] - L) > 1 and not (alloc[i] == 0 and r >= L):
                    v.append(('short-user-off-water-level',
                              f'user {i} (running {r}, ready {d}) got {alloc[i]}, is short, and sits at {r + alloc[i]} '
                              f'while the common level is {L}'))
                if alloc[i] > 0 and r + alloc[i] > L + 1:
                    v.append(('user-above-water-level-while-others-short',
                              f'user {i} (running {r}, ready {d}) got {alloc[i]} -> {r + alloc[i]} above the level {L}'))
    if not v:
        for i in range(n):
            if abs(alloc[i] - exact[i]) > 1:
                v.append(('differs-from-water-filling', f'user {i}: allocated {alloc[i]}, exact {exact[i]}'))
    return v


def _call(users, free):
    try:
        return run_real(users, free), None
    except _Harness:
        raise
    except Exception as e:  # noqa: BLE001  the scheduler itself failed on this input
        return None, f'{type(e).__name__}: {e}'


def run_case(users, free, ref=None):
    got, err = _call(users, free)
    if err is not None:
        return [('scheduler-raised', err)], None
    return judge(users, free, got, ref), got


# ----------------------------------------------------------------------------- enumeration

def _orders(ms, all_perms):
    """Record orders as index permutations of the multiset (duplicates by value removed)."""
    idx = tuple(range(len(ms)))
    if len(ms) <= 1:
        cands = [idx]
    elif all_perms:
        cands = list(itertools.permutations(idx))
    else:
        cands = [idx, tuple(reversed(idx)), idx[1:] + idx[:1]]
    seen = {}
    for p in cands:
        seen.setdefault(tuple(ms[i] for i in p), p)
    return list(seen.values())


def _params(tier):
    if tier == 'quick':
        return GRID_Q, FREE_Q, 4, 0
    return GRID_T, FREE_T, 5, 3


def _chunk(arg):
    tier, n, first = arg
    grid, frees, _, perm_upto = _params(tier)
    pairs = [(r, d) for r in grid for d in grid]
    rest = [p for p in pairs if p >= first]
    c = {'evaluations': 0, 'multisets': 0, 'binding': 0, 'fractional_level': 0, 'tie_on_running': 0,
         'user_above_level': 0, 'all_demand_met': 0, 'nonpositive_free': 0}
    nontrivial = set()
    viol = {}
    samples = []
    for tail in itertools.combinations_with_replacement(rest, n - 1):
        ms = (first,) + tail
        c['multisets'] += 1
        for free in frees:
            exact, L, binding = exact_fill(ms, free)
            if free <= 0:
                c['nonpositive_free'] += 1
            if binding and L is not None:
                c['binding'] += 1
                if L.denominator != 1:
                    c['fractional_level'] += 1
                if any(r >= L and d > 0 for r, d in ms):
                    c['user_above_level'] += 1
                if sum(1 for a in exact if a > 0) >= 2:
                    nontrivial.add((tuple(sorted(exact)), L))
            elif not binding:
                c['all_demand_met'] += 1
            rs = [r for r, d in ms if d > 0]
            if len(set(rs)) < len(rs):
                c['tie_on_running'] += 1
            for perm in _orders(ms, n <= perm_upto):
                order = tuple(ms[i] for i in perm)
                c['evaluations'] += 1
                vs, got = run_case(order, free, ([exact[i] for i in perm], L, binding))
                for sig, msg in vs:
                    key = (n, sum(a + b for a, b in order), abs(free), order, free)
                    if sig not in viol or key < viol[sig][0]:
                        viol[sig] = (key, f'users (running, ready) {list(order)}, free {free}: {msg}; '
                                          f'allocated {got}', {'users': [list(u) for u in order], 'free': free})
                if not vs and binding and L is not None and L.denominator != 1 and len(samples) < 1:
                    samples.append({'users': [list(u) for u in order], 'free': free,
                                    'allocated': [got.get(i, 0) for i in range(n)],
                                    'exact': [str(exact[i]) for i in perm], 'level': str(L)})
    return c, nontrivial, viol, samples


def check(tier, seed, procs):
    grid, frees, max_users, perm_upto = _params(tier)
    pairs = [(r, d) for r in grid for d in grid]
    items = [(tier, n, first) for n in range(1, max_users + 1) for first in pairs]
    # self-test of the reference on cases worked by hand
    assert exact_fill(((0, 1000), (0, 1000)), 1000)[0] == [500, 500]
    assert exact_fill(((0, 250), (0, 3000)), 1000)[0] == [250, 750]
    assert exact_fill(((1000, 1000), (0, 3000)), 1500)[0] == [250, 1250]
    assert exact_fill(((3000, 1000), (0, 1000)), 500)[0] == [0, 500]
    assert exact_fill(((0, 1), (0, 1), (0, 1)), 1)[0] == [Fraction(1, 3)] * 3
    rows = par.pmap(_chunk, par.rotate(items, seed), procs, chunksize=1)
    tot = {}
    nontrivial = set()
    viol = {}
    samples = []
    for c, nt, vs, sm in rows:
        for k, x in c.items():
            tot[k] = tot.get(k, 0) + x
        nontrivial |= nt
        for sig, t in vs.items():
            if sig not in viol or t[0] < viol[sig][0]:
                viol[sig] = t
        samples += sm
    samples = sorted(samples, key=lambda s: (len(s['users']), s['users'], s['free']))[:4]
    violations = [{'signature': sig, 'message': msg, 'replay': rp}
                  for sig, (key, msg, rp) in sorted(viol.items(), key=lambda kv: kv[1][0])]
    cov = {
        'evaluations': tot['evaluations'],
        'distinct_nontrivial': len(nontrivial),
        'rule': 'distinct (sorted exact allocation vector, water level) among cases where the free cores are positive '
                'but fewer than the total ready demand and at least two users receive a positive share',
        'samples': samples,
        'exhaustive': True,
        'bounds': f'all multisets of 1..{max_users} users with running, ready in {list(grid)} mcpu; free in {list(frees)} mcpu; '
                  + (f'record orders: all permutations for <= {perm_upto} users, else ' if perm_upto else 'record orders: ')
                  + 'sorted, reversed and rotated',
        'user_multisets': tot['multisets'],
        'cases_budget_binds': tot['binding'],
        'cases_fractional_water_level': tot['fractional_level'],
        'cases_tie_on_running_cores': tot['tie_on_running'],
        'cases_user_above_level_gets_nothing': tot['user_above_level'],
        'cases_all_demand_met': tot['all_demand_met'],
        'cases_nonpositive_free': tot['nonpositive_free'],
    }
    vac = None
    if tot['binding'] == 0 or tot['fractional_level'] == 0 or tot['user_above_level'] == 0 or tot['all_demand_met'] == 0:
        vac = f'an interesting class of inputs was never reached: {tot}'
    return {
        'coverage': cov,
        'violations': violations,
        'assumptions': [
            'the per-user records are supplied by a stub of Database.execute_and_fetchall that applies the HAVING filter '
            'of the query text; the SQL aggregation itself is not executed here',
            'job counts are derived from the core amounts (one job per started 250 mcpu)',
            'rounding tolerance: one mcpu per user (|allocated - exact| <= 1; total <= free + number of users allocated)',
            'negative free cores are judged as zero free cores',
        ],
        'vacuous': vac,
    }


def replay(obj):
    users = tuple(tuple(u) for u in obj['users'])
    vs, got = run_case(users, obj['free'])
    if vs:
        return False, f'{vs[0][0]}: {vs[0][1]}; allocated {got}'
    return True, f'no violation; allocated {got}'
