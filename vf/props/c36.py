"""C36  Front-end types agree with the IR it emits.

Bounded-exhaustive PROGRAM enumeration against the real hail front end (dummy backend, no engine).
A program is a seed dataset {range_table(3), a keyed Table.parallelize literal, range_matrix_table(2,2)}
followed by <= 3 API steps; a step is a Table / MatrixTable method (annotate, select, transmute, key_by,
filter, drop, explode, annotate_globals, aggregate; annotate_rows/cols/entries, select_entries, filter_rows,
rows()/cols()/entries() ...) whose argument is one expression template from a catalog (arithmetic with type
promotion, comparisons, casts, conditionals, collection / struct / tuple / dict / string / locus / call /
interval builders, lambdas, aggregators, scans, hl.literal(v) over a value domain; and the JOIN / INDEX family:
t[expr], t.index(expr, all_matches=True/False), index_globals(), mt.index_rows/cols/entries, semi_join / anti_join
against lookup tables keyed by a point key, a single interval<int32> / interval<locus> key and compound keys, from
Table rows and MatrixTable rows / cols / entries, consumed by annotate / select / filter of each axis) applied to one
field of the current dataset.  Programs are explored as a prefix tree (every node of the tree is one program).

Oracle, on every program the front end accepts:
  * the argument expression e:  e.dtype  ==  the type recomputed from scratch by the IR's own per-node inference
    (every node's cached type -- assigned by the front end when it built the node -- is cleared and IR.typ asked
    again); at EVERY sub-node the type the front end had assigned == the type the node infers from its children;
    every variable reference's declared type == the type its binder gives it (typed child_context, the metadata
    the renderer uses) under the dataset's environment,
  * inside the whole relational IR of every resulting dataset, every reference to row / global / va / sa / g -- in
    particular a field added by a join node (TableLeftJoinRightDistinct / TableIntervalJoin / MatrixAnnotateRowsTable /
    MatrixAnnotateColsTable), whose type the front end merely ASSERTS on its ProjectedTopLevelReference -- has the type
    that the emitted join node really binds (re-inferred, product flag included),
  * every relational node (TableIR / MatrixIR) of every resulting dataset: the type the Python front end computes for
    it == the type the ENGINE's rule gives for the same children types and parameters, field order included; the
    engine's rules are transliterated from TableIR.scala / MatrixIR.scala into vf/c36_engine_types.py and share no
    code with the Python typing rules being judged (so a wrong relational rule is no longer self-consistent),
  * the resulting dataset: row / global / key (and col / entry) types and key names reported by the front end
    == the type recomputed the same way by TableIR/MatrixIR._compute_type over the whole relational IR;
    every field expression ds[f].dtype == that type's field; the new field's dtype == e.dtype,
  * literals: t = impute_type(v): t.typecheck(v) passes, hl.literal(v).dtype == t == its IR type.
Rejections (TypeError / ExpressionException / LookupError / ... at construction) are counted, never violations.
"""
import traceback

from vf import par

NEEDS_SERVICES = False

_state = {}


class HarnessGap(RuntimeError):
    pass


def _hl():
    if 'hl' not in _state:
        from vf import boot, hailenv

        boot.install(services=False)
        _state['hl'] = hailenv.install_dummy_context()
        _state['NoEngine'] = hailenv.NoEngine
    return _state['hl']


# ---------------------------------------------------------------------------------------------------------------
# value domain for hl.literal


def value_domain(hl):
    S = hl.Struct
    loc = hl.Locus('1', 100)
    return [
        ('int', 7), ('int_neg', -3), ('int32_max', 2**31 - 1), ('int64', 2**31), ('int64_big', 2**40), ('int_too_big', 2**70),
        ('bool', True), ('float', 1.5), ('float_int', 2.0), ('nan', float('nan')), ('inf', float('inf')),
        ('str', 'abc'), ('str_empty', ''), ('str_unicode', 'hé中'), ('none', None),
        ('list_int', [1, 2, 3]), ('list_int_none', [1, None]), ('list_none_int', [None, 1]), ('list_none', [None]),
        ('list_empty', []), ('list_mixed_num', [1, 2.5]), ('list_int_int64', [1, 2**40]), ('list_bool_int', [True, 2]),
        ('list_hetero', [1, 'a']), ('list_str', ['a', 'b']), ('list_list', [[1], []]), ('list_list_none', [[1], None, [None]]),
        ('list_struct', [S(a=1, b='x'), S(a=2, b=None)]), ('list_dict_as_struct', [{'a': 1}, {'a': 2}]),
        ('tuple', (1, 'a')), ('tuple_none', (1, None)), ('tuple_empty', ()), ('tuple_nested', ((1, 2.5), [1])),
        ('set_int', {1, 2}), ('frozenset', frozenset([1])), ('set_str', {'a'}), ('set_tuple', {(1, 'a')}), ('set_empty', set()),
        ('dict_str_int', {'a': 1, 'b': 2}), ('dict_int_str', {1: 'a'}), ('dict_str_mixed', {'a': 1, 'b': 'x'}),
        ('dict_str_list', {'a': [1], 'b': []}), ('dict_tuple_key', {(1, 2): [1]}), ('dict_empty', {}), ('dict_none_val', {'a': None}),
        ('dict_int_float', {1: 1, 2: 2.5}),
        ('struct', S(a=1, b='x')), ('struct_nested', S(a=1, b=S(c=[1.5], d=(1, 'q')))), ('struct_none', S(a=None)),
        ('struct_empty', S()), ('struct_list', S(xs=[S(y=1)])),
        ('call', hl.Call([0, 1])), ('call_phased', hl.Call([1, 0], phased=True)), ('call_haploid', hl.Call([1])),
        ('call_list', [hl.Call([0, 0]), None]),
        ('locus', loc), ('locus_38', hl.Locus('chr1', 100, 'GRCh38')), ('locus_list', [loc, hl.Locus('2', 5)]),
        ('locus_mixed_rg', [loc, hl.Locus('chr1', 100, 'GRCh38')]),
        ('interval_int', hl.Interval(1, 5)), ('interval_float', hl.Interval(1.5, 2.5, includes_end=True)),
        ('interval_locus', hl.Interval(loc, hl.Locus('1', 500))), ('interval_str', hl.Interval('a', 'b')),
        ('interval_list', [hl.Interval(1, 5), None]), ('dict_locus', {loc: hl.Call([0, 1])}),
        ('struct_all', S(i=1, f=1.5, s='a', b=False, c=hl.Call([0, 1]), l=loc, iv=hl.Interval(1, 2), a=[1], st={1}, d={'k': 1.5},
                         t=(1,))),
    ]


CORE_LITS = ('int', 'float', 'str', 'list_int_none', 'struct_nested', 'dict_str_int', 'set_int', 'tuple', 'locus', 'call',
             'interval_int', 'list_struct', 'int64_big', 'bool')


# ---------------------------------------------------------------------------------------------------------------
# expression templates.  (name, kind, predicate on the dtype of the input field, builder(u))
#   kind 'v' value expression, 'b' boolean (usable in filter), 'agg' aggregation, 'scan' scan


def catalog(hl):
    from hail.expr.types import (tarray, tbool, tcall, tdict, tfloat32, tfloat64, tint32, tint64, tinterval, tlocus, tset, tstr,
                                 tstruct, ttuple)

    ints = (tint32, tint64)
    nums = (tint32, tint64, tfloat32, tfloat64)

    def num(t):
        return t in nums

    def integral(t):
        return t in ints

    def flt(t):
        return t in (tfloat32, tfloat64)

    def arr(t):
        return isinstance(t, tarray)

    def st(t):
        return isinstance(t, tset)

    def coll(t):
        return isinstance(t, (tarray, tset))

    def numcoll(t):
        return coll(t) and t.element_type in nums

    def numarr(t):
        return arr(t) and t.element_type in nums

    def dct(t):
        return isinstance(t, tdict)

    def struct(t):
        return isinstance(t, tstruct) and len(t) > 0

    def tup(t):
        return isinstance(t, ttuple) and len(t) > 0

    def s(t):
        return t == tstr

    def b(t):
        return t == tbool

    def loc(t):
        return isinstance(t, tlocus)

    def itv(t):
        return isinstance(t, tinterval)

    def call(t):
        return t == tcall

    def anyt(t):
        return True

    def arrarr(t):
        return arr(t) and arr(t.element_type)

    def arrstruct(t):
        return arr(t) and struct(t.element_type)

    def f0(t):
        return list(t)[0]

    T = [
        # numeric
        ('add1', 'v', num, lambda u: u + 1),
        ('radd_f', 'v', num, lambda u: 2.5 + u),
        ('mul_f', 'v', num, lambda u: u * 2.5),
        ('truediv', 'v', num, lambda u: u / 2),
        ('rtruediv', 'v', num, lambda u: 2 / u),
        ('floordiv', 'v', num, lambda u: u // 2),
        ('mod', 'v', num, lambda u: u % 2),
        ('neg', 'v', num, lambda u: -u),
        ('pow', 'v', num, lambda u: u ** 2),
        ('add_self', 'v', num, lambda u: u + u),
        ('add_i64', 'v', num, lambda u: hl.int64(1) + u),
        ('mul_f32', 'v', num, lambda u: hl.float32(2) * u),
        ('div_f32', 'v', num, lambda u: u / hl.float32(2)),
        ('div_i64', 'v', num, lambda u: u / hl.int64(2)),
        ('max1', 'v', num, lambda u: hl.max(u, 1)),
        ('min_f', 'v', num, lambda u: hl.min(u, 1.5)),
        ('abs', 'v', num, lambda u: hl.abs(u)),
        ('sign', 'v', num, lambda u: hl.sign(u)),
        ('sqrt', 'v', num, lambda u: hl.sqrt(u)),
        ('exp', 'v', num, lambda u: hl.exp(u)),
        ('floor', 'v', flt, lambda u: hl.floor(u)),
        ('ceil', 'v', flt, lambda u: hl.ceil(u)),
        ('is_nan', 'b', flt, lambda u: hl.is_nan(u)),
        ('bit_and', 'v', integral, lambda u: hl.bit_and(u, 1)),
        ('bit_or', 'v', integral, lambda u: hl.bit_or(u, 1)),
        ('shift', 'v', integral, lambda u: hl.bit_lshift(u, 1)),
        ('bit_not', 'v', integral, lambda u: hl.bit_not(u)),
        ('bit_count', 'v', integral, lambda u: hl.bit_count(u)),
        ('lt1', 'b', num, lambda u: u < 1),
        ('ge_f', 'b', num, lambda u: u >= 1.5),
        ('range', 'v', lambda t: t == tint32, lambda u: hl.range(u)),
        ('range3', 'v', lambda t: t == tint32, lambda u: hl.range(0, u, 2)),
        ('to_i64', 'v', num, lambda u: hl.int64(u)),
        ('to_f64', 'v', num, lambda u: hl.float64(u)),
        ('to_f32', 'v', num, lambda u: hl.float32(u)),
        ('to_i32', 'v', lambda t: num(t) or b(t) or s(t), lambda u: hl.int32(u)),
        ('if_coerce', 'v', num, lambda u: hl.if_else(u > 0, u, 1.5)),
        ('if_coerce_i64', 'v', num, lambda u: hl.if_else(u > 0, hl.int64(1), u)),
        ('arr_mixed', 'v', num, lambda u: hl.array([u, 1.5])),
        ('arr_mixed_i64', 'v', num, lambda u: hl.array([hl.int64(1), u])),
        ('coalesce_coerce', 'v', num, lambda u: hl.coalesce(u, 1.5)),
        ('cmp_mixed', 'b', num, lambda u: u == 1.5),
        ('approx', 'b', num, lambda u: hl.approx_equal(u, 1.0)),
        ('dpois', 'v', num, lambda u: hl.dpois(hl.float64(u), 2.0)),
        # any type
        ('eq_self', 'b', anyt, lambda u: u == u),
        ('ne_self', 'b', anyt, lambda u: u != u),
        ('is_defined', 'b', anyt, lambda u: hl.is_defined(u)),
        ('is_missing', 'b', anyt, lambda u: hl.is_missing(u)),
        ('to_str', 'v', anyt, lambda u: hl.str(u)),
        ('json', 'v', anyt, lambda u: hl.json(u)),
        ('arr_of', 'v', anyt, lambda u: hl.array([u, u])),
        ('pylist_of', 'v', anyt, lambda u: hl.literal([1, 2]).map(lambda i: u)),
        ('set_of', 'v', anyt, lambda u: hl.set([u])),
        ('dict_of', 'v', anyt, lambda u: hl.dict({'a': u})),
        ('dict_key', 'v', anyt, lambda u: hl.dict([(u, 1)])),
        ('tuple_of', 'v', anyt, lambda u: hl.tuple([u, hl.str(u)])),
        ('struct_of', 'v', anyt, lambda u: hl.struct(a=u, b=hl.str(u))),
        ('struct_nested_of', 'v', anyt, lambda u: hl.struct(a=hl.struct(b=[u]), c=(u, 1))),
        ('if_missing', 'v', anyt, lambda u: hl.if_else(hl.is_defined(u), u, hl.missing(u.dtype))),
        ('or_missing', 'v', anyt, lambda u: hl.or_missing(hl.is_defined(u), u)),
        ('coalesce', 'v', anyt, lambda u: hl.coalesce(u, u)),
        ('or_else', 'v', anyt, lambda u: hl.or_else(u, u)),
        ('case', 'v', anyt, lambda u: hl.case().when(hl.is_defined(u), u).or_missing()),
        ('case_default', 'v', anyt, lambda u: hl.case().when(hl.is_missing(u), 1).default(2.5)),
        ('switch', 'v', anyt, lambda u: hl.switch(u).when(u, 'x').or_missing()),
        ('bind', 'v', anyt, lambda u: hl.bind(lambda v: hl.struct(v=v), u)),
        ('rbind', 'v', anyt, lambda u: hl.rbind(u, u, lambda v, w: [v, w])),
        ('identity', 'v', anyt, lambda u: u),
        ('missing_like', 'v', anyt, lambda u: hl.missing(u.dtype)),
        # collections
        ('len', 'v', lambda t: coll(t) or dct(t) or s(t) or tup(t), lambda u: hl.len(u)),
        ('idx0', 'v', lambda t: arr(t) or s(t) or tup(t) or call(t), lambda u: u[0]),
        ('idx_neg', 'v', lambda t: arr(t) or s(t), lambda u: u[-1]),
        ('slice', 'v', lambda t: arr(t) or s(t) or tup(t), lambda u: u[0:1]),
        ('slice_step', 'v', arr, lambda u: u[::2]),
        ('map_id', 'v', coll, lambda u: u.map(lambda e: e)),
        ('map_struct', 'v', coll, lambda u: u.map(lambda e: hl.struct(e=e, n=1))),
        ('map_str', 'v', coll, lambda u: u.map(lambda e: hl.str(e))),
        ('filter_def', 'v', coll, lambda u: u.filter(lambda e: hl.is_defined(e))),
        ('flatmap', 'v', coll, lambda u: u.flatmap(lambda e: hl.array([e, e]) if isinstance(u.dtype, tarray) else hl.set([e]))),
        ('sorted', 'v', coll, lambda u: hl.sorted(u)),
        ('sorted_key', 'v', arr, lambda u: hl.sorted(u, key=lambda e: hl.str(e), reverse=True)),
        ('sum', 'v', numcoll, lambda u: hl.sum(u)),
        ('mean', 'v', numcoll, lambda u: hl.mean(u)),
        ('max_c', 'v', numcoll, lambda u: hl.max(u)),
        ('min_c', 'v', numcoll, lambda u: hl.min(u)),
        ('product', 'v', numcoll, lambda u: hl.product(u)),
        ('median', 'v', numcoll, lambda u: hl.median(u)),
        ('cumsum', 'v', numarr, lambda u: hl.cumulative_sum(u)),
        ('argmax', 'v', numarr, lambda u: hl.argmax(u)),
        ('uniq_argmin', 'v', numarr, lambda u: hl.argmin(u, unique=True)),
        ('to_set', 'v', lambda t: arr(t) or dct(t), lambda u: hl.set(u)),
        ('to_arr', 'v', lambda t: st(t) or dct(t), lambda u: hl.array(u)),
        ('to_dict', 'v', arr, lambda u: hl.dict(hl.zip(u, u))),
        ('zip_self', 'v', arr, lambda u: hl.zip(u, hl.range(3))),
        ('zip_fill', 'v', arr, lambda u: hl.zip(u, hl.range(3), fill_missing=True)),
        ('enumerate', 'v', arr, lambda u: hl.enumerate(u)),
        ('append', 'v', arr, lambda u: u.append(u[0])),
        ('extend', 'v', arr, lambda u: u.extend(u)),
        ('contains', 'b', arr, lambda u: u.contains(u[0])),
        ('fold', 'v', coll, lambda u: hl.fold(lambda a, e: a + 1, 0, u)),
        ('fold_f', 'v', numarr, lambda u: hl.fold(lambda a, e: a + e, 0.5, u)),
        ('scan_a', 'v', arr, lambda u: hl.array_scan(lambda a, e: a + 1, 0, u)),
        ('fold_coerce_zero', 'v', numarr, lambda u: hl.fold(lambda a, e: a + e / 2, 0, u)),
        ('scan_coerce_zero', 'v', numarr, lambda u: hl.array_scan(lambda a, e: a + e / 2, 0, u)),
        ('group_by', 'v', coll, lambda u: hl.group_by(lambda e: hl.str(e), u)),
        ('any', 'b', coll, lambda u: hl.any(lambda e: hl.is_defined(e), u)),
        ('all', 'b', coll, lambda u: hl.all(lambda e: hl.is_defined(e), u)),
        ('find', 'v', coll, lambda u: hl.find(lambda e: hl.is_defined(e), u)),
        ('first', 'v', arr, lambda u: u.first()),
        ('last', 'v', arr, lambda u: u.last()),
        ('head', 'v', arr, lambda u: u.head()),
        ('arr_add', 'v', numarr, lambda u: u + u),
        ('arr_mul_scalar', 'v', numarr, lambda u: u * 2),
        ('arr_div', 'v', numarr, lambda u: u / 2),
        ('arr_add_f', 'v', numarr, lambda u: u + 1.5),
        ('flatten', 'v', lambda t: coll(t) and coll(t.element_type), lambda u: hl.flatten(u)),
        ('grouped', 'v', arr, lambda u: u.grouped(2)),
        ('reversed', 'v', arr, lambda u: hl.reversed(u)),
        ('index_of', 'v', arr, lambda u: u.index(u[0])),
        ('starmap', 'v', lambda t: arr(t) and tup(t.element_type) and len(t.element_type) == 2,
         lambda u: u.starmap(lambda x, y: hl.struct(x=x, y=y))),
        ('arr_struct_field', 'v', arrstruct, lambda u: u[f0(u.dtype.element_type)]),
        ('keyed_by', 'v', arrstruct, lambda u: hl.dict(u.map(lambda e: (e[f0(u.dtype.element_type)], e)))),
        ('set_union', 'v', st, lambda u: u.union(u)),
        ('set_diff', 'v', st, lambda u: u.difference(u)),
        ('set_subset', 'b', st, lambda u: u.is_subset(u)),
        ('set_add', 'v', st, lambda u: u.add(hl.array(u)[0])),
        ('set_contains', 'b', st, lambda u: u.contains(hl.array(u)[0])),
        ('keys', 'v', dct, lambda u: u.keys()),
        ('values', 'v', dct, lambda u: u.values()),
        ('items', 'v', dct, lambda u: u.items()),
        ('key_set', 'v', dct, lambda u: u.key_set()),
        ('dict_get', 'v', dct, lambda u: u.get(u.keys()[0])),
        ('dict_get_default', 'v', dct, lambda u: u.get(u.keys()[0], u.values()[0])),
        ('dict_idx', 'v', dct, lambda u: u[u.keys()[0]]),
        ('dict_contains', 'b', dct, lambda u: u.contains(u.keys()[0])),
        ('map_values', 'v', dct, lambda u: u.map_values(lambda v: hl.str(v))),
        # structs / tuples
        ('field0', 'v', struct, lambda u: u[f0(u.dtype)]),
        ('field_idx', 'v', struct, lambda u: u[0]),
        ('annotate_s', 'v', struct, lambda u: u.annotate(zz=1)),
        ('override_s', 'v', struct, lambda u: u.annotate(**{f0(u.dtype): 'q'})),
        ('select_s', 'v', struct, lambda u: u.select(f0(u.dtype), q=1.5)),
        ('drop_s', 'v', struct, lambda u: u.drop(f0(u.dtype))),
        ('rename_s', 'v', struct, lambda u: u.rename({f0(u.dtype): 'renamed'})),
        ('struct_values', 'v', struct, lambda u: hl.tuple(list(u.values()))),
        ('struct_splat', 'v', struct, lambda u: hl.struct(**u, extra=1)),
        ('flatten_s', 'v', struct, lambda u: u.flatten()),
        ('tup_last', 'v', tup, lambda u: u[len(u.dtype) - 1]),
        ('tup_len', 'v', tup, lambda u: hl.len(u)),
        # strings
        ('concat', 'v', s, lambda u: u + 'x'),
        ('rconcat', 'v', s, lambda u: 'x' + u),
        ('upper', 'v', s, lambda u: u.upper()),
        ('split', 'v', s, lambda u: u.split(',')),
        ('split_n', 'v', s, lambda u: u.split(',', 2)),
        ('strlen', 'v', s, lambda u: u.length()),
        ('startswith', 'b', s, lambda u: u.startswith('a')),
        ('parse_f', 'v', s, lambda u: hl.float64(u)),
        ('parse_i64', 'v', s, lambda u: hl.int64(u)),
        ('parse_bool', 'v', s, lambda u: hl.bool(u)),
        ('replace', 'v', s, lambda u: u.replace('a', 'b')),
        ('str_eq', 'b', s, lambda u: u == 'a'),
        ('delimit', 'v', s, lambda u: hl.delimit([u, u], ',')),
        ('format', 'v', anyt, lambda u: hl.format('%s-%s', u, 1)),
        ('contains_s', 'b', s, lambda u: u.contains('a')),
        ('first_match', 'v', s, lambda u: u.first_match_in('(a)')),
        ('matches', 'b', s, lambda u: u.matches('a')),
        ('parse_locus', 'v', s, lambda u: hl.parse_locus(u)),
        ('parse_call', 'v', s, lambda u: hl.parse_call(u)),
        ('parse_variant', 'v', s, lambda u: hl.parse_variant(u)),
        ('parse_interval', 'v', s, lambda u: hl.parse_locus_interval(u)),
        ('parse_json', 'v', s, lambda u: hl.parse_json(u, hl.tarray(hl.tint32))),
        ('hamming', 'v', s, lambda u: hl.hamming(u, u)),
        ('entropy', 'v', s, lambda u: hl.entropy(u)),
        # bool
        ('and', 'b', b, lambda u: u & u),
        ('or', 'b', b, lambda u: u | hl.is_missing(u)),
        ('not', 'b', b, lambda u: ~u),
        ('if_b', 'v', b, lambda u: hl.if_else(u, 1, 2)),
        ('if_b_missing_false', 'v', b, lambda u: hl.if_else(u, 1.5, 2, missing_false=True)),
        ('if_struct', 'v', b, lambda u: hl.if_else(u, hl.struct(a=1, b='x'), hl.struct(a=2, b='y'))),
        ('if_arr_coerce', 'v', b, lambda u: hl.if_else(u, [1], [1.5])),
        # genetics
        ('contig', 'v', loc, lambda u: u.contig),
        ('position', 'v', loc, lambda u: u.position),
        ('global_pos', 'v', loc, lambda u: u.global_position()),
        ('in_autosome', 'b', loc, lambda u: u.in_autosome()),
        ('locus_window', 'v', loc, lambda u: u.window(1, 1)),
        ('locus_cmp', 'b', loc, lambda u: u < u),
        ('locus_from', 'v', loc, lambda u: hl.locus(u.contig, u.position + 1, u.dtype.reference_genome)),
        ('locus_interval', 'v', loc, lambda u: hl.interval(u, u, includes_end=True)),
        ('itv_start', 'v', itv, lambda u: u.start),
        ('itv_end', 'v', itv, lambda u: u.end),
        ('itv_contains', 'b', itv, lambda u: u.contains(u.start)),
        ('itv_overlaps', 'b', itv, lambda u: u.overlaps(u)),
        ('itv_includes', 'b', itv, lambda u: u.includes_start),
        ('ploidy', 'v', call, lambda u: u.ploidy),
        ('n_alt', 'v', call, lambda u: u.n_alt_alleles()),
        ('is_het', 'b', call, lambda u: u.is_het()),
        ('phased', 'b', call, lambda u: u.phased),
        ('one_hot', 'v', call, lambda u: u.one_hot_alleles(2)),
        ('unphase_idx', 'v', call, lambda u: u.unphased_diploid_gt_index()),
        ('call_from', 'v', call, lambda u: hl.call(u[0], 1, phased=True)),
        # scans (row annotations of tables only)
        ('scan_sum', 'scan', num, lambda u: hl.scan.sum(u)),
        ('scan_count', 'scan', anyt, lambda u: hl.scan.count()),
        ('scan_collect', 'scan', anyt, lambda u: hl.scan.collect(u)),
        ('scan_max', 'scan', num, lambda u: hl.scan.max(u)),
        ('scan_mean', 'scan', num, lambda u: hl.scan.mean(u)),
        ('scan_counter', 'scan', anyt, lambda u: hl.scan.counter(u)),
        ('scan_take', 'scan', anyt, lambda u: hl.scan.take(u, 2)),
        ('scan_mixed', 'scan', num, lambda u: u + hl.scan.sum(u)),
        # aggregations
        ('agg_sum', 'agg', num, lambda u: hl.agg.sum(u)),
        ('agg_mean', 'agg', num, lambda u: hl.agg.mean(u)),
        ('agg_max', 'agg', num, lambda u: hl.agg.max(u)),
        ('agg_min', 'agg', lambda t: num(t) or s(t), lambda u: hl.agg.min(u)),
        ('agg_product', 'agg', num, lambda u: hl.agg.product(u)),
        ('agg_count', 'agg', anyt, lambda u: hl.agg.count()),
        ('agg_count_where', 'agg', anyt, lambda u: hl.agg.count_where(hl.is_defined(u))),
        ('agg_fraction', 'agg', anyt, lambda u: hl.agg.fraction(hl.is_defined(u))),
        ('agg_any', 'agg', anyt, lambda u: hl.agg.any(hl.is_defined(u))),
        ('agg_all', 'agg', anyt, lambda u: hl.agg.all(hl.is_defined(u))),
        ('agg_collect', 'agg', anyt, lambda u: hl.agg.collect(u)),
        ('agg_collect_set', 'agg', anyt, lambda u: hl.agg.collect_as_set(u)),
        ('agg_counter', 'agg', anyt, lambda u: hl.agg.counter(u)),
        ('agg_take', 'agg', anyt, lambda u: hl.agg.take(u, 2)),
        ('agg_take_ord', 'agg', anyt, lambda u: hl.agg.take(u, 2, ordering=hl.str(u))),
        ('agg_stats', 'agg', num, lambda u: hl.agg.stats(u)),
        ('agg_hist', 'agg', num, lambda u: hl.agg.hist(u, 0, 10, 2)),
        ('agg_group_by', 'agg', anyt, lambda u: hl.agg.group_by(hl.str(u), hl.agg.count())),
        ('agg_group_by_collect', 'agg', anyt, lambda u: hl.agg.group_by(hl.is_defined(u), hl.agg.collect(u))),
        ('agg_filter', 'agg', anyt, lambda u: hl.agg.filter(hl.is_defined(u), hl.agg.collect(u))),
        ('agg_explode', 'agg', coll, lambda u: hl.agg.explode(lambda e: hl.agg.collect(e), u)),
        ('agg_array_sum', 'agg', numarr, lambda u: hl.agg.array_sum(u)),
        ('agg_array_agg', 'agg', arr, lambda u: hl.agg.array_agg(lambda e: hl.agg.count_where(hl.is_defined(e)), u)),
        ('agg_approx_q', 'agg', num, lambda u: hl.agg.approx_quantiles(u, 0.5)),
        ('agg_approx_qs', 'agg', num, lambda u: hl.agg.approx_quantiles(u, [0.25, 0.75])),
        ('agg_approx_cdf', 'agg', num, lambda u: hl.agg.approx_cdf(u)),
        ('agg_corr', 'agg', num, lambda u: hl.agg.corr(u, u)),
        ('agg_linreg', 'agg', num, lambda u: hl.agg.linreg(u, [1.0])),
        ('agg_fold', 'agg', anyt, lambda u: hl.agg.fold(0, lambda a: a + 1, lambda a, c: a + c)),
        ('agg_call_stats', 'agg', call, lambda u: hl.agg.call_stats(u, 2)),
        ('agg_hwe', 'agg', call, lambda u: hl.agg.hardy_weinberg_test(u)),
        ('agg_inbreeding', 'agg', call, lambda u: hl.agg.inbreeding(u, 0.5)),
        ('agg_mixed', 'agg', num, lambda u: hl.agg.sum(u) / hl.agg.count()),
        ('agg_struct', 'agg', anyt, lambda u: hl.struct(n=hl.agg.count(), xs=hl.agg.collect(u))),
        ('agg_argmax', 'agg', num, lambda u: hl.agg.take(hl.struct(u=u), 1, ordering=-u)),
        ('agg_downsample', 'agg', num, lambda u: hl.agg.downsample(u, u, n_divisions=2)),
        ('agg_ndarray_sum', 'agg', numarr, lambda u: hl.agg.ndarray_sum(hl.nd.array(u))),
    ]
    T += join_templates(hl)
    names = [t[0] for t in T]
    if len(set(names)) != len(names):
        raise HarnessGap('duplicate template names')
    return T


MINI_TEMPLATES = ('truediv', 'to_str', 'arr_of', 'struct_of', 'map_struct', 'idx0', 'field0', 'lt1', 'agg_collect', 'if_missing')
MINI_LITS = ('int', 'list_int_none', 'struct_nested')
def lookup_tables(hl):
    """tables / matrix tables that the JOIN / INDEX family looks things up in (built once per process)"""
    if 'aux' in _state:
        return _state['aux']
    P = hl.utils.range_table(4).annotate_globals(pg=hl.struct(a=1, b=['x']))
    P = P.annotate(pv=hl.str(P.idx), pw=[P.idx])
    iv = hl.tinterval(hl.tint32)
    I = hl.Table.parallelize([{'iv': hl.Interval(0, 2), 'w': 'a', 'n': 1}, {'iv': hl.Interval(1, 5), 'w': None, 'n': 2}],
                             hl.tstruct(iv=iv, w=hl.tstr, n=hl.tint32), key='iv')
    lt = hl.tinterval(hl.tlocus('GRCh37'))
    L = hl.Table.parallelize([{'liv': hl.Interval(hl.Locus('1', 1), hl.Locus('1', 100)), 'lw': 1.5}],
                             hl.tstruct(liv=lt, lw=hl.tfloat64), key='liv')
    C = hl.Table.parallelize([{'k1': 1, 'k2': '1', 'cv': [1.5]}, {'k1': 1, 'k2': '2', 'cv': None}],
                             hl.tstruct(k1=hl.tint32, k2=hl.tstr, cv=hl.tarray(hl.tfloat64)), key=['k1', 'k2'])
    IC = hl.Table.parallelize([{'iv': hl.Interval(0, 2), 'k2': 'a', 'icv': 1}],
                              hl.tstruct(iv=iv, k2=hl.tstr, icv=hl.tint32), key=['iv', 'k2'])
    M = hl.utils.range_matrix_table(3, 3)
    M = M.annotate_rows(rv=hl.str(M.row_idx))
    M = M.annotate_cols(cv=[M.col_idx])
    M = M.annotate_entries(ev=M.row_idx / 2)
    M = M.annotate_globals(mg=(1, 'a'))
    C2 = C.key_by('k2', 'k1')                       # same fields, key order (str, int32), key fields not leading in key order
    _state['aux'] = {'P': P, 'I': I, 'L': L, 'C': C, 'C2': C2, 'IC': IC, 'M': M}
    return _state['aux']


def join_templates(hl):
    """the JOIN / INDEX family: kind 'j' lookup expressions keyed by an int32 field u of the current dataset (u itself, which
    may be the dataset's key, or u + 1, a foreign key), kind 'jb' = is_defined(lookup) for filters"""
    from hail.expr.types import tint32

    def i32(t):
        return t == tint32

    def A():
        return lookup_tables(hl)

    def loc(u):
        return hl.locus('1', u + 1)

    base = [
        ('P_get', lambda k: A()['P'][k]),
        ('P_index', lambda k: A()['P'].index(k)),
        ('P_index_all', lambda k: A()['P'].index(k, all_matches=True)),
        ('P_get_field', lambda k: A()['P'][k].pw),
        ('I_get', lambda k: A()['I'][k]),
        ('I_index', lambda k: A()['I'].index(k, all_matches=False)),
        ('I_index_all', lambda k: A()['I'].index(k, all_matches=True)),
        ('I_index_all_field', lambda k: A()['I'].index(k, all_matches=True).w),
        ('I_by_interval', lambda k: A()['I'][hl.interval(k, k + 1)]),
        ('L_get', lambda k: A()['L'][loc(k)]),
        ('L_index_all', lambda k: A()['L'].index(loc(k), all_matches=True)),
        ('C_get', lambda k: A()['C'][k, hl.str(k)]),
        ('C_index_all', lambda k: A()['C'].index(k, hl.str(k), all_matches=True)),
        ('C_get_struct', lambda k: A()['C'][hl.struct(k1=k, k2=hl.str(k))]),
        ('C_prefix', lambda k: A()['C'][k]),
        ('IC_index_all', lambda k: A()['IC'].index(k, hl.str(k), all_matches=True)),
        ('M_index_rows', lambda k: A()['M'].index_rows(k)),
        ('M_index_rows_all', lambda k: A()['M'].index_rows(k, all_matches=True)),
        ('M_index_cols', lambda k: A()['M'].index_cols(k)),
        ('M_index_cols_all', lambda k: A()['M'].index_cols(k, all_matches=True)),
        ('M_index_entries', lambda k: A()['M'].index_entries(k, k)),
        ('M_rows_get', lambda k: A()['M'].rows()[k]),
        ('M_entries_get', lambda k: A()['M'].entries()[k, k]),
    ]
    out = []
    for name, f in base:
        out.append((f'j_{name}', 'j', i32, lambda u, f=f: f(u)))
        out.append((f'j_{name}_fk', 'j', i32, lambda u, f=f: f(u + 1)))
        out.append((f'jb_{name}', 'jb', i32, lambda u, f=f: hl.is_defined(f(u))))
        out.append((f'jb_{name}_fk', 'jb', i32, lambda u, f=f: hl.is_defined(f(u + 1))))
    out.append(('j_P_index_globals', 'j', i32, lambda u: A()['P'].index_globals()))
    out.append(('j_P_index_globals_field', 'j', i32, lambda u: A()['P'].index_globals().pg.b))
    out.append(('j_M_index_globals', 'j', i32, lambda u: A()['M'].index_globals()))
    return out


CORE_TEMPLATES = ('add1', 'truediv', 'to_str', 'arr_of', 'struct_of', 'if_missing', 'map_struct', 'idx0', 'field0', 'lt1',
                  'is_defined', 'dict_of', 'len', 'sorted', 'agg_collect', 'agg_sum', 'scan_count', 'keys', 'tuple_of',
                  'if_coerce', 'eq_self')


# ---------------------------------------------------------------------------------------------------------------
# oracle helpers


def _rejection(e):
    """classify an exception raised while the front end builds something: ('reject'|'engine'|'assign'|'other', label)"""
    from hail.expr.expressions.base_expression import ExpressionException
    from hail.utils.java import FatalError, HailUserError

    tb = traceback.extract_tb(e.__traceback__)
    inner = tb[-1] if tb else None
    if isinstance(e, _state['NoEngine']):
        return 'engine', 'NoEngine'
    if isinstance(e, AssertionError):
        if inner is not None and inner.name == 'assign_type':
            return 'assign', str(e)[:300]
        return 'other', f'AssertionError@{inner.name if inner else "?"}'
    if isinstance(e, (TypeError, ExpressionException, LookupError, AttributeError, ValueError, NotImplementedError, HailUserError,
                      FatalError)):
        if inner is not None and inner.filename.endswith('/vf/props/c36.py') and not isinstance(e, (AttributeError, LookupError)):
            if _state.get('dev'):
                return 'other', f'TEMPLATE-BUG {type(e).__name__}: {str(e)[:150]}'
            raise HarnessGap(f'template bug: {type(e).__name__}: {e}') from e
        return 'reject', type(e).__name__
    return 'other', f'{type(e).__name__}@{inner.name if inner else "?"}'


def _assert_site(e):
    """the IR node class whose inference tripped an assertion"""
    tb = e.__traceback__
    node = None
    last = '?'
    while tb is not None:
        slf = tb.tb_frame.f_locals.get('self')
        if slf is not None and type(slf).__module__.startswith('hail.ir'):
            node = type(slf).__name__
        last = tb.tb_frame.f_code.co_name
        tb = tb.tb_next
    return f'{node}.{last}'


_DECLARATIVE = ('MakeArray', 'JavaIR', 'JavaTable', 'JavaMatrix', 'JavaBlockMatrix')


def _all_nodes(root):
    """every BaseIR node reachable from root, children before parents, each once"""
    from hail.ir.base_ir import BaseIR

    out = []
    seen = set()
    stack = [(root, False)]
    while stack:
        x, done = stack.pop()
        if done:
            out.append(x)
            continue
        if id(x) in seen:
            continue
        seen.add(id(x))
        stack.append((x, True))
        for c in x.children:
            if isinstance(c, BaseIR):
                stack.append((c, False))
    return out


def reinfer(root):
    """The type the IR implies, recomputed from scratch by hail's own per-node inference rules.

    Every node's cached type (which the front end assigned when it built the node: construct_expr -> assign_type) is
    recorded and cleared, then root.typ is asked again so that each node infers its type from its children.
    Returns (root type | None, [(kind, node class, detail)]).  kind: 'node' = a node infers a type different from the
    one the front end had assigned to it; 'infer' = the IR's inference itself rejects the tree.
    Hail's deep_typecheck=True mode is not used: it caches per-node results although nodes (table row references)
    are legitimately shared between environments, and StreamAgg's deep rule looks the element variable up in the
    wrong scope, so it reports trees as broken that are fine.
    """
    from hail.ir.base_ir import IR

    nodes = _all_nodes(root)
    snap = {}
    for n in nodes:
        has_child = any(hasattr(c, 'children') for c in n.children)
        if type(n).__name__ in _DECLARATIVE or (not isinstance(n, IR) and not has_child):
            continue
        snap[id(n)] = n._type
        n._type = None
    problems = []
    try:
        t = root.typ
    except AssertionError as e:
        for n in nodes:
            if id(n) in snap:
                n._type = snap[id(n)]
        return None, [('infer', _assert_site(e), str(e)[:200])]
    for n in nodes:
        if id(n) not in snap:
            if type(n).__name__ == 'MakeArray' and n._type is not None and n.args:
                inf = n._compute_type({}, None, False)
                if inf != n._type:
                    problems.append(('node', 'MakeArray', f'declared {n._type}, elements imply {inf}'))
            continue
        old = snap[id(n)]
        if n._type is None:
            n._type = old          # never reached by inference (e.g. the anonymous row reference of a join projection)
        elif old is not None and old != n._type:
            problems.append(('node', type(n).__name__, f'front end assigned {old}, the node infers {n._type} from its children'))
    return t, problems


def check_refs(root, ctx):
    """every variable reference's declared type == the type its binder gives it, using the binding metadata the
    renderer uses (child_context with types).  ctx = (eval env, agg env, scan env) of name -> type."""
    from hail.ir.base_ir import BaseIR
    from hail.ir import ir as I

    problems = []
    unknown = 0
    stack = [(root, ctx)]
    while stack:
        x, c = stack.pop()
        if isinstance(x, I.ProjectedTopLevelReference):
            # GetField <field> (Ref <name>) with a type ASSERTED by the front end (the field a join node adds): compare with
            # the type the enclosing relational node really gives that field
            ev = c[0] or {}
            st = ev.get(x.ref.name)
            if st is not None and x.field in st:
                if x._typ is not None and st[x.field] != x._typ:
                    problems.append(('joined-field', x.ref.name,
                                     f'{x.ref.name}.{x.field}: the front end asserts {x._typ}, the IR binds it as {st[x.field]}'))
            else:
                unknown += 1
            continue
        if isinstance(x, I.SelectedTopLevelReference):
            ev = c[0] or {}
            st = ev.get(x.ref.name)
            if st is not None and x._typ is not None and all(f in st for f in x._typ.fields):
                for f in x._typ.fields:
                    if st[f] != x._typ[f]:
                        problems.append(('selected-field', x.ref.name,
                                         f'{x.ref.name}.{f}: the front end asserts {x._typ[f]}, the IR binds it as {st[f]}'))
            else:
                unknown += 1
            continue
        if isinstance(x, I.Ref):
            ev = c[0] or {}
            if x.name in ev and ev[x.name] is not None and x._typ is not None and x._typ != ev[x.name]:
                problems.append(('ref', type(x).__name__, f'{x.name} declared {x._typ}, bound as {ev[x.name]}'))
            elif x.name not in ev:
                unknown += 1
            continue
        for i, ch in enumerate(x.children):
            if not isinstance(ch, BaseIR):
                continue
            try:
                cc = x.child_context(i, c)
            except Exception:  # noqa: BLE001  typed binding metadata is not maintained for every node kind
                unknown += 1
                continue
            stack.append((ch, cc))
    return problems, unknown


class Acc:
    def __init__(self):
        self.c = {}
        self.viol = {}
        self.samples = []
        self.types = set()

    def inc(self, k, n=1):
        self.c[k] = self.c.get(k, 0) + n

    def violation(self, sig, msg, prog):
        if sig not in self.viol or len(prog) < len(self.viol[sig][1]):
            self.viol[sig] = (msg, list(prog))
        self.inc('violating_checks')


def envs_for(ds, kind, ctx):
    """(env, agg_env) for an expression used in context ctx of dataset ds"""
    t = ds._tir.typ if kind == 'ht' else ds._mir.typ
    if kind == 'ht':
        return {'row': (t.row_env(), None), 'global': (t.global_env(), None), 'agg': (t.global_env(), t.row_env()),
                'scan': (t.row_env(), t.row_env())}[ctx]
    return {'row': (t.row_env(), None), 'col': (t.col_env(), None), 'entry': (t.entry_env(), None),
            'global': (t.global_env(), None), 'agg_rows': (t.global_env(), t.row_env()),
            'agg_cols': (t.global_env(), t.col_env()), 'agg_entries': (t.global_env(), t.entry_env()),
            'row_agg': (t.row_env(), t.entry_env()), 'col_agg': (t.col_env(), t.entry_env())}[ctx]


def check_expr(acc, e, ds, kind, ctx, prog, tname):
    env, agg_env = envs_for(ds, kind, ctx)
    acc.inc('expressions_checked')
    acc.inc('ir_nodes_checked', _count_nodes(e._ir))
    acc.types.add(str(e.dtype))
    shown = e.dtype
    t, probs = reinfer(e._ir)
    for k, node, detail in probs:
        acc.violation(f'ir-{k}-type-disagrees:{node}:{tname}', f'template {tname}: {detail}; dtype={shown}; ir={str(e._ir)[:400]}', prog)
    if t is not None and t != shown:
        acc.violation(f'expr-dtype-vs-ir:{tname}', f'front end says {shown}, the IR infers {t}; ir={str(e._ir)[:400]}', prog)
    scan_env = env if ctx == 'scan' else None
    rp, unknown = check_refs(e._ir, (env, agg_env if ctx != 'scan' else None, scan_env))
    acc.inc('refs_without_typed_binding', unknown)
    for k, node, detail in rp:
        acc.violation(f'ref-type-vs-binder:{tname}', f'template {tname}: {detail}; ir={str(e._ir)[:400]}', prog)


def check_value(acc, r, shown, prog, what):
    """an expression whose IR is closed (aggregate / collect results)"""
    t, probs = reinfer(r._ir)
    for k, node, detail in probs:
        acc.violation(f'ir-{k}-type-disagrees:{node}:{what}', f'{what}: {detail}; ir={str(r._ir)[:400]}', prog)
    check_engine_rules(acc, r._ir, prog, what)
    rp, unknown = check_refs(r._ir, ({}, None, None))
    acc.inc('dataset_refs_without_typed_binding', unknown)
    for k, node, detail in rp:
        acc.violation(f'{k}-type-vs-relational-ir:{node}', f'{what}: {detail}; ir={str(r._ir)[:600]}', prog)
    if t is not None and (t != r.dtype or (shown is not None and r.dtype != shown)):
        acc.violation(f'result-type:{what}', f'{what} reports {r.dtype}, argument expression {shown}, IR infers {t}', prog)


def _count_nodes(x):
    n = 1
    for c in x.children:
        if hasattr(c, 'children'):
            n += _count_nodes(c)
    return n


def check_dataset_refs(acc, rel_ir, prog, op):
    """inside the whole relational IR of a dataset: every reference to row / global / va / sa / g (in particular the fields
    that join nodes add, whose type the front end merely asserts) has the type the enclosing relational node binds"""
    probs, unknown = check_refs(rel_ir, ({}, None, None))
    acc.inc('dataset_refs_without_typed_binding', unknown)
    for k, node, detail in probs:
        acc.violation(f'{k}-type-vs-relational-ir:{node}', f'{op}: {detail}; ir={str(rel_ir)[:600]}', prog)


def check_engine_rules(acc, rel_ir, prog, op):
    """every relational node's type as the Python front end computes it == the type the ENGINE's rule gives for the same
    children types and parameters (vf.c36_engine_types, transliterated from TableIR.scala / MatrixIR.scala), field order
    included.  Each node object is judged once."""
    from hail.ir.base_ir import IR

    from vf import c36_engine_types as ET

    from hail.ir.base_ir import BaseIR

    todo = []
    stack = [rel_ir]
    while stack:                      # only the part of the IR not seen by an earlier call (datasets share their prefixes)
        n = stack.pop()
        if getattr(n, '_vf_engine_checked', False):
            continue
        n._vf_engine_checked = True
        if not isinstance(n, IR):
            todo.append(n)
        stack.extend(c for c in n.children if isinstance(c, BaseIR))
    for n in todo:
        k = type(n).__name__
        try:
            r = ET.engine_type(n)
        except ET.EngineRejects:
            acc.inc('engine_rule_rejects')
            acc.inc(f'engine_rule_rejects:{k}')
            continue
        if r is None:
            acc.inc(f'relational_not_modelled:{k}')
            continue
        acc.inc('relational_nodes_vs_engine_rule')
        acc.inc(f'relational_vs_engine:{k}')
        kind, ref, py = r
        if not ET.same(ref, py):
            acc.violation(f'relational-type-differs-from-engine-rule:{k}',
                          f'{op}: {k}: the Python front end types this node as {ET.show(py)}; the engine\'s rule gives {ET.show(ref)}; '
                          f'ir={str(n)[:500]}', prog)


def check_table(acc, ds, prog, op, new=None):
    acc.inc('datasets_checked')
    t, probs = reinfer(ds._tir)
    for k, node, detail in probs:
        acc.violation(f'table-ir-{k}-type-disagrees:{node}:{op}', f'{op}: {detail}; ir={str(ds._tir)[:500]}', prog)
    if t is None:
        return
    check_dataset_refs(acc, ds._tir, prog, op)
    check_engine_rules(acc, ds._tir, prog, op)
    rep = (ds.row.dtype, ds.globals.dtype, list(ds.key.keys()), ds.key.dtype)
    ir_ = (t.row_type, t.global_type, list(t.row_key), t.key_type)
    if rep != ir_:
        acc.violation(f'table-type:{op}', f'front end reports {rep}, the IR implies {ir_}', prog)
    for f in ds.row:
        if ds[f].dtype != t.row_type[f]:
            acc.violation(f'table-field-type:{op}', f'field {f}: expression says {ds[f].dtype}, IR row type {t.row_type[f]}', prog)
    for f in ds.globals:
        if ds[f].dtype != t.global_type[f]:
            acc.violation(f'table-global-field-type:{op}', f'field {f}: {ds[f].dtype} vs {t.global_type[f]}', prog)
    if new is not None:
        name, e, where = new
        got = (t.row_type if where == 'row' else t.global_type)[name]
        if got != e.dtype:
            acc.violation(f'new-field-type:{op}', f'{name} was given an expression of type {e.dtype} but the table has {got}', prog)
    acc.types.add(str(t.row_type))


def check_mt(acc, ds, prog, op, new=None):
    acc.inc('datasets_checked')
    t, probs = reinfer(ds._mir)
    for k, node, detail in probs:
        acc.violation(f'matrix-ir-{k}-type-disagrees:{node}:{op}', f'{op}: {detail}; ir={str(ds._mir)[:500]}', prog)
    if t is None:
        return
    check_dataset_refs(acc, ds._mir, prog, op)
    check_engine_rules(acc, ds._mir, prog, op)
    rep = (ds.row.dtype, ds.col.dtype, ds.entry.dtype, ds.globals.dtype, list(ds.row_key.keys()), list(ds.col_key.keys()),
           ds.row_key.dtype, ds.col_key.dtype)
    ir_ = (t.row_type, t.col_type, t.entry_type, t.global_type, list(t.row_key), list(t.col_key), t.row_key_type, t.col_key_type)
    if rep != ir_:
        acc.violation(f'matrix-type:{op}', f'front end reports {rep}, the IR implies {ir_}', prog)
    for part, typ in ((ds.row, t.row_type), (ds.col, t.col_type), (ds.entry, t.entry_type), (ds.globals, t.global_type)):
        for f in part:
            if ds[f].dtype != typ[f]:
                acc.violation(f'matrix-field-type:{op}', f'field {f}: {ds[f].dtype} vs {typ[f]}', prog)
    if new is not None:
        name, e, where = new
        got = {'row': t.row_type, 'col': t.col_type, 'entry': t.entry_type, 'global': t.global_type}[where][name]
        if got != e.dtype:
            acc.violation(f'new-field-type:{op}', f'{name} was given an expression of type {e.dtype} but the matrix table has {got}', prog)
    acc.types.add(str(t.entry_type) + str(t.row_type))


# ---------------------------------------------------------------------------------------------------------------
# steps


def seeds(hl):
    def keyed():
        rows = [{'k': 1, 's': 'a', 'xs': [1, 2], 'f': 1.5}, {'k': 2, 's': None, 'xs': None, 'f': None}]
        return hl.Table.parallelize(rows, hl.tstruct(k=hl.tint32, s=hl.tstr, xs=hl.tarray(hl.tint32), f=hl.tfloat64), key='k')

    return [('range_table', 'ht', lambda: hl.utils.range_table(3)),
            ('keyed_literal', 'ht', keyed),
            ('range_matrix_table', 'mt', lambda: hl.utils.range_matrix_table(2, 2))]


def _tmpl_sets(level):
    """which templates / literals each op may use at this richness level ('full' | 'core')"""
    hl = _hl()
    if 'cat' not in _state:
        lookup_tables(hl)          # built here, outside any try, so that a mistake in them is a harness error
        _state['cat'] = catalog(hl)
        _state['dom'] = value_domain(hl)
    cat = _state['cat']
    dom = _state['dom']
    if level == 'core':
        cat = [t for t in cat if t[0] in CORE_TEMPLATES]
        dom = [d for d in dom if d[0] in CORE_LITS]
    if level == 'mini':
        cat = [t for t in cat if t[0] in MINI_TEMPLATES]
        dom = [d for d in dom if d[0] in MINI_LITS]
    return cat, dom


def steps_for(ds, kind, level, fresh=None, depth=1):
    """the applicable steps of a dataset, as descriptors (JSON-able tuples), in a fixed order.
    fresh: None = templates range over every field; else only over the fields named in `fresh` (those that earlier
    steps of the program created)."""
    cat, dom = _tmpl_sets(level)
    core_cat, core_dom = _tmpl_sets('core' if level == 'full' else level)
    if level == 'mini':
        core_cat = [t for t in core_cat if t[0] in ('to_str', 'struct_of')]
    out = []

    def keep(fields):
        return fields if fresh is None else [(f, t) for f, t in fields if f in fresh]

    def applicable(cats, fields, kinds):
        for f, t in fields:
            for name, k, pred, _ in cats:
                if k in kinds and pred(t):
                    yield name, f

    if kind == 'ht':
        all_row_fields = [(f, ds[f].dtype) for f in ds.row]
        row_fields = keep(all_row_fields)
        glob_fields = keep([(f, ds[f].dtype) for f in ds.globals])
        nonkey = [f for f, _ in row_fields if f not in ds.key]
        for name, f in applicable(cat, row_fields, ('v', 'b', 'scan')):
            out.append(('annotate', name, f))
        for lit, _ in dom:
            out.append(('annotate_lit', lit))
        for op in ('select', 'transmute', 'key_by_expr'):
            for name, f in applicable(core_cat, row_fields, ('v', 'b') if op == 'key_by_expr' else ('v', 'b', 'scan')):
                out.append((op, name, f))
        for name, f in applicable(cat, row_fields, ('b',)):
            out.append(('filter', name, f))
        if level == 'full' and depth > 1:
            # deeper steps: the lookups keyed by a field an earlier step created, consumed by annotate only
            for name, f in applicable(cat, row_fields, ('j',)):
                if not name.endswith('_fk'):
                    out.append(('annotate', name, f))
        if level == 'full' and depth == 1:
            for name, f in applicable(cat, row_fields, ('j',)):
                out.append(('annotate', name, f))
                out.append(('select', name, f))
            for name, f in applicable(cat, row_fields, ('jb',)):
                out.append(('filter', name, f))
        if level == 'full':
            for aux in ('P', 'C', 'I'):
                out.append(('semi_join', aux))
                out.append(('anti_join', aux))
            # Table.join against the lookup tables, and with the LEFT table re-keyed by a computed key (appended last), by a
            # trailing field, and by two fields in the reverse of their row order
            for how in ('inner', 'left', 'right', 'outer'):
                for aux in ('P', 'C', 'C2'):
                    out.append(('join_aux', aux, how))
            if depth == 1 or fresh is not None:
                ints = [f for f, t in row_fields if str(t) == 'int32']
                for f in ints[:2]:
                    for variant in ('computed', 'trailing', 'reordered'):
                        for how in ('inner', 'left', 'right', 'outer'):
                            out.append(('join_rekeyed', variant, f, how))
        for f, _ in row_fields:
            out.append(('key_by_field', f))
        out.append(('key_by_none',))
        for f in nonkey:
            out.append(('drop', f))
        for f, t in row_fields:
            if f in nonkey and type(t).__name__ in ('tarray', 'tset'):
                out.append(('explode', f))
        for lit, _ in core_dom:
            out.append(('annotate_globals_lit', lit))
        for name, f in applicable(core_cat, glob_fields, ('v', 'b')):
            out.append(('annotate_globals', name, f))
        for name, f in applicable(cat, row_fields, ('agg',)):
            out.append(('aggregate', name, f))
        if level == 'full' and depth == 1:
            # explode of NESTED fields (array / set inside a struct field, one and two struct levels deep), with and without a
            # top-level field that shares the leaf's name, optionally followed by a use of the exploded field; name= too
            for variant in ('arr1', 'set1', 'arr2', 'set2'):
                for clash in (False, True):
                    out.append(('explode_nested', variant, clash, 'none'))
            out += [('explode_nested', 'arr1', False, 'annotate'), ('explode_nested', 'arr2', True, 'select'),
                    ('explode_nested', 'set1', True, 'annotate'), ('explode_nested', 'arr1', False, 'name'),
                    ('explode_top_named',)]
        structural = [('group_by_agg', all_row_fields[-1][0]), ('join_self',), ('flatten',)]
        if level != 'mini':
            structural += [('select_globals_none',), ('add_index',), ('union_self',), ('index_self',), ('to_matrix_like',),
                           ('rename', all_row_fields[-1][0]), ('distinct',), ('head',), ('order_by', all_row_fields[-1][0]),
                           ('localize_false_collect',), ('expand_types',)]
        out += structural
    else:
        row_fields = keep([(f, ds[f].dtype) for f in ds.row])
        col_fields = keep([(f, ds[f].dtype) for f in ds.col])
        entry_fields = keep([(f, ds[f].dtype) for f in ds.entry])
        glob_fields = keep([(f, ds[f].dtype) for f in ds.globals])
        for name, f in applicable(cat, row_fields, ('v', 'b')):
            out.append(('annotate_rows', name, f))
        for name, f in applicable(core_cat, col_fields, ('v', 'b')):
            out.append(('annotate_cols', name, f))
        for name, f in applicable(cat if not entry_fields else core_cat, row_fields + col_fields + entry_fields, ('v', 'b')):
            out.append(('annotate_entries', name, f))
        for name, f in applicable(core_cat, row_fields + col_fields + entry_fields, ('v', 'b')):
            out.append(('select_entries', name, f))
        for lit, _ in core_dom:
            out.append(('annotate_entries_lit', lit))
            out.append(('annotate_globals_lit', lit))
        for name, f in applicable(core_cat, row_fields, ('v', 'b')):
            out.append(('select_rows', name, f))
            out.append(('key_rows_by_expr', name, f))
        for name, f in applicable(core_cat, col_fields, ('v', 'b')):
            out.append(('select_cols', name, f))
            out.append(('key_cols_by_expr', name, f))
        for name, f in applicable(core_cat, row_fields, ('b',)):
            out.append(('filter_rows', name, f))
        for name, f in applicable(core_cat, col_fields, ('b',)):
            out.append(('filter_cols', name, f))
        for name, f in applicable(core_cat, row_fields + col_fields + entry_fields, ('b',)):
            out.append(('filter_entries', name, f))
        if level == 'full' and depth > 1:
            for name, f in applicable(cat, row_fields, ('j',)):
                if not name.endswith('_fk'):
                    out.append(('annotate_rows', name, f))
            for name, f in applicable(cat, col_fields, ('j',)):
                if not name.endswith('_fk'):
                    out.append(('annotate_cols', name, f))
            for name, f in applicable(cat, entry_fields, ('j',)):
                if not name.endswith('_fk'):
                    out.append(('annotate_entries', name, f))
        if level == 'full' and depth == 1:
            for name, f in applicable(cat, row_fields, ('j',)):
                out.append(('annotate_rows', name, f))
                out.append(('select_rows', name, f))
            for name, f in applicable(cat, row_fields, ('jb',)):
                out.append(('filter_rows', name, f))
            for name, f in applicable(cat, col_fields, ('j',)):
                out.append(('annotate_cols', name, f))
                out.append(('select_cols', name, f))
            for name, f in applicable(cat, col_fields, ('jb',)):
                out.append(('filter_cols', name, f))
            for name, f in applicable(cat, row_fields + col_fields + entry_fields, ('j',)):
                out.append(('annotate_entries', name, f))
                out.append(('select_entries', name, f))
            for name, f in applicable(cat, row_fields + col_fields + entry_fields, ('jb',)):
                out.append(('filter_entries', name, f))
        if level == 'full':
            for aux in ('P', 'C'):
                out += [('semi_join_rows_aux', aux), ('anti_join_rows_aux', aux), ('semi_join_cols_aux', aux),
                        ('anti_join_cols_aux', aux)]
        for name, f in applicable(cat, entry_fields + row_fields, ('agg',)):
            out.append(('annotate_rows_agg', name, f))
        for name, f in applicable(core_cat, entry_fields + col_fields, ('agg',)):
            out.append(('annotate_cols_agg', name, f))
        for name, f in applicable(core_cat, entry_fields + row_fields + col_fields, ('agg',)):
            out.append(('aggregate_entries', name, f))
        for name, f in applicable(core_cat, row_fields, ('agg',)):
            out.append(('aggregate_rows', name, f))
        for name, f in applicable(core_cat, col_fields, ('agg',)):
            out.append(('aggregate_cols', name, f))
        for f, _ in entry_fields + [(x, None) for x, _ in row_fields if x not in ds.row_key] + [(x, None) for x, _ in col_fields if x not in ds.col_key]:
            out.append(('drop', f))
        if level == 'full' and depth == 1:
            for axis in ('rows', 'cols'):
                for variant in ('arr1', 'set1', 'arr2', 'set2'):
                    for clash in (False, True):
                        out.append(('mt_explode_nested', axis, variant, clash, 'none'))
                out += [('mt_explode_nested', axis, 'arr1', False, 'annotate'), ('mt_explode_nested', axis, 'arr2', True, 'select')]
        out += [('rows',), ('cols',), ('entries',), ('localize_entries',), ('key_rows_by_none',), ('group_rows_by_agg',)]
        if level != 'mini':
            out += [('transmute_entries',), ('add_row_index',), ('add_col_index',), ('unfilter_entries',), ('make_table',),
                    ('globals_table',), ('collect_cols_by_key',), ('union_cols_self',), ('union_rows_self',),
                    ('group_cols_by_agg',), ('explode_rows_new',), ('choose_cols',), ('semi_join_rows',), ('entry_index_self',),
                    ('rename_entry',)]
    return out


def _lit(name):
    for n, v in _state['dom']:
        if n == name:
            return v
    raise KeyError(name)


def _tmpl(name):
    for t in _state['cat']:
        if t[0] == name:
            return t
    raise KeyError(name)


def _nested_field(hl, variant, k):
    """(struct expression holding an array / set one or two struct levels deep, path to the leaf); k: an int32 expression"""
    coll = hl.array([k, k + 1]) if variant.startswith('arr') else hl.set([k, k + 1])
    if variant.endswith('1'):
        return hl.struct(q='x', a=coll, z=1.5), ('a',)
    return hl.struct(z='q', u=hl.struct(w=1, a=coll)), ('u', 'a')


def _dig(e, path):
    for p in path:
        e = e[p]
    return e


def apply_step(acc, ds, kind, step, depth, prog):
    """-> (new dataset | None, new kind).  Raises whatever the front end raises."""
    hl = _hl()
    op = step[0]
    nm = f'x{depth}'
    if kind == 'ht':
        if op in ('annotate', 'select', 'transmute', 'key_by_expr', 'filter', 'annotate_globals', 'aggregate'):
            tname, k, _, fn = _tmpl(step[1])
            e = fn(ds[step[2]])
            ctx = 'global' if op == 'annotate_globals' else ('agg' if k == 'agg' else ('scan' if k == 'scan' else 'row'))
            check_expr(acc, e, ds, 'ht', ctx, prog, tname)
            if op == 'annotate':
                new = ds.annotate(**{nm: e})
            elif op == 'select':
                new = ds.select(**{nm: e})
            elif op == 'transmute':
                new = ds.transmute(**{nm: e})
            elif op == 'key_by_expr':
                new = ds.key_by(**{nm: e})
            elif op == 'filter':
                new = ds.filter(e)
                check_table(acc, new, prog, op)
                return new, 'ht'
            elif op == 'annotate_globals':
                new = ds.annotate_globals(**{nm: e})
                check_table(acc, new, prog, op, (nm, e, 'global'))
                return new, 'ht'
            else:
                r = ds.aggregate(e, _localize=False)
                acc.inc('aggregate_results')
                check_value(acc, r, e.dtype, prog, f'aggregate:{tname}')
                return None, None
            check_table(acc, new, prog, op, (nm, e, 'row'))
            return new, 'ht'
        if op in ('annotate_lit', 'annotate_globals_lit'):
            e = hl.literal(_lit(step[1]))
            check_expr(acc, e, ds, 'ht', 'global', prog, f'literal:{step[1]}')
            new = ds.annotate(**{nm: e}) if op == 'annotate_lit' else ds.annotate_globals(**{nm: e})
            check_table(acc, new, prog, op, (nm, e, 'row' if op == 'annotate_lit' else 'global'))
            return new, 'ht'
        if op == 'to_matrix_like':
            new = ds.annotate(**{nm: hl.range(2)}).explode(nm)
        elif op == 'explode_nested':
            _, variant, clash, use = step
            k = hl.int32(hl.len(hl.str(ds[list(ds.row)[0]])))
            st, path = _nested_field(hl, variant, k)
            t = ds.annotate(ns=st, a='top-level field with the leaf\'s name') if clash else ds.annotate(ns=st)
            check_table(acc, t, prog, op + ':annotate')
            new = t.explode(_dig(t.ns, path), name='renamed') if use == 'name' else t.explode(_dig(t.ns, path))
            if use == 'annotate':
                check_table(acc, new, prog, op + ':explode')
                e = hl.tuple([_dig(new.ns, path), hl.is_defined(_dig(new.ns, path))])    # valid whatever type the field has
                check_expr(acc, e, new, 'ht', 'row', prog, 'use_exploded_nested')
                new = new.annotate(y=e)
            elif use == 'select':
                check_table(acc, new, prog, op + ':explode')
                e = hl.struct(v=_dig(new.ns, path), w=new.a)
                check_expr(acc, e, new, 'ht', 'row', prog, 'use_exploded_nested')
                new = new.select(y=e)
        elif op == 'explode_top_named':
            t = ds.annotate(xs_=hl.array([1, 2]))
            new = t.explode('xs_', name='renamed')
        elif op == 'join_aux':
            new = ds.join(lookup_tables(hl)[step[1]], how=step[2])
        elif op == 'join_rekeyed':
            _, variant, f, how = step
            A = lookup_tables(hl)
            if variant == 'computed':
                new = ds.key_by(jk=ds[f] + 0).join(A['P'].rename({'idx': 'jk'}), how=how)
            elif variant == 'trailing':
                t = ds.annotate(zz=hl.str(ds[f]), jk=ds[f] + 0)
                new = t.key_by('jk').join(A['P'].rename({'idx': 'jk'}), how=how)
            elif variant == 'reordered':
                # key ('k2', 'k1') on a row {.., k1, zz, k2}: key fields neither leading nor in row order
                t = ds.annotate(k1=ds[f] + 0, zz=1.5, k2=hl.str(ds[f]))
                new = t.key_by('k2', 'k1').join(A['C2'], how=how)
            else:
                raise HarnessGap(f'unknown join_rekeyed variant {variant}')
        elif op == 'semi_join':
            new = ds.semi_join(lookup_tables(hl)[step[1]])
        elif op == 'anti_join':
            new = ds.anti_join(lookup_tables(hl)[step[1]])
        elif op == 'key_by_field':
            new = ds.key_by(step[1])
        elif op == 'key_by_none':
            new = ds.key_by()
        elif op == 'drop':
            new = ds.drop(step[1])
        elif op == 'explode':
            new = ds.explode(step[1])
        elif op == 'select_globals_none':
            new = ds.select_globals()
        elif op == 'add_index':
            new = ds.add_index(nm)
        elif op == 'group_by_agg':
            f = step[1]
            new = ds.group_by(**{nm: hl.str(ds[f])}).aggregate(n=hl.agg.count(), c=hl.agg.collect(ds[f]))
        elif op == 'union_self':
            new = ds.union(ds)
        elif op == 'join_self':
            new = ds.join(ds.select(**{nm: 1}), how='left')
        elif op == 'index_self':
            new = ds.annotate(**{nm: ds.select(**{nm: 1})[ds.key]})
        elif op == 'rename':
            new = ds.rename({step[1]: nm})
        elif op == 'distinct':
            new = ds.distinct()
        elif op == 'head':
            new = ds.head(1)
        elif op == 'order_by':
            new = ds.order_by(hl.desc(ds[step[1]]))
        elif op == 'flatten':
            new = ds.flatten()
        elif op == 'expand_types':
            new = ds.expand_types()
        elif op == 'localize_false_collect':
            r = ds.collect(_localize=False)
            check_value(acc, r, None, prog, 'collect')
            return None, None
        else:
            raise HarnessGap(f'unknown step {step}')
        check_table(acc, new, prog, op)
        return new, 'ht'
    # matrix table
    simple = {
        'annotate_rows': ('row', 'annotate_rows', 'row'), 'annotate_cols': ('col', 'annotate_cols', 'col'),
        'annotate_entries': ('entry', 'annotate_entries', 'entry'), 'select_entries': ('entry', 'select_entries', 'entry'),
        'select_rows': ('row', 'select_rows', 'row'), 'select_cols': ('col', 'select_cols', 'col'),
        'key_rows_by_expr': ('row', 'key_rows_by', 'row'), 'key_cols_by_expr': ('col', 'key_cols_by', 'col'),
        'annotate_rows_agg': ('row_agg', 'annotate_rows', 'row'), 'annotate_cols_agg': ('col_agg', 'annotate_cols', 'col'),
    }
    if op in simple:
        ctx, meth, where = simple[op]
        tname, k, _, fn = _tmpl(step[1])
        e = fn(ds[step[2]])
        check_expr(acc, e, ds, 'mt', ctx, prog, tname)
        new = getattr(ds, meth)(**{nm: e})
        check_mt(acc, new, prog, op, (nm, e, where))
        return new, 'mt'
    if op in ('filter_rows', 'filter_cols', 'filter_entries'):
        tname, k, _, fn = _tmpl(step[1])
        e = fn(ds[step[2]])
        check_expr(acc, e, ds, 'mt', {'filter_rows': 'row', 'filter_cols': 'col', 'filter_entries': 'entry'}[op], prog, tname)
        new = getattr(ds, op)(e)
        check_mt(acc, new, prog, op)
        return new, 'mt'
    if op in ('aggregate_entries', 'aggregate_rows', 'aggregate_cols'):
        tname, k, _, fn = _tmpl(step[1])
        e = fn(ds[step[2]])
        check_expr(acc, e, ds, 'mt', 'agg_' + op.split('_')[1], prog, tname)
        r = getattr(ds, op)(e, _localize=False)
        acc.inc('aggregate_results')
        check_value(acc, r, e.dtype, prog, f'{op}:{tname}')
        return None, None
    if op in ('annotate_entries_lit', 'annotate_globals_lit'):
        e = hl.literal(_lit(step[1]))
        check_expr(acc, e, ds, 'mt', 'global', prog, f'literal:{step[1]}')
        if op == 'annotate_entries_lit':
            new = ds.annotate_entries(**{nm: e})
            check_mt(acc, new, prog, op, (nm, e, 'entry'))
        else:
            new = ds.annotate_globals(**{nm: e})
            check_mt(acc, new, prog, op, (nm, e, 'global'))
        return new, 'mt'
    if op == 'mt_explode_nested':
        _, axis, variant, clash, use = step
        kf = ds.row_idx if axis == 'rows' else ds.col_idx
        st, path = _nested_field(hl, variant, kf)
        ann = ds.annotate_rows if axis == 'rows' else ds.annotate_cols
        t = ann(ns=st, a='top-level field with the leaf\'s name') if clash else ann(ns=st)
        check_mt(acc, t, prog, op + ':annotate')
        new = t.explode_rows(_dig(t.ns, path)) if axis == 'rows' else t.explode_cols(_dig(t.ns, path))
        if use != 'none':
            check_mt(acc, new, prog, op + ':explode')
            e = hl.tuple([_dig(new.ns, path), 1]) if use == 'annotate' else hl.struct(v=_dig(new.ns, path), w=new.a)
            check_expr(acc, e, new, 'mt', 'row' if axis == 'rows' else 'col', prog, 'use_exploded_nested')
            if use == 'annotate':
                new = new.annotate_rows(y=e) if axis == 'rows' else new.annotate_cols(y=e)
            else:
                new = new.select_rows(y=e) if axis == 'rows' else new.select_cols(y=e)
        check_mt(acc, new, prog, op)
        return new, 'mt'
    to_table = {
        'rows': lambda: ds.rows(), 'cols': lambda: ds.cols(), 'entries': lambda: ds.entries(),
        'localize_entries': lambda: ds.localize_entries('ent', 'cls'),
        'make_table': lambda: ds.make_table(), 'globals_table': lambda: ds.globals_table(),
    }
    if op in to_table:
        new = to_table[op]()
        check_table(acc, new, prog, op)
        return new, 'ht'
    ef = list(ds.entry)
    to_mt = {
        'drop': lambda: ds.drop(step[1]),
        'key_rows_by_none': lambda: ds.key_rows_by(),
        'transmute_entries': lambda: ds.transmute_entries(**{nm: hl.str(ds[ef[0]])}),
        'add_row_index': lambda: ds.add_row_index(nm),
        'add_col_index': lambda: ds.add_col_index(nm),
        'unfilter_entries': lambda: ds.unfilter_entries(),
        'collect_cols_by_key': lambda: ds.collect_cols_by_key(),
        'union_cols_self': lambda: ds.union_cols(ds),
        'union_rows_self': lambda: ds.union_rows(ds),
        'group_rows_by_agg': lambda: ds.group_rows_by(**{nm: ds.row_idx % 2}).aggregate(n=hl.agg.count(), c=hl.agg.collect(ds.col_idx)),
        'group_cols_by_agg': lambda: ds.group_cols_by(**{nm: ds.col_idx % 2}).aggregate(n=hl.agg.count(), c=hl.agg.collect(ds.row_idx)),
        'explode_rows_new': lambda: ds.annotate_rows(**{nm: hl.range(2)}).explode_rows(nm),
        'choose_cols': lambda: ds.choose_cols([1, 0]),
        'semi_join_rows': lambda: ds.semi_join_rows(ds.rows()),
        'entry_index_self': lambda: ds.annotate_entries(**{nm: ds.select_entries(**{nm: 1})[ds.row_key, ds.col_key]}),
        'rename_entry': lambda: ds.rename({ef[0]: nm}),
        'semi_join_rows_aux': lambda: ds.semi_join_rows(lookup_tables(hl)[step[1]]),
        'anti_join_rows_aux': lambda: ds.anti_join_rows(lookup_tables(hl)[step[1]]),
        'semi_join_cols_aux': lambda: ds.semi_join_cols(lookup_tables(hl)[step[1]]),
        'anti_join_cols_aux': lambda: ds.anti_join_cols(lookup_tables(hl)[step[1]]),
    }
    if op in to_mt:
        new = to_mt[op]()
        check_mt(acc, new, prog, op)
        return new, 'mt'
    raise HarnessGap(f'unknown step {step}')


def field_names(ds, kind):
    if kind == 'ht':
        return set(ds.row) | set(ds.globals)
    return set(ds.row) | set(ds.col) | set(ds.entry) | set(ds.globals)


def schema_sig(ds, kind):
    return f'{kind}:{ds._tir.typ if kind == "ht" else ds._mir.typ}'


class Plan:
    """levels[d-1]: catalogue for step d.  fresh_from: steps at depth >= fresh_from apply templates only to fields created by
    earlier steps.  dedupe: expand a dataset only if no dataset with the same schema was expanded at that depth (in this job).
    count_from: programs shallower than this are rebuilt silently (another plan counts and checks them)."""

    def __init__(self, levels, fresh_from, dedupe, count_from=1):
        self.levels = levels
        self.max_depth = len(levels)
        self.fresh_from = fresh_from
        self.dedupe = dedupe
        self.count_from = count_from
        self.seen = {}


def explore(acc, ds, kind, depth, plan, prog, seed_fields):
    """depth-first over the prefix tree; every node reached is one program"""
    if depth > plan.max_depth:
        return
    fresh = None if depth < plan.fresh_from else field_names(ds, kind) - seed_fields
    for step in steps_for(ds, kind, plan.levels[depth - 1], fresh, depth):
        run_step(acc, ds, kind, step, depth, plan, prog, seed_fields)


def run_step(acc, ds, kind, step, depth, plan, prog, seed_fields):
    prog2 = prog + [list(step)]
    real = acc
    if depth < plan.count_from:
        acc = Acc()
    acc.inc('programs')
    acc.inc(f'programs_depth{depth}')
    try:
        new, nk = apply_step(acc, ds, kind, step, depth, prog2)
    except HarnessGap:
        raise
    except Exception as e:  # noqa: BLE001
        cls, label = _rejection(e)
        if cls == 'assign':
            acc.violation(f'assign-type-assert:{step[0]}:{step[1] if len(step) > 1 else ""}',
                          f'front end type differs from the type the IR node infers from its children: {label}', prog2)
        elif cls == 'reject':
            acc.inc('rejected')
            acc.inc(f'rejected:{label}')
            acc.inc(f'rejected_step:{step[0]}:{step[1] if len(step) > 2 else ""}:{label}')
        elif cls == 'engine':
            acc.inc('needs_engine')
            acc.inc(f'needs_engine_step:{step[0]}')
        else:
            acc.inc('other_exception')
            acc.inc(f'other_exception:{label}:{step[0]}:{step[1] if len(step) > 2 else ""}')
        return
    acc.inc('accepted')
    acc.inc(f'accepted_step:{step[0]}:{step[1] if len(step) > 2 else ""}')
    if len(acc.samples) < 2 and depth == plan.max_depth:
        acc.samples.append({'program': prog2, 'result': str(new.row.dtype) if new is not None else 'expression'})
    if new is not None and depth < plan.max_depth:
        if plan.dedupe:
            sig = schema_sig(new, nk)
            seen = plan.seen.setdefault(depth, set())
            if sig in seen:
                real.inc('expansions_skipped_same_schema')
                return
            seen.add(sig)
        explore(real, new, nk, depth + 1, plan, prog2, seed_fields)


# ---------------------------------------------------------------------------------------------------------------
# literals


def satisfies(t, v):
    """reference predicate: None when Python value v is a value of hail type t (missing allowed everywhere), else why not"""
    import math
    from collections.abc import Mapping

    from hail.expr.types import (tarray, tbool, tcall, tdict, tfloat32, tfloat64, tint32, tint64, tinterval, tlocus, tset, tstr,
                                 tstruct, ttuple)
    from hail.genetics import Call, Locus
    from hail.utils import Interval, Struct

    if v is None:
        return None
    if t == tbool:
        return None if isinstance(v, bool) else f'{v!r} is not a bool'
    if t in (tint32, tint64):
        if not isinstance(v, int):
            return f'{v!r} is not an int'
        lo, hi = (-2**31, 2**31 - 1) if t == tint32 else (-2**63, 2**63 - 1)
        return None if lo <= v <= hi else f'{v!r} out of range of {t}'
    if t in (tfloat32, tfloat64):
        return None if isinstance(v, (int, float)) and (isinstance(v, float) or not math.isnan(v)) else f'{v!r} is not a number'
    if t == tstr:
        return None if isinstance(v, str) else f'{v!r} is not a str'
    if t == tcall:
        return None if isinstance(v, Call) else f'{v!r} is not a Call'
    if isinstance(t, tlocus):
        if not isinstance(v, Locus):
            return f'{v!r} is not a Locus'
        return None if v.reference_genome == t.reference_genome else f'{v!r} is not on {t.reference_genome}'
    if isinstance(t, tinterval):
        if not isinstance(v, Interval):
            return f'{v!r} is not an Interval'
        return satisfies(t.point_type, v.start) or satisfies(t.point_type, v.end)
    if isinstance(t, tarray):
        if not isinstance(v, (list, tuple)):
            return f'{v!r} is not a list'
        for x in v:
            w = satisfies(t.element_type, x)
            if w:
                return w
        return None
    if isinstance(t, tset):
        if not isinstance(v, (set, frozenset)):
            return f'{v!r} is not a set'
        for x in v:
            w = satisfies(t.element_type, x)
            if w:
                return w
        return None
    if isinstance(t, tdict):
        if not isinstance(v, Mapping):
            return f'{v!r} is not a mapping'
        for k, x in v.items():
            w = satisfies(t.key_type, k) or satisfies(t.value_type, x)
            if w:
                return w
        return None
    if isinstance(t, tstruct):
        if not isinstance(v, (Struct, Mapping)):
            return f'{v!r} is not a Struct'
        if list(v.keys()) != list(t.keys()) and set(v.keys()) != set(t.keys()):
            return f'fields {list(v.keys())} != {list(t.keys())}'
        for k in t:
            w = satisfies(t[k], v[k])
            if w:
                return w
        return None
    if isinstance(t, ttuple):
        if not isinstance(v, tuple) or len(v) != len(t):
            return f'{v!r} is not a tuple of length {len(t)}'
        for tt, x in zip(t.types, v):
            w = satisfies(tt, x)
            if w:
                return w
        return None
    raise HarnessGap(f'satisfies: no rule for {t}')


def check_literals(acc):
    hl = _hl()
    from hail.expr.expressions import impute_type
    from hail.expr.expressions.base_expression import ExpressionException

    _tmpl_sets('full')
    for name, v in _state['dom']:
        acc.inc('literal_values')
        prog = [['literal', name]]
        try:
            t = impute_type(v)
        except (ExpressionException, TypeError, ValueError, LookupError) as e:
            acc.inc('literal_rejected')
            acc.inc(f'rejected:{type(e).__name__}')
            continue
        why = satisfies(t, v)
        if why is not None:
            acc.violation(f'literal-imputed-type-not-satisfied:{name}', f'impute_type({v!r}) = {t} but the value does not satisfy it: {why}', prog)
            continue
        try:
            t.typecheck(v)
        except Exception as e:  # noqa: BLE001
            # informational only: HailType.typecheck itself mishandles None in container positions; the judge is `satisfies`
            acc.inc(f'hail_typecheck_disagrees:{name}:{type(e).__name__}')
        try:
            lit = hl.literal(v)
        except Exception as e:  # noqa: BLE001
            cls, label = _rejection(e)
            if cls == 'assign':
                acc.violation(f'assign-type-assert:literal:{name}', label, prog)
            elif cls in ('reject',):
                acc.violation(f'literal-rejects-imputable-value:{name}', f'impute_type gives {t} and typecheck passes, but hl.literal raises '
                              f'{type(e).__name__}: {e}', prog)
            else:
                acc.inc(f'other_exception:{label}:literal')
            continue
        acc.inc('literals_built')
        if lit.dtype != t:
            acc.violation(f'literal-dtype:{name}', f'hl.literal({v!r}).dtype = {lit.dtype}, impute_type = {t}', prog)
        it, probs = reinfer(lit._ir)
        for k, node, detail in probs:
            acc.violation(f'ir-{k}-type-disagrees:{node}:literal:{name}', detail, prog)
        if it is not None and it != t:
            acc.violation(f'literal-ir-type:{name}', f'IR type {it}, imputed {t}', prog)
        acc.types.add(str(t))


# ---------------------------------------------------------------------------------------------------------------


PLANS = {
    # name: (levels, fresh_from, dedupe, count_from)
    'q2': (('full', 'full'), 2, True, 1),
    'q2j': (('full', 'core'), 2, True, 1),      # below a 1st step of the JOIN / INDEX family: core catalogue at step 2
    'q3': (('mini', 'mini', 'mini'), 2, True, 3),
    't2': (('full', 'full'), 99, False, 1),
    't3': (('full', 'core', 'mini'), 2, True, 3),
}
TIER_PLANS = {'quick': ('q2', 'q3'), 'thorough': ('t2', 't3')}


def _job(job):
    hl = _hl()
    seed_i, plan_name, first = job
    name, kind, mk = seeds(hl)[seed_i]
    plan = Plan(*PLANS[plan_name])
    acc = Acc()
    ds = mk()
    sf = field_names(ds, kind)
    # the first step was counted and checked by the coordinator; rebuild it silently, then explore below it
    try:
        new, nk = apply_step(Acc(), ds, kind, tuple(first), 1, [[name], list(first)])
    except Exception as e:  # noqa: BLE001
        raise HarnessGap(f'first step {first} was accepted by the coordinator but raised in the worker: {e!r}') from e
    explore(acc, new, nk, 2, plan, [[name], list(first)], sf)
    return acc.c, acc.viol, acc.samples, sorted(acc.types)


def check(tier, seed, procs):
    hl = _hl()
    acc = Acc()
    check_literals(acc)
    jobs = []
    reps_info = {}
    for i, (name, kind, mk) in enumerate(seeds(hl)):
        ds = mk()
        check_table(acc, ds, [[name]], 'seed') if kind == 'ht' else check_mt(acc, ds, [[name]], 'seed')
        sf = field_names(ds, kind)
        # depth 1 (full catalogue over every field) is run here, once; its results seed the worker jobs
        results = []
        for step in steps_for(ds, kind, 'full', None):
            prog2 = [[name], list(step)]
            acc.inc('programs')
            acc.inc('programs_depth1')
            try:
                new, nk = apply_step(acc, ds, kind, step, 1, prog2)
            except HarnessGap:
                raise
            except Exception as e:  # noqa: BLE001
                cls, label = _rejection(e)
                if cls == 'assign':
                    acc.violation(f'assign-type-assert:{step[0]}:{step[1] if len(step) > 1 else ""}', label, prog2)
                elif cls == 'reject':
                    acc.inc('rejected')
                    acc.inc(f'rejected:{label}')
                    acc.inc(f'rejected_step:{step[0]}:{step[1] if len(step) > 2 else ""}:{label}')
                elif cls == 'engine':
                    acc.inc('needs_engine')
                    acc.inc(f'needs_engine_step:{step[0]}')
                else:
                    acc.inc('other_exception')
                    acc.inc(f'other_exception:{label}:{step[0]}:{step[1] if len(step) > 2 else ""}')
                continue
            acc.inc('accepted')
            acc.inc(f'accepted_step:{step[0]}:{step[1] if len(step) > 2 else ""}')
            if new is not None:
                results.append((step, schema_sig(new, nk)))
        for plan_name in TIER_PLANS[tier]:
            levels, fresh_from, dedupe, count_from = PLANS[plan_name]
            allowed = None
            if levels[0] != 'full':
                allowed = {tuple(x) for x in steps_for(ds, kind, levels[0], None)}
            seen = set()
            for step, sig in results:
                if allowed is not None and tuple(step) not in allowed:
                    continue
                if dedupe:
                    if sig in seen:
                        acc.inc('expansions_skipped_same_schema')
                        continue
                    seen.add(sig)
                is_join = (len(step) > 1 and isinstance(step[1], str) and step[1].startswith(('j_', 'jb_'))) \
                    or step[0] in ('explode_nested', 'mt_explode_nested', 'explode_top_named')
                jobs.append((i, 'q2j' if plan_name == 'q2' and is_join else plan_name, step))
            reps_info[f'{name}:{plan_name}'] = len([j for j in jobs if j[0] == i and j[1] in (plan_name, plan_name + 'j')])
    ordered = par.rotate(jobs, seed)
    rows = par.pmap(_job, ordered, procs, chunksize=max(1, len(ordered) // (procs * 16)))
    total = dict(acc.c)
    viol = dict(acc.viol)
    types = set(acc.types)
    samples = []
    for k in sorted(range(len(rows)), key=lambda k: repr(ordered[k])):
        c, v, smp, ty = rows[k]
        for a, b in c.items():
            total[a] = total.get(a, 0) + b
        for sig, (msg, prog) in v.items():
            if sig not in viol or (len(prog), repr(prog)) < (len(viol[sig][1]), repr(viol[sig][1])):
                viol[sig] = (msg, prog)
        types.update(ty)
        if smp and len(samples) < 4:
            samples.append(smp[0])
    cov = {
        'evaluations': total.get('expressions_checked', 0) + total.get('datasets_checked', 0) + total.get('literal_values', 0),
        'distinct_nontrivial': len(types),
        'rule': 'distinct hail types (as strings) among the checked expressions / dataset row types / literal types: each is a case '
                'where the front end\'s type was compared with the type recomputed by the IR\'s own inference',
        'samples': samples,
        'exhaustive': True,
        'bounds': {'quick': 'every 1-step program (full catalogue over every field, incl. the JOIN/INDEX family); every 2-step program whose '
                            '2nd step applies the full catalogue (core catalogue below a join step) to the fields the 1st step created, '
                            'a dataset being expanded once per distinct schema; every 3-step '
                            'program over the mini catalogue (same reduction), only its 3-step programs counted',
                   'thorough': 'every program of <= 2 steps with the full catalogue over every field (no reduction); every 3-step program '
                               'whose 1st step is from the full catalogue and whose 2nd / 3rd steps apply the core / mini catalogue to fields '
                               'created earlier, a dataset being expanded once per distinct schema'}[tier]
                  + f'; {len(_state["cat"])} expression templates, {len(_state["dom"])} literal values, 3 seeds',
        'programs': total.get('programs', 0),
        'programs_accepted': total.get('accepted', 0),
        'programs_rejected_by_front_end': total.get('rejected', 0),
        'programs_needing_engine': total.get('needs_engine', 0),
        'programs_other_exception': total.get('other_exception', 0),
        'expansions_skipped_same_schema': total.get('expansions_skipped_same_schema', 0),
        'worker_jobs': reps_info,
        'expressions_checked': total.get('expressions_checked', 0),
        'ir_nodes_checked': total.get('ir_nodes_checked', 0),
        'refs_without_typed_binding': total.get('refs_without_typed_binding', 0),
        'dataset_refs_without_typed_binding': total.get('dataset_refs_without_typed_binding', 0),
        'relational_nodes_compared_with_engine_rule': total.get('relational_nodes_vs_engine_rule', 0),
        'relational_nodes_per_class': {k[21:]: v for k, v in sorted(total.items()) if k.startswith('relational_vs_engine:')},
        'relational_nodes_not_modelled': {k[23:]: v for k, v in sorted(total.items()) if k.startswith('relational_not_modelled:')},
        'engine_rule_rejects': {k[20:]: v for k, v in sorted(total.items()) if k.startswith('engine_rule_rejects:')},
        'join_programs_accepted': sum(v for k, v in total.items() if k.startswith('accepted_step:') and (':j_' in k or ':jb_' in k or 'semi_join' in k or 'anti_join' in k or ':join_' in k)),
        'datasets_checked': total.get('datasets_checked', 0),
        'aggregate_results_checked': total.get('aggregate_results', 0),
        'literal_values': total.get('literal_values', 0),
        'literals_built': total.get('literals_built', 0),
        'per_depth': {k: v for k, v in sorted(total.items()) if k.startswith('programs_depth')},
        'rejections_by_exception': {k[9:]: v for k, v in sorted(total.items()) if k.startswith('rejected:')},
        'other_exceptions': {k[16:]: v for k, v in sorted(total.items()) if k.startswith('other_exception:')},
        'needs_engine_steps': {k[18:]: v for k, v in sorted(total.items()) if k.startswith('needs_engine_step:')},
        'hail_typecheck_disagrees_with_reference': sorted(k[25:] for k in total if k.startswith('hail_typecheck_disagrees:')),
        'templates_never_accepted': sorted(t[0] for t in _state['cat']
                                           if not any(k.startswith('accepted_step:') and k.endswith(':' + t[0]) for k in total)),
    }
    violations = [{'signature': sig, 'message': msg, 'replay': {'program': prog}} for sig, (msg, prog) in sorted(viol.items())]
    vac = None
    if not violations and (total.get('accepted', 0) < 100 or total.get('expressions_checked', 0) < 100 or len(types) < 20):
        vac = f'too little explored: {total.get("accepted", 0)} accepted programs, {len(types)} distinct types'
    return {
        'coverage': cov,
        'violations': violations,
        'assumptions': [
            'the type implied by the IR is what hail\'s own IR._compute_type / TableIR._compute_type / MatrixIR._compute_type infer '
            'bottom-up after all cached node types are cleared (no engine is available to ask); hail\'s deep_typecheck=True mode is '
            'not used because it is unmaintained (stale per-node caches on shared row references, StreamAgg scope)',
            'hail runs against vf.hailenv (dummy backend) and the parsimonious shim; steps that need the engine are counted and skipped',
            'programs the front end rejects (TypeError, ExpressionException, LookupError, AttributeError, ValueError, '
            'NotImplementedError, HailUserError) are counted, never violations',
            'the engine\'s relational typing rules are a hand transliteration (vf/c36_engine_types.py) of TableIR.scala / MatrixIR.scala '
            'and TableType / MatrixType / TStruct helpers; node classes whose rule depends on a reader or a registered function, or was '
            'not transliterated, are skipped and counted: TableRead, MatrixRead, TableToTableApply, MatrixToTableApply, '
            'MatrixToMatrixApply, TableMapPartitions, TableMultiWayZipJoin, TableGen, TableRepartition, MatrixRepartition, BlockMatrix*; '
            'value-IR children (newRow, expr, ...) contribute the type the Python IR infers for them',
            'Table.join\'s private, undocumented `_join_key` parameter (a join on a proper prefix of the left key; never passed '
            'by hail itself) is outside the catalogue: there the Python TableJoin rule moves ALL left key fields to the front while '
            'TableIR.scala:2279-2300 moves only the first joinKey of them',
            '"value satisfies type" for literals is judged by a reference predicate written for the check (missing allowed everywhere); '
            'HailType.typecheck is run too but only reported, because it mishandles None in container positions',
        ],
        'vacuous': vac,
    }


def replay(obj):
    hl = _hl()
    prog = obj['program']
    acc = Acc()
    if prog[0][0] == 'literal':
        _tmpl_sets('full')
        dom = _state['dom']
        _state['dom'] = [d for d in dom if d[0] == prog[0][1]]
        try:
            check_literals(acc)
        finally:
            _state['dom'] = dom
    else:
        _tmpl_sets('full')
        name, kind, mk = [s for s in seeds(hl) if s[0] == prog[0][0]][0]
        ds = mk()
        p = [prog[0]]
        for d, step in enumerate(prog[1:], 1):
            p = p + [list(step)]
            try:
                ds, kind = apply_step(acc, ds, kind, tuple(step), d, p)
            except Exception as e:  # noqa: BLE001
                cls, label = _rejection(e)
                if cls == 'assign':
                    return False, f'assign-type-assert: {label}'
                return True, f'step {step} raised {type(e).__name__}: {e}'
            if ds is None:
                break
    if acc.viol:
        sig, (msg, _) = sorted(acc.viol.items())[0]
        return False, f'{sig}: {msg}'
    return True, 'no violation'
