"""C03  Billed attempt time is monotone and bounded by the attempt.

Explicit-state BFS (engine dbmc) over every sequence of the real operations that write the
`attempts` table (schedule_job, mark_job_creating/started/complete via the real driver wrappers,
billing heartbeat handler, unschedule_job called with the running-sweep's record and through the real orphan sweep,
Instance.deactivate with each reason) with times from a
3-value clock, on two attempts of one job over a pool instance and a job-private instance.
Oracle = the per-transition rules of the property statement on every attempts row.
"""
from vf import batchops as ops
from vf import dbmc

NEEDS_SERVICES = True
T = (10, 20, 30)
ATTS = ('a1', 'a2')
DROP = {'time_created', 'time_committed', 'time_completed', 'time_closed', 'last_updated', 'time_activated', 'userdata', 'spec',
        'attributes', 'status', 'time_ready'}


def billed(r):
    if r['rollup_time'] is None or r['start_time'] is None:
        return 0
    return max(r['rollup_time'] - r['start_time'], 0)


class H(dbmc.Harness):
    def __init__(self, tier):
        self.tier = tier

    def make_world(self):
        return ops.BatchWorld(instances=(('i1', 'standard', 'active'), ('i2', 'job-private', 'pending')))

    def initial(self, w):
        def setup(w):
            ops.apply(w, ('new_batch', 'u1', 't1', 1, 0))
            ops.apply(w, ('new_update', 'u1', 't1', 1, 0))
            ops.apply(w, ('add_jobs', 'u1', 1, [ops.job_spec(1, abs_group=0)]))
            ops.apply(w, ('commit_tail', 'u1', 1))

        return [([('setup',)], setup)]

    def enabled(self, w):
        """Handler-accurate alphabet: worker reports (started / complete / heartbeat) are only accepted from an
        instance the driver believes active (active_instances_only); mark_job_creating comes from the driver for a
        pending job-private instance; activation_timeout is only ever issued for an instance that never activated;
        a completion without times (mark_job_errored) always carries a fresh attempt id."""
        out = []
        st = {n: i.state for n, i in w.icm.instances.items()}
        existing = {r['attempt_id'] for r in w.table('attempts')}
        for inst in ('i1', 'i2'):
            atts = ATTS if inst == 'i1' else ('p1',)  # attempt ids are unique to one scheduling on one instance
            if st[inst] == 'active':
                for a in atts:
                    out.append(('schedule', 1, a, inst))
                for a in atts:
                    for t in T:
                        out.append(('started', 1, a, inst, t))
                        out.append(('heartbeat', inst, ((1, a),), t))
                    for t0, t1 in ((10, 20), (20, 30), (10, 30), (20, 10), (None, 20)):
                        out.append(('complete', 1, a, inst, 'Success', t0, t1))
            if st[inst] == 'pending':
                for a in atts:
                    for t in T:
                        out.append(('creating', 1, a, inst, t))
                out.append(('activate', inst, 10))
            for a in atts:
                if a in existing:
                    for t in T:
                        out.append(('unschedule_at', 1, a, inst, t))
            if st[inst] in ('pending', 'active'):
                reasons = ('deactivated', 'preempted') if st[inst] == 'active' else ('activation_timeout', 'deactivated')
                for reason in reasons:
                    for t in T[:2] if self.tier == 'quick' else T:
                        out.append(('deactivate', inst, reason, t))
        if 'e1' not in existing:
            out.append(('complete', 1, 'e1', None, 'Error', None, None))
        # the canceller's orphan sweep ends attempts through unschedule_job too, but hands it the whole attempts row
        # (SELECT attempts.*) instead of the four keys the running-jobs sweep passes
        if any(r['start_time'] is not None and r['end_time'] is None for r in w.table('attempts')):
            for t in T[1:]:
                out.append(('orphans_at', t))
        return out

    def apply(self, w, label):
        if label[0] == 'unschedule_at':
            w.now_ms = label[4]
            return ops.apply(w, ('unschedule',) + tuple(label[1:4]))
        if label[0] == 'orphans_at':
            w.now_ms = label[1]
            return ops.apply(w, ('canceller', 'orphans'))
        return ops.apply(w, label)

    def pre_view(self, w):
        return {(r['job_id'], r['attempt_id']): dict(r) for r in w.table('attempts')}

    def check_transition(self, w, pre, label, obs):
        v = []
        for r in w.table('attempts'):
            k = (r['job_id'], r['attempt_id'])
            new = r
            b1 = billed(new)
            where = f'attempt {k} after {label}: {fmt(new)}'
            if new['end_time'] is not None and new['start_time'] is not None and b1 > max(new['end_time'] - new['start_time'], 0):
                v.append(('billed-exceeds-end-minus-start', f'billed {b1} > end-start; {where}'))
            if new['rollup_time'] is not None and new['start_time'] is not None and new['rollup_time'] < new['start_time']:
                pass  # billing clamps at zero; not a violation of the statement
            old = pre.get(k)
            if old is None:
                continue
            b0 = billed(old)
            where = f'attempt {k} by {label}: {fmt(old)} -> {fmt(new)}'
            end_capped = new['end_time'] is not None and (old['end_time'] is None or new['end_time'] < old['end_time'])
            timeout_report = label[0].startswith('deactivate') and label[2] == 'activation_timeout'
            if b1 < b0 and not end_capped and not timeout_report:
                v.append(('billed-time-decreased', f'billed {b0} -> {b1}; {where}'))
            if old['start_time'] is not None:
                if new['start_time'] is None:
                    if not timeout_report:
                        v.append(('start-time-lost', where))
                elif new['start_time'] > old['start_time']:
                    v.append(('start-time-moved-later', where))
            if old['reason'] is not None:
                if new['end_time'] is None and old['end_time'] is not None:
                    v.append(('end-time-lost-after-reason', where))
                elif old['end_time'] is not None and new['end_time'] > old['end_time']:
                    v.append(('end-time-moved-later-after-reason', where))
                elif new['end_time'] == old['end_time'] and new['reason'] != old['reason']:
                    v.append(('reason-replaced-without-earlier-end', where))
        return v

    def canon(self, w):
        d = w.mdb.store.dump(drop=DROP)
        return repr(sorted(d.items())) + repr(sorted(w.mirror().items()))


def fmt(r):
    return f"start={r['start_time']} rollup={r['rollup_time']} end={r['end_time']} reason={r['reason']}"


def check(tier, seed, procs):
    depth = 4 if tier == 'quick' else 6
    res = dbmc.bfs(H, (tier,), depth=depth, procs=procs, time_budget=50 if tier == 'quick' else 900)
    cov = {
        'states': res.states,
        'transitions': res.transitions,
        'traces_validated_against_impl': res.transitions,
        'samples': res.samples or [['setup']],
        'exhaustive': not res.capped,
        'fixpoint_reached': res.fixpoint,
        'max_depth': res.max_depth,
        'level_sizes': res.level_sizes,
        'bounds': f'1 job, attempts {ATTS}, instances i1 (pool, active) + i2 (job-private, pending), times {T}, depth {depth}',
        'sql_branches_hit': len(res.coverage),
    }
    return {
        'coverage': cov,
        'violations': res.violations,
        'assumptions': ASSUME,
        'vacuous': None if res.states > 50 else f'only {res.states} states',
    }


ASSUME = [
    'SQL executed by the minisql interpreter (MySQL subset) on the deployed routine bodies parsed from the working tree',
    'transactions are atomic steps; InnoDB lock interleavings are not explored',
    'a first-time end that is earlier than the last heartbeat counts as "correcting the end to an earlier time"',
]


def replay(obj):
    v = dbmc.replay_history(H, ('quick',), obj['history'])
    return (not v), (v[0][1] if v else 'no violation')
