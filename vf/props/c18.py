"""C18  Batch DSL resource plumbing through the ServiceBackend is consistent.

Bounded-exhaustive PROGRAM enumeration.  Every pipeline in the bounded space is written with the
real hailtop.batch DSL (Batch, BashJob, PythonJob, read_input, read_input_group,
declare_resource_group, add_extension, write_output) and submitted through the real
Batch._async_run and ServiceBackend._async_run.  The execution plane is replaced from outside:
a recording fake of the batch client (captures every create_job call: command, input_files,
output_files, parents, env ...), an in-memory async file system, a recording copy_from_dict
(the client-side upload of local input files) and no-op progress bars.

The oracle never asks the implementation where a file lives.  Everything is read off what was
submitted:
  * the text that replaced a resource reference in a job's command (found by matching the
    submitted command against the literal pieces of the command template, so any change to the
    literal text is itself a violation) must be ONE shell word (the "quoted local path");
  * producer side: that path must be the source of an upload (output_files) of the producer;
  * consumer side: that path must be the destination of exactly one download (input_files) of the
    consumer, whose source is the producer's upload destination / the input file's URL / the
    staging location the client uploaded the local file to;
  * the consumer's create_job lists the producer's submitted job among its parents;
  * distinct resources of one batch never have the same local path or the same written remote path.
Python jobs receive resource arguments through a serialised argument file; the harness reads it
back from the fake file system and applies the same rules to the paths stored there.
"""
import contextlib
import io
import itertools
import os
import pickle
import re
import shlex
import warnings

from vf import par

NEEDS_SERVICES = False
_ENV = None

REMOTE_TMP = 'gs://tmp-bucket/scratch'
INPUTS = {
    'r1': 'gs://in/d1/x.txt',
    'r2': 'gs://in/d2/x y.txt',          # needs quoting
    'loc': '/data/local/l.txt',           # local file: staged by the client (copy_from_dict)
}
INPUT_GROUPS = {
    'ig': {'a': 'gs://in/g/p.a', 'b': 'gs://in/g/p.b'},
    'igs': {'a': 'gs://in/s1/same.txt', 'b': 'gs://in/s2/same.txt'},   # same base name, different directory
}


class HarnessError(Exception):
    pass


def _pyfn(*args, **kwargs):
    return len(args) + len(kwargs)


# how a resource is handed to PythonJob.call: job['shapes'][i] for read i (default 'pos')
PY_SHAPES = ('pos', 'kw', 'list', 'tuple', 'dictval', 'list_in_dict', 'dict_in_list', 'tuple_in_dict', 'kw_dict')


def _shape_arg(shape, r, args, kwargs, tag):
    if shape == 'pos':
        args.append(r)
    elif shape == 'kw':
        kwargs[f'k{tag}'] = r
    elif shape == 'list':
        args.append([1, r])
    elif shape == 'tuple':
        args.append((r, 'x'))
    elif shape == 'dictval':
        args.append({'a': 1, 'k': r})
    elif shape == 'list_in_dict':
        args.append({'k': [r]})
    elif shape == 'dict_in_list':
        args.append([{'k': r}])
    elif shape == 'tuple_in_dict':
        args.append({'k': (0, r)})
    elif shape == 'kw_dict':
        kwargs[f'k{tag}'] = {'k': r}
    else:
        raise HarnessError(shape)


def _shape_leaf(shape, args, kwargs, tag):
    """inverse of _shape_arg on the preserialised argument file: pops the entry of one read and returns its
    (type, value) leaf"""
    def un(x, typ):
        if x[0] != typ:
            raise HarnessError(f'argument file: expected {typ}, found {x[0]}')
        return x[1]
    if shape in ('kw', 'kw_dict'):
        x = kwargs.pop(f'k{tag}')
        return x if shape == 'kw' else un(x, 'dict')['k']
    x = args.pop(0)
    if shape == 'pos':
        return x
    if shape == 'list':
        return un(x, 'list')[1]
    if shape == 'tuple':
        return un(x, 'tuple')[0]
    if shape == 'dictval':
        return un(x, 'dict')['k']
    if shape == 'list_in_dict':
        return un(un(x, 'dict')['k'], 'list')[0]
    if shape == 'dict_in_list':
        return un(un(x, 'list')[0], 'dict')['k']
    if shape == 'tuple_in_dict':
        return un(un(x, 'dict')['k'], 'tuple')[1]
    raise HarnessError(shape)


# ----------------------------------------------------------------------------------------------
# fakes (execution plane)
# ----------------------------------------------------------------------------------------------


class FakeAsyncJob:
    def __init__(self, batch, idx, kw):
        self._batch = batch
        self.idx = idx
        self.kw = kw

    @property
    def job_id(self):
        return self.idx

    @property
    def batch_id(self):
        return 1

    @property
    def id(self):
        return (1, self.idx)


class FakeAsyncBatch:
    def __init__(self, **kw):
        self.create_kw = kw
        self.jobs = []
        self.submitted = 0
        self.id = 1

    def create_job(self, image, command, **kw):
        j = FakeAsyncJob(self, len(self.jobs) + 1, dict(kw, image=image, command=command))
        self.jobs.append(j)
        return j

    async def submit(self, **kw):
        self.submitted += 1


class FakeClient:
    def __init__(self):
        self.batches = []

    def create_batch(self, **kw):
        b = FakeAsyncBatch(**kw)
        self.batches.append(b)
        return b

    async def close(self):
        pass


class FakeFS:
    """In-memory async FS; also plays the router (validate_file asks _get_fs)."""

    def __init__(self):
        self.files = {}
        self.clobbered = set()   # paths written more than once with different content

    async def _get_fs(self, uri):
        return self

    async def makedirs(self, path, exist_ok=False):
        pass

    async def write(self, path, data):
        if path in self.files and self.files[path] != bytes(data):
            self.clobbered.add(path)
        self.files[path] = bytes(data)

    async def close(self):
        pass


class _FSCache:
    def __init__(self, fs):
        self.fs = fs

    def __getitem__(self, k):
        return self.fs


class _Bar:
    def __init__(self, *a, **k):
        pass

    def __enter__(self):
        return self

    def __exit__(self, *a):
        return False

    def update(self, *a, **k):
        pass


class _UUID:
    """Deterministic stand-in for the `uuid` module inside backend.py: distinct values."""

    class _U:
        def __init__(self, n):
            self.hex = f'{n:06x}' + 'ab' * 13

    def __init__(self):
        self.n = 0

    def uuid4(self):
        self.n += 1
        return self._U(0xA00000 + self.n)

    def __getattr__(self, name):
        raise HarnessError(f'backend.py used uuid.{name}')


class _Tokens:
    ALPHA = '0123456789ABCDEFGHIJKLMNOPQRSTUVWXYZabcdefghijklmnopqrstuvwxyz'

    def __init__(self):
        self.n = 0

    def __call__(self, n=22, *, case=None):
        self.n += 1
        k, out = self.n, []
        for _ in range(n):
            k, r = divmod(k, 62)
            out.append(self.ALPHA[r])
        return ''.join(reversed(out))


def _env():
    global _ENV
    if _ENV is not None:
        return _ENV
    import hailtop.batch as hb
    import hailtop.batch.backend as backend_mod
    import hailtop.batch.batch as batch_mod
    import hailtop.batch.job as job_mod
    import hailtop.batch.resource as resource_mod
    from hailtop.batch.exceptions import BatchException

    env = {'hb': hb, 'backend_mod': backend_mod, 'batch_mod': batch_mod, 'job_mod': job_mod,
           'resource_mod': resource_mod, 'BatchException': BatchException}
    env['uuid'] = _UUID()
    env['tokens'] = _Tokens()
    env['transfers'] = []

    async def copy_from_dict(*, files, **kw):
        env['transfers'].extend(dict(f) for f in files)

    backend_mod.uuid = env['uuid']
    backend_mod.copy_from_dict = copy_from_dict
    backend_mod.track = lambda it, **kw: it
    backend_mod.SimpleCopyToolProgressBar = _Bar
    batch_mod.secret_alnum_string = env['tokens']

    def job_hash(self):
        return int(self.__dict__['_uid'][len('__JOB__'):])

    job_mod.Job.__hash__ = job_hash
    # one ServiceBackend per process, as a user script would have (also keeps Backend.__del__ out of the runs)
    env['backend'], env['fs'], env['client'] = _new_backend(env)
    _ENV = env
    return env


def _new_backend(env):
    sb_cls = env['backend_mod'].ServiceBackend
    be = object.__new__(sb_cls)
    fs = FakeFS()
    client = FakeClient()
    be._ServiceBackend__batch_client = client
    be._ServiceBackend__fs = fs
    be._requester_pays_fses = _FSCache(fs)
    be._token = None
    be._billing_project = 'proj'
    be.remote_tmpdir = REMOTE_TMP
    be.regions = ['us-central1']
    be._closed = True  # nothing to close; keeps __del__ inert
    return be, fs, client


def _reset(env):
    env['job_mod'].Job._counter = 1
    env['batch_mod'].Batch._counter = 0
    env['resource_mod'].ResourceFile._counter = 0
    env['resource_mod'].ResourceGroup._counter = 0
    env['resource_mod'].PythonResult._counter = 0
    env['tokens'].n = 0
    env['uuid'].n = 0
    env['transfers'].clear()
    env['fs'].files.clear()
    env['fs'].clobbered.clear()
    env['client'].batches.clear()


# ----------------------------------------------------------------------------------------------
# programs
# ----------------------------------------------------------------------------------------------
# A program is {'jobs': [job...], 'rev': bool}.  job = {'type': 'B'|'P', 'out': ..., 'wout': bool,
# 'reads': [[source, form], ...]} ; source = input name | input-group name | index of an earlier job.
#   B out: 'none' | 'file' | 'ext-pre' | 'ext-post' | 'ext-last' | 'group'
#   P out: 'res' | 'str';  optional 'conv': conversions (as_str / as_repr / as_json) requested on the result, 'conv2': a
#          second call() whose result gets these conversions, 'wconv': [[which, conv], ...] conversions written out
#   forms: 'f' (single file)  'g' (whole group)  'a' / 'b' (group member)  'res' (PythonResult)  'str' (its as_str file)
# Extended features (all optional): job['out2'] = 'file' | 'group' gives a bash job a SECOND output (ofile2 / og2);
# a read may be [source, form, which] with which = 0 | 1 selecting the producer's output; the same producer (and the
# same resource) may be read more than once; job['split'] puts the first read in one command() call and the rest in a
# second one; job['dep_first'] issues consumer.depends_on(producer) for every producer it reads BEFORE its command.

CONVS = ('str', 'repr', 'json')
B_OUTS = ('none', 'file', 'ext-pre', 'ext-post', 'ext-last', 'group')
P_OUTS = ('res', 'str')


def out_forms(job, consumer_type):
    """reference forms a consumer of the given type may use on this job's output"""
    if job['type'] == 'B':
        return {'none': (), 'group': ('g', 'a', 'b')}.get(job['out'], ('f',))
    if consumer_type == 'P':
        return ('res',) if job['out'] == 'res' else ('res', 'str')
    return () if job['out'] == 'res' else ('str',)


def norm_reads(job):
    return [(r[0], r[1], r[2] if len(r) > 2 else 0) for r in job['reads']]


def out_kind(job, which):
    return job['out'] if which == 0 else job.get('out2')


def all_refs(p, job, consumer_type):
    """every reference (p, form, which) a consumer of the given type may make to job p's outputs"""
    if job['type'] == 'P':
        return [(p, f, 0) for f in out_forms(job, consumer_type)]
    refs = []
    for which in (0, 1):
        kind = out_kind(job, which)
        if kind in (None, 'none'):
            continue
        refs += [(p, f, which) for f in (('g', 'a', 'b') if kind == 'group' else ('f',))]
    return refs


NAME_SCHEMES = ('default', 'none', 'same-short', 'same-long', 'long-common-prefix', 'collide-after-sanitising')


def job_name(scheme, k):
    """Job names feed the scratch directory of a job's resources (safe_str(name)[:245] + '-' + token)."""
    if scheme == 'default':
        return f'j{k}'                       # short, distinct
    if scheme == 'none':
        return None
    if scheme == 'same-short':
        return 'job'
    if scheme == 'same-long':
        return 'n' * 260                     # identical, longer than the 245-character cap
    if scheme == 'long-common-prefix':
        return 'p' * 245 + str(k) * 15       # 260 characters, equal up to the cap, different after it
    if scheme == 'collide-after-sanitising':
        return ('a b', 'a/b', 'a.b', 'a:b')[k]   # all become a_b
    raise HarnessError(scheme)


class Built:
    pass


def build_and_run(prog):
    """Write the program with the real DSL and submit it through the real ServiceBackend.
    Returns a Built record with everything the oracle needs."""
    env = _env()
    hb = env['hb']
    _reset(env)
    be, fs, client = env['backend'], env['fs'], env['client']
    b = hb.Batch(backend=be, name='c18')
    specs = prog['jobs']
    n = len(specs)
    order = list(range(n))[::-1] if prog.get('rev') else list(range(n))
    jobs = [None] * n
    scheme = prog.get('names', 'default')
    for k in order:
        # the harness recognises submitted jobs by an attribute, so that names are free to vary
        mk = b.new_job if specs[k]['type'] == 'B' else b.new_python_job
        jobs[k] = mk(name=job_name(scheme, k), attributes={'vf': str(k)})

    inputs = {}

    def input_obj(name):
        if name not in inputs:
            if name in INPUTS:
                inputs[name] = b.read_input(INPUTS[name])
            else:
                inputs[name] = b.read_input_group(**INPUT_GROUPS[name])
        return inputs[name]

    outs = {}       # job index -> DSL object of its main output
    templates = {}  # job index -> list of pieces: ('lit', text) | ('ref', key)    (bash jobs)
    pyargs = {}     # job index -> list of keys                                     (python jobs)
    late_ext = []

    def ref_obj(src, form, which=0):
        if isinstance(src, int):
            o = outs[src]
            if isinstance(o, list):
                o = o[which]
            elif which:
                o = o[which]      # python job: the result of its second call
            if form in ('f', 'g'):
                return o
            if form in ('a', 'b'):
                return o[form]
            if form in ('res',) + CONVS:
                return o[form]
            raise HarnessError(form)
        o = input_obj(src)
        if form in ('f', 'g'):
            return o
        return o[form]

    for k, sp in enumerate(specs):
        j = jobs[k]
        reads = norm_reads(sp)
        if sp.get('dep_first'):
            for p in sorted({src for src, _, _ in reads if isinstance(src, int)}):
                j.depends_on(jobs[p])
        if sp['type'] == 'B':
            out = sp['out']
            outs[k] = []
            if out == 'group':
                j.declare_resource_group(og={'a': '{root}.a', 'b': '{root}.b'})
                outs[k].append(j.og)
            elif out != 'none':
                if out == 'ext-pre':
                    j.ofile.add_extension('.txt')
                outs[k].append(j.ofile)
            if sp.get('out2') == 'group':
                j.declare_resource_group(og2={'a': '{root}.a', 'b': '{root}.b'})
                outs[k].append(j.og2)
            elif sp.get('out2') == 'file':
                outs[k].append(j.ofile2)
            elif sp.get('out2') is not None:
                raise HarnessError(sp['out2'])
            groups = [list(enumerate(reads))]
            if sp.get('split') and len(reads) >= 2:
                groups = [[(0, reads[0])], list(enumerate(reads))[1:]]
            templates[k] = []
            for gi, grp in enumerate(groups):
                pieces = [('lit', f"echo MARK{k}c{gi} 'a  b' \"$HOME\" \\; __RESOURCE_FILE__ ${{BATCH_TMPDIR}}/x; cat ")]
                for i, (src, form, which) in grp:
                    pieces.append(('ref', ('read', i)))
                    pieces.append(('lit', f".L{k}_{i}' | ' "))
                if gi == 0:
                    for which in range(len(outs[k])):
                        pieces.append(('lit', '> ' if which == 0 else ' 2> '))
                        pieces.append(('ref', ('out', k, which)))
                pieces.append(('lit', f' # tail{k}c{gi} "__JOB__" done'))
                text = ''
                for kind, v in pieces:
                    if kind == 'lit':
                        text += v
                    elif v[0] == 'out':
                        text += f'{outs[k][v[2]]}'
                    else:
                        text += f'{ref_obj(*reads[v[1]])}'
                j.command(text)
                templates[k].append(pieces)
            if out == 'ext-post':
                j.ofile.add_extension('.txt')
            elif out == 'ext-last':
                late_ext.append(j)
        else:
            args, kwargs = [], {}
            shapes = sp.get('shapes') or ['pos'] * len(reads)
            for i, (src, form, which) in enumerate(reads):
                _shape_arg(shapes[i], ref_obj(src, form, which), args, kwargs, i)
            r = j.call(_pyfn, *args, **kwargs)
            outs[k] = {'res': r}
            for c in sp.get('conv', ['str'] if sp['out'] == 'str' else []):
                outs[k][c] = getattr(r, 'as_' + c)()
            if 'conv2' in sp:
                r2 = j.call(_pyfn, 'CALL2')
                outs[k][1] = {'res': r2}
                for c in sp['conv2']:
                    outs[k][1][c] = getattr(r2, 'as_' + c)()
            pyargs[k] = [('read', i) for i in range(len(reads))]
    for j in late_ext:
        j.ofile.add_extension('.txt')
    for k, sp in enumerate(specs):
        if sp.get('wout'):
            o = outs[k]
            if isinstance(o, dict):
                o = o['str'] if sp['out'] == 'str' else o['res']
            else:
                o = o[0]
            b.write_output(o, f'gs://out/final/w{k}')
        for which, c in sp.get('wconv', ()):
            b.write_output(ref_obj(k, c, which), f'gs://out/final/w{k}_{which}_{c}')

    with contextlib.redirect_stdout(io.StringIO()):
        b.run(wait=False, disable_progress_bar=True)

    if len(client.batches) != 1 or client.batches[0].submitted != 1:
        raise HarnessError('batch was not created/submitted exactly once')
    rec = {}
    for aj in client.batches[0].jobs:
        attrs = aj.kw.get('attributes') or {}
        if 'vf' in attrs:
            if int(attrs['vf']) in rec:
                raise HarnessError(f'two submitted jobs carry the harness id {attrs["vf"]}')
            if attrs.get('name') != job_name(scheme, int(attrs['vf'])):
                raise HarnessError(f'job {attrs["vf"]} submitted under name {attrs.get("name")!r}')
            rec[int(attrs['vf'])] = aj
    if sorted(rec) != list(range(n)):
        raise HarnessError(f'submitted jobs {sorted(rec)} != program jobs {list(range(n))}')
    bt = Built()
    bt.rec, bt.templates, bt.pyargs, bt.transfers = rec, templates, pyargs, list(env['transfers'])
    bt.fs = FakeFS()
    bt.fs.files = dict(fs.files)
    bt.fs.clobbered = set(fs.clobbered)
    bt.all_jobs = client.batches[0].jobs
    return bt


# ----------------------------------------------------------------------------------------------
# oracle
# ----------------------------------------------------------------------------------------------


def _one_word(text, tmpdir):
    """The shell word `text` denotes once ${BATCH_TMPDIR} is expanded; None if it is not exactly one word."""
    expanded = text.replace('${BATCH_TMPDIR}', tmpdir).replace('$BATCH_TMPDIR', tmpdir)
    try:
        words = shlex.split(expanded, posix=True)
    except ValueError:
        return None
    if len(words) != 1:
        return None
    return words[0]


def _match_template(cmd, pieces):
    """Locate the job's command inside the submitted script; returns the substituted texts or None."""
    rx = ''
    for kind, v in pieces:
        rx += re.escape(v) if kind == 'lit' else '(.*?)'
    ms = list(re.finditer(r'(?<=\n)' + rx + r'(?=\n)', cmd, flags=re.S))
    if len(ms) != 1:
        return None
    return list(ms[0].groups())


def _files(lst):
    return [tuple(x) for x in (lst or [])]


def judge(prog, bt):
    """Returns (violations [(signature, message)], stats dict)."""
    specs = prog['jobs']
    n = len(specs)
    viol = []
    stats = {'reads': 0, 'quoted': 0, 'group_reads': 0, 'py_reads': 0, 'staged': 0, 'same_twice': 0, 'two_of_one_producer': 0,
             'conv_written': 0}

    def bad(sig, msg):
        if not any(s == sig for s, _ in viol):
            viol.append((sig, msg))

    if bt.fs.clobbered:
        bad('distinct-resources-share-remote-path', f'the client wrote {sorted(bt.fs.clobbered)} more than once with '
            'different content (files of different jobs uploaded to one location)')
    tmp = {}
    subst = {}     # job -> {key: local path} for bash jobs (from the command), python jobs (from the args file)
    for k in range(n):
        kw = bt.rec[k].kw
        env = kw.get('env') or {}
        tmp[k] = env.get('BATCH_TMPDIR')
        if not tmp[k]:
            raise HarnessError('job submitted without BATCH_TMPDIR')
        command = kw['command']
        if not (isinstance(command, list) and len(command) == 3 and command[1] == '-c'):
            raise HarnessError(f'unexpected command form {command!r}')
        script = command[2]
        subst[k] = {}
        if specs[k]['type'] == 'B':
            reads_k = norm_reads(specs[k])
            for pieces in bt.templates[k]:
                got = _match_template(script, pieces)
                if got is None:
                    bad('command-text-changed', f'job {k}: the submitted script does not contain the command with only its '
                        f'resource references replaced; script={script!r}')
                    continue
                keys = [v for kind, v in pieces if kind == 'ref']
                for key, text in zip(keys, got):
                    if key[0] == 'read' and reads_k[key[1]][0] == 'r2':
                        stats['quoted'] += 1   # a reference whose path contains a space
                    word = _one_word(text, tmp[k])
                    if word is None:
                        bad('reference-not-one-quoted-word', f'job {k}: reference {key} was replaced by {text!r}, which the '
                            'shell does not read as exactly one word')
                        continue
                    subst[k][key] = word
        else:
            # python job: the arguments travel in a serialised file written by the client and downloaded by the job
            arg_files = []
            for src, dst in _files(kw.get('input_files')):
                if src in bt.fs.files:
                    try:
                        obj = pickle.loads(bt.fs.files[src])
                    except Exception:  # noqa: BLE001
                        continue
                    if isinstance(obj, tuple) and len(obj) == 2 and isinstance(obj[0], list) and isinstance(obj[1], dict):
                        if obj[0][:1] == [('value', 'CALL2')]:
                            continue   # the argument file of the job's second call
                        arg_files.append((src, dst, obj))
            if any(src in bt.fs.clobbered for src, _ in _files(kw.get('input_files'))):
                bad('distinct-resources-share-remote-path', f'job {k} downloads {sorted(bt.fs.clobbered)}, which the client '
                    'wrote more than once with different content (files of different jobs uploaded to one location)')
                continue
            if len(arg_files) != 1:
                raise HarnessError(f'python job {k}: expected one argument file among its inputs, found {len(arg_files)}')
            _, arg_dst, (args, kwargs) = arg_files[0]
            if arg_dst not in script.replace('${BATCH_TMPDIR}', tmp[k]):
                bad('python-argument-file-path-mismatch', f'job {k}: argument file is downloaded to {arg_dst} but the '
                    'script does not open that path')
            args, kwargs = list(args), dict(kwargs)
            shapes = specs[k].get('shapes') or ['pos'] * len(bt.pyargs[k])
            for i, key in enumerate(bt.pyargs[k]):
                typ, val = _shape_leaf(shapes[i], args, kwargs, i)
                subst[k][key] = val   # str path, or {'a': path, 'b': path} for a whole group
            if args or kwargs:
                raise HarnessError(f'python job {k}: argument file has extra entries {args} {kwargs}')

    # ---- per read: producer upload == consumer download, parents, local paths -------------------------------
    local_of = {}   # resource identity -> set of local paths seen
    remote_written = {}  # resource identity -> set of remote locations the pipeline writes it to

    def note(res, local=None, remote=None):
        if local is not None:
            local_of.setdefault(res, set()).add(local)
        if remote is not None:
            remote_written.setdefault(res, set()).add(remote)

    def same_basename_group(urls):
        """name of the input group whose members (with equal base names) these URLs are, else None"""
        for g, members in INPUT_GROUPS.items():
            if set(urls) <= set(members.values()) and len(set(urls)) > 1 \
                    and len({u.rsplit('/', 1)[1] for u in urls}) == 1:
                return g
        return None

    def download_source(k, path, what, stale_ok=False):
        """the unique source the consumer k downloads `path` from"""
        ins = _files(bt.rec[k].kw.get('input_files'))
        srcs = [s for s, d in ins if d == path]
        if len(srcs) == 0:
            if stale_ok and any(d == path + '.txt' for s, d in ins):
                bad('command-path-stale-after-add_extension', f'job {k} refers to {what} as {path} (the path at the time '
                    f'of its command) but the file is downloaded to {path}.txt because add_extension was called later')
            else:
                bad('consumer-path-not-downloaded', f'job {k} refers to {what} as {path} but downloads nothing to that '
                    f'path; input_files={ins}')
            return None
        if len(set(srcs)) > 1:
            g = same_basename_group(srcs)
            if g:
                bad('input-group-members-with-same-basename-share-local-path', f'job {k} downloads the members '
                    f'{sorted(set(srcs))} of one input group to the same local path {path}')
            else:
                bad('distinct-resources-share-local-path', f'job {k} downloads {sorted(set(srcs))} to the same local path {path}')
            return None
        return srcs[0]

    def upload_dests(p, path):
        return [d for s, d in _files(bt.rec[p].kw.get('output_files')) if s == path]

    def not_uploaded(p, ppath):
        outs_p = _files(bt.rec[p].kw.get('output_files'))
        if specs[p].get('out') in ('ext-post', 'ext-last') and any(s_ == ppath + '.txt' for s_, d in outs_p):
            bad('command-path-stale-after-add_extension', f'job {p} writes its output to {ppath} (the path at the time of '
                f'its command) but uploads {ppath}.txt because add_extension was called later; output_files={outs_p}')
        else:
            bad('producer-path-not-uploaded', f'job {p} writes its output to {ppath} (per its command) but uploads {outs_p}')

    def producer_member_paths(p, which=0):
        """local paths of one output of producer p, as its own command names them: {form: path}"""
        sp = specs[p]
        if sp['type'] == 'B':
            base = subst[p].get(('out', p, which))
            if base is None:
                return None
            if out_kind(sp, which) == 'group':
                return {'a': base + '.a', 'b': base + '.b'}
            return {'f': base}
        return None  # python producers: located through their uploads (below)

    for k in range(n):
        if k not in subst:
            continue
        seen_reads = set()
        for i, (src, form, which) in enumerate(norm_reads(specs[k])):
            key = ('read', i)
            if key not in subst[k]:
                continue
            stats['reads'] += 1
            if isinstance(src, int):
                if (src, form, which) in seen_reads:
                    stats['same_twice'] += 1
                elif any(s0 == src for s0, _, _ in seen_reads):
                    stats['two_of_one_producer'] += 1
                seen_reads.add((src, form, which))
            if specs[k]['type'] == 'P':
                stats['py_reads'] += 1
            val = subst[k][key]
            # expand to the individual files this reference stands for: [(member, consumer local path)]
            if form == 'g':
                stats['group_reads'] += 1
                if isinstance(val, dict):
                    files = sorted(val.items())
                    if sorted(val) != ['a', 'b']:
                        bad('group-argument-members', f'job {k}: group argument has members {sorted(val)}')
                        continue
                else:
                    files = [('a', val + '.a'), ('b', val + '.b')]
            else:
                files = [(form, val)]
            for member, cpath in files:
                if isinstance(src, int):
                    # ---------- produced by another job
                    res = ('job', src, which, member)
                    note(res, local=cpath)
                    dl = download_source(k, cpath, f'{member} of output {which} of job {src}',
                                         stale_ok=specs[src].get('out') == 'ext-last' and which == 0)
                    prod = bt.rec[src]
                    if specs[src]['type'] == 'B':
                        pm = producer_member_paths(src, which)
                        if pm is None:
                            continue
                        ppath = pm[member]
                        note(res, local=ppath)
                        ups = upload_dests(src, ppath)
                        if not ups:
                            not_uploaded(src, ppath)
                            continue
                    else:
                        # python producer: find the upload whose destination the consumer downloads
                        outs_p = _files(prod.kw.get('output_files'))
                        cand = {s_ for s_, d in outs_p if d == dl}
                        ups = [d for s_, d in outs_p if s_ in cand]
                        pscript = prod.kw['command'][2].replace('${BATCH_TMPDIR}', tmp[src])
                        for s_ in sorted(cand):
                            note(res, local=s_)
                            if s_ not in pscript:
                                bad('producer-path-not-uploaded', f'python job {src} uploads {s_}, a path its script never writes')
                        if dl is not None and not cand:
                            bad('upload-download-location-mismatch', f'job {k} downloads {member} of job {src} from {dl}; '
                                f'job {src} uploads {outs_p}')
                            continue
                    for d in ups:
                        if not d.startswith('gs://out/final/'):
                            note(res, remote=d)
                    if dl is not None and dl not in ups:
                        bad('upload-download-location-mismatch', f'job {k} downloads {member} of job {src} from {dl}; '
                            f'job {src} uploads it to {ups}')
                    parents = bt.rec[k].kw.get('parents') or []
                    if not any(pj is prod for pj in parents):
                        bad('producer-not-a-parent', f'job {k} reads an output of job {src} but is submitted with parents '
                            f'{[getattr(pj, "idx", pj) for pj in parents]}')
                else:
                    # ---------- input file / input group member
                    url = INPUTS[src] if src in INPUTS else INPUT_GROUPS[src][member]
                    res = ('input', src, member)
                    if form == 'g' and not isinstance(val, dict):
                        # whole input group in a bash command: root.<member> must be a symlink, made by the script,
                        # to the downloaded file
                        script = bt.rec[k].kw['command'][2]
                        links = []
                        for line in script.split('\n'):
                            for part in line.split('; '):
                                if part.startswith('ln -sf '):
                                    w = shlex.split(part.replace('${BATCH_TMPDIR}', tmp[k]))
                                    if len(w) == 4:
                                        links.append((w[2], w[3]))
                        tgt = [a for a, b_ in links if b_ == cpath]
                        if len(tgt) != 1:
                            bad('input-group-member-not-linked', f'job {k}: {cpath} is not created by the script '
                                f'(symlinks: {links})')
                            continue
                        note(('link', src, member), local=cpath)
                        cpath = tgt[0]
                    note(res, local=cpath)
                    dl = download_source(k, cpath, f'input {src}.{member}')
                    if dl is None:
                        continue
                    if url.startswith('gs://'):
                        if dl != url:
                            bad('input-downloaded-from-wrong-location', f'job {k} downloads {url} from {dl}')
                    else:
                        stats['staged'] += 1
                        note(('staged', src, member, k), remote=dl)
                        if not any(t.get('from') == url and t.get('to') == dl for t in bt.transfers):
                            bad('upload-download-location-mismatch', f'job {k} downloads local input {url} from {dl} but '
                                f'the client uploads {bt.transfers}')

        # outputs of this job that nobody reads still must be named consistently when they are written out
        if specs[k]['type'] == 'B':
            for which in (0, 1):
                if out_kind(specs[k], which) in (None, 'none'):
                    continue
                pm = producer_member_paths(k, which)
                for member, ppath in (pm or {}).items():
                    note(('job', k, which, member), local=ppath)
                    if which == 0 and specs[k].get('wout') and not upload_dests(k, ppath):
                        not_uploaded(k, ppath)

        # converted PythonResult files that are written out: their local path is the source of the upload to the
        # write_output destination, and the job's script must write that path
        if specs[k]['type'] == 'P':
            pscript = bt.rec[k].kw['command'][2].replace('${BATCH_TMPDIR}', tmp[k])
            for which, c in specs[k].get('wconv', ()):
                dest = f'gs://out/final/w{k}_{which}_{c}'
                for s_, d in _files(bt.rec[k].kw.get('output_files')):
                    if d == dest:
                        stats['conv_written'] += 1
                        note(('job', k, which, c), local=s_)
                        if s_ not in pscript:
                            bad('producer-path-not-uploaded', f'python job {k} uploads {s_} to {dest}, a path its script never writes')

    # ---- distinct resources never share a path -------------------------------------------------------------
    seen = {}
    for res, paths in sorted(local_of.items(), key=repr):
        for p in sorted(paths):
            if p in seen and seen[p] != res:
                o = seen[p]
                if o[0] == res[0] == 'input' and o[1] == res[1] and same_basename_group(list(INPUT_GROUPS.get(o[1], {}).values())):
                    bad('input-group-members-with-same-basename-share-local-path',
                        f'members {o[2]} and {res[2]} of input group {o[1]} both live at {p}')
                else:
                    bad('distinct-resources-share-local-path', f'{o} and {res} both live at {p}')
            seen.setdefault(p, res)
    seen = {}
    for res, paths in sorted(remote_written.items(), key=repr):
        for p in paths:
            if p in seen and seen[p] != res:
                bad('distinct-resources-share-remote-path', f'{seen[p]} and {res} are both written to {p}')
            seen.setdefault(p, res)
    return viol, stats


def run_case(prog):
    try:
        bt = build_and_run(prog)
    except _env()['BatchException'] as e:
        # the DSL refused the program (e.g. a repaired add_extension that refuses late calls): nothing was
        # submitted, so there is nothing to judge
        return [], {'reads': 0, 'quoted': 0, 'group_reads': 0, 'py_reads': 0, 'staged': 0, 'same_twice': 0,
                    'two_of_one_producer': 0, 'conv_written': 0, 'rejected': 1, 'why': str(e)}
    viol, stats = judge(prog, bt)
    stats['rejected'] = 0
    return viol, stats


# ----------------------------------------------------------------------------------------------
# enumeration
# ----------------------------------------------------------------------------------------------

INPUT_REFS_FULL = (None, ('r1', 'f'), ('r2', 'f'), ('loc', 'f'), ('ig', 'g'), ('ig', 'a'), ('igs', 'g'), ('igs', 'b'))


def job_kinds(level):
    kinds = []
    if level == 'full':
        for out in B_OUTS:
            for w in ((False,) if out == 'none' else (False, True)):
                kinds.append(('B', out, w))
        for out in P_OUTS:
            for w in (False, True):
                kinds.append(('P', out, w))
    else:
        kinds = [('B', 'file', False), ('B', 'ext-post', True), ('B', 'group', False), ('P', 'str', False)]
    return kinds


def programs(n, kinds, input_refs, revs):
    """All programs of exactly n jobs: job k has a kind, reads at most one input reference and, from every earlier job,
    at most one reference in any form valid for its type."""
    def rec(prefix):
        k = len(prefix)
        if k == n:
            for rev in revs if n > 1 else (False,):
                yield {'jobs': prefix, 'rev': rev}
            return
        for typ, out, w in kinds:
            per_src = []
            for p in range(k):
                forms = out_forms(prefix[p], typ)
                per_src.append([None] + [(p, f) for f in forms])
            for inp in input_refs:
                for choice in itertools.product(*per_src):
                    reads = [list(c) for c in choice if c is not None]
                    if inp is not None:
                        reads.append(list(inp))
                    yield from rec(prefix + [{'type': typ, 'out': out, 'wout': w, 'reads': reads}])
    yield from rec([])


TWO_OUT_KINDS = [('B', 'file', False, 'file'), ('B', 'file', False, 'group'), ('B', 'group', False, 'group')]


def _k4(kinds):
    return [k if len(k) == 4 else k + (None,) for k in kinds]


def ext_programs(kinds_by_pos, input_refs, revs):
    """Programs with at least one EXTENDED feature (second output, two reads of one producer -- two distinct resources
    or the same one twice --, reads split over two command() calls, depends_on before the read).  From every earlier
    job a consumer takes no reference, one, or an ordered pair of references (all valid forms of both outputs)."""
    n = len(kinds_by_pos)

    def rec(prefix, extended):
        k = len(prefix)
        if k == n:
            if extended:
                for rev in revs if n > 1 else (False,):
                    yield {'jobs': prefix, 'rev': rev}
            return
        for typ, out, w, out2 in _k4(kinds_by_pos[k]):
            per_src = []
            for p in range(k):
                refs = all_refs(p, prefix[p], typ)
                per_src.append([()] + [(r,) for r in refs] + [(r1, r2) for r1 in refs for r2 in refs])
            for inp in input_refs:
                for choice in itertools.product(*per_src):
                    reads = [list(r) for c in choice for r in c]
                    n_job_reads = len(reads)
                    if inp is not None:
                        reads.append(list(inp))
                    pair = any(len(c) == 2 for c in choice)
                    for split in ((False, True) if typ == 'B' and len(reads) >= 2 else (False,)):
                        for dep in ((False, True) if n_job_reads else (False,)):
                            job = {'type': typ, 'out': out, 'wout': w, 'reads': reads}
                            if out2:
                                job['out2'] = out2
                            if split:
                                job['split'] = True
                            if dep:
                                job['dep_first'] = True
                            yield from rec(prefix + [job], extended or pair or split or dep or bool(out2))
    yield from rec([], False)


def plan(tier):
    full = job_kinds('full')
    red = job_kinds('reduced')
    cons = [('B', 'none', False), ('B', 'file', False), ('P', 'res', False)]
    quick = tier == 'quick'
    base3 = red if quick else full
    pl = [
        {'gen': 'base', 'n': 1, 'args': (1, full, INPUT_REFS_FULL, (False,)), 'shards': 1,
         'what': 'n=1: all job kinds x all input references'},
        {'gen': 'base', 'n': 2, 'args': (2, full, INPUT_REFS_FULL, (False, True)), 'shards': 16,
         'what': 'n=2: all job kinds x all input references x all single reads x both creation orders'},
        {'gen': 'base', 'n': 3, 'args': (3, base3, (None, ('r2', 'f')), (False, True)), 'shards': 64,
         'what': ('n=3: 4 job kinds (bash file, bash ext-after-command+write_output, bash group, python str)' if quick
                  else 'n=3: all job kinds') + ' x {no input, quoted input} x all single reads x both creation orders'},
    ]
    if quick:
        pl += [
            {'gen': 'ext', 'n': 2, 'args': ([full + TWO_OUT_KINDS, cons], (None,), (False, True)), 'shards': 16,
             'what': 'extended n=2: producer = any job kind or a two-output bash job (file+file, file+group, group+group); '
                     'consumer = bash without output / bash file / python; reads = none, one, or an ORDERED PAIR of references '
                     '(all forms of both outputs, incl. the same one twice) x split over two command() calls x depends_on '
                     'before the read x both creation orders'},
            {'gen': 'ext', 'n': 3, 'args': ([TWO_OUT_KINDS, [('B', 'file', False)], [('B', 'none', False), ('P', 'res', False)]],
                                            (None,), (False,)), 'shards': 32,
             'what': 'extended n=3: two-output producer -> bash file job -> bash/python consumer, every job taking none / one / '
                     'an ordered pair of references from every earlier job x split x depends_on-first'},
        ]
    else:
        pl += [
            {'gen': 'ext', 'n': 2, 'args': ([full + TWO_OUT_KINDS, full], (None, ('r2', 'f')), (False, True)), 'shards': 32,
             'what': 'extended n=2: producer = any job kind or a two-output bash job; consumer = any job kind; {no input, '
                     'quoted input}; reads = none, one, or an ORDERED PAIR of references (all forms of both outputs, incl. the '
                     'same one twice) x split over two command() calls x depends_on before the read x both creation orders'},
            {'gen': 'ext', 'n': 3, 'args': ([TWO_OUT_KINDS + [('P', 'str', False)], TWO_OUT_KINDS[:2] + [('B', 'file', False), ('P', 'str', False)],
                                             [('B', 'none', False), ('P', 'res', False)]], (None,), (False,)), 'shards': 128,
             'what': 'extended n=3: {two-output bash kinds, python str} -> {file+file, file+group, bash file, python str} -> '
                     '{bash, python} consumer, every job taking none / one / an ordered pair of references from every earlier '
                     'job x split x depends_on-first'},
        ]
    # python argument shapes: every way of handing a resource to PythonJob.call
    prod = [('B', 'file', False), ('B', 'group', False), ('P', 'str', False)]
    pl.append({'gen': 'shapes', 'n': 3, 'args': (prod, quick), 'shards': 16 if quick else 64,
               'what': 'python argument shapes ' + str(list(PY_SHAPES)) + ': producer in {bash file, bash group, python str} -> '
                       'python consumer reading one reference (every form) in every shape, both creation orders; and two '
                       'producers -> python consumer reading one reference from each, every pair of shapes'
                       + ('' if quick else ', both creation orders')})
    pl.append({'gen': 'conv', 'n': 3, 'args': (quick,), 'shards': 4,
               'what': 'PythonResult conversions: every subset (>= 2) of {as_str, as_repr, as_json} on ONE result, each conversion '
                       'consumed (by one bash job / one python job / split commands / one bash job each), written with '
                       'write_output, or both; every pair of non-empty conversion sets on two results of one job and on the '
                       'results of two jobs, all consumed by one bash job'})
    # job naming: names feed the scratch directory of every job resource, so every naming scheme is crossed with a
    # thinned program space in which all producers use the same resource identifiers (ofile / og / result1)
    named2 = (2, full, (None,), (False,))
    named3 = (3, red, (None,), (False,)) if quick else (3, red, (None, ('r2', 'f')), (False, True))
    for scheme in NAME_SCHEMES[1:]:
        pl.append({'gen': 'named', 'n': 3, 'scheme': scheme, 'args': [named2, named3], 'shards': 8 if quick else 32,
                   'what': f'job names "{scheme}": n=2 all job kinds + n=3 4 job kinds, all single reads'
                           + ('' if quick else ', {no input, quoted input}, both creation orders')})
    return pl


def shape_programs(prod, quick):
    cons = {'type': 'P', 'out': 'res', 'wout': False}
    for typ, out, w in prod:
        p0 = {'type': typ, 'out': out, 'wout': w, 'reads': []}
        for ref in all_refs(0, p0, 'P'):
            for sh in PY_SHAPES:
                for rev in (False, True):
                    yield {'jobs': [p0, dict(cons, reads=[list(ref)], shapes=[sh])], 'rev': rev}
    for k0 in prod:
        for k1 in prod:
            p0 = {'type': k0[0], 'out': k0[1], 'wout': False, 'reads': []}
            p1 = {'type': k1[0], 'out': k1[1], 'wout': False, 'reads': []}
            for r0 in all_refs(0, p0, 'P'):
                for r1 in all_refs(1, p1, 'P'):
                    for s0 in PY_SHAPES:
                        for s1 in PY_SHAPES:
                            for rev in ((False,) if quick else (False, True)):
                                yield {'jobs': [p0, p1, dict(cons, reads=[list(r0), list(r1)], shapes=[s0, s1])], 'rev': rev}


def _subsets(xs, lo):
    return [list(c) for r in range(lo, len(xs) + 1) for c in itertools.combinations(xs, r)]


def conv_programs(quick):
    """Several conversions (as_str / as_repr / as_json) of PythonResults in one batch."""
    # (a) every subset (size >= 2) of conversions of ONE result; every conversion is consumed, written out, or both
    for S in _subsets(CONVS, 2):
        for uses in itertools.product(('read', 'write', 'both'), repeat=len(S)):
            rd = [c for c, u in zip(S, uses) if u in ('read', 'both')]
            wr = [[0, c] for c, u in zip(S, uses) if u in ('write', 'both')]
            p0 = {'type': 'P', 'out': 'res', 'wout': False, 'reads': [], 'conv': S, 'wconv': wr}
            if not rd:
                yield {'jobs': [p0], 'rev': False}
                continue
            for ctype in ('B', 'P'):
                cons = {'type': ctype, 'out': 'none' if ctype == 'B' else 'res', 'wout': False}
                for rev in (False, True):
                    yield {'jobs': [p0, dict(cons, reads=[[0, c, 0] for c in rd])], 'rev': rev}
                    if len(rd) >= 2 and ctype == 'B':
                        yield {'jobs': [p0, dict(cons, reads=[[0, c, 0] for c in rd], split=True)], 'rev': rev}
            if len(rd) >= 2:   # one bash consumer per conversion
                yield {'jobs': [p0] + [{'type': 'B', 'out': 'none', 'wout': False, 'reads': [[0, c, 0]]} for c in rd[:2]],
                       'rev': False}
    # (b) two results of the same job, (c) results of two jobs: every pair of non-empty conversion sets, all consumed by
    # one bash job
    for S1 in _subsets(CONVS, 1):
        for S2 in _subsets(CONVS, 1):
            cons = {'type': 'B', 'out': 'none', 'wout': False}
            p = {'type': 'P', 'out': 'res', 'wout': False, 'reads': [], 'conv': S1, 'conv2': S2}
            yield {'jobs': [p, dict(cons, reads=[[0, c, 0] for c in S1] + [[0, c, 1] for c in S2])], 'rev': False}
            if not quick:
                yield {'jobs': [dict(p, wconv=[[0, S1[0]], [1, S2[0]]]), dict(cons, reads=[[0, c, 0] for c in S1[1:]] + [[0, c, 1] for c in S2])],
                       'rev': True}
            pa = {'type': 'P', 'out': 'res', 'wout': False, 'reads': [], 'conv': S1}
            pb = {'type': 'P', 'out': 'res', 'wout': False, 'reads': [], 'conv': S2}
            yield {'jobs': [pa, pb, dict(cons, reads=[[0, c, 0] for c in S1] + [[1, c, 0] for c in S2])], 'rev': False}


def plan_programs(entry):
    if entry['gen'] == 'base':
        return programs(*entry['args'])
    if entry['gen'] == 'conv':
        return conv_programs(*entry['args'])
    if entry['gen'] == 'shapes':
        return shape_programs(*entry['args'])
    if entry['gen'] == 'named':
        def gen():
            for a in entry['args']:
                for prog in programs(*a):
                    prog['names'] = entry['scheme']
                    yield prog
        return gen()
    return ext_programs(*entry['args'])


_OUT_RANK = {o: i for i, o in enumerate(('none', 'file', 'res', 'str', 'group', 'ext-pre', 'ext-post', 'ext-last'))}


def prog_key(prog):
    jobs = prog['jobs']
    return (len(jobs), NAME_SCHEMES.index(prog.get('names', 'default')), sum(len(j['reads']) for j in jobs),
            sum(bool(j['wout']) for j in jobs),
            sum(bool(j.get('out2')) + bool(j.get('split')) + bool(j.get('dep_first')) for j in jobs), bool(prog.get('rev')),
            tuple((j['type'], _OUT_RANK[j['out']]) for j in jobs), repr(prog))


def _work(item):
    tier, pi, shard, nshards = item
    entry = plan(tier)[pi]
    res = {'evals': 0, 'viol': {}, 'reads': 0, 'quoted': 0, 'group_reads': 0, 'py_reads': 0, 'staged': 0,
           'same_twice': 0, 'two_of_one_producer': 0, 'dep_first': 0, 'split': 0,
           'with_read': 0, 'rejected': 0, 'samples': [], 'ext': entry['gen'] != 'base', 'named': 0, 'shaped': 0, 'multi_conv': 0, 'conv_written': 0}
    for i, prog in enumerate(plan_programs(entry)):
        if i % nshards != shard:
            continue
        viol, stats = run_case(prog)
        res['evals'] += 1
        for k in ('reads', 'quoted', 'group_reads', 'py_reads', 'staged', 'rejected', 'same_twice', 'two_of_one_producer',
                  'conv_written'):
            res[k] += stats[k]
        if stats['rejected']:
            continue
        res['multi_conv'] += any(len(j.get('conv', ())) + len(j.get('conv2', ())) >= 2 for j in prog['jobs'])
        res['named'] += prog.get('names', 'default') != 'default'
        res['shaped'] += sum(sh != 'pos' for j in prog['jobs'] for sh in j.get('shapes', ()))
        res['dep_first'] += any(j.get('dep_first') for j in prog['jobs'])
        res['split'] += any(j.get('split') for j in prog['jobs'])
        if any(isinstance(r[0], int) for j in prog['jobs'] for r in j['reads']):
            res['with_read'] += 1
            if len(res['samples']) < 1:
                res['samples'].append(prog)
        for sig, msg in viol:
            old = res['viol'].get(sig)
            if old is None or prog_key(prog) < old[0]:
                res['viol'][sig] = (prog_key(prog), msg, prog)
    res['viol'] = list(res['viol'].items())
    return res


def check(tier, seed, procs):
    warnings.simplefilter('ignore')
    pl = plan(tier)
    items = []
    for pi, entry in enumerate(pl):
        items += [(tier, pi, s, entry['shards']) for s in range(entry['shards'])]
    rows = par.pmap(_work, par.rotate(items, seed), procs, chunksize=1)
    keys = ('evals', 'reads', 'quoted', 'group_reads', 'py_reads', 'staged', 'with_read', 'rejected', 'same_twice',
            'two_of_one_producer', 'dep_first', 'split', 'named', 'shaped', 'multi_conv', 'conv_written')
    tot = {k: sum(r[k] for r in rows) for k in keys}
    best = {}
    for r in rows:
        for sig, (key, msg, prog) in r['viol']:
            if sig not in best or key < best[sig][0]:
                best[sig] = (key, msg, prog)
    violations = [{'signature': sig, 'message': f'{msg}; program={prog}', 'replay': prog}
                  for sig, (key, msg, prog) in sorted(best.items(), key=lambda kv: kv[1][0])]
    samples = sorted((s for r in rows if not r['ext'] for s in r['samples']), key=prog_key)
    samples = samples[:: max(1, len(samples) // 2)][:2]
    xs = sorted((s for r in rows if r['ext'] for s in r['samples']), key=prog_key)
    samples += xs[:: max(1, len(xs) // 2)][:2]
    cov = {
        'evaluations': tot['evals'],
        'distinct_nontrivial': tot['with_read'],
        'rule': 'distinct programs in which at least one job reads a resource produced by another job',
        'samples': samples,
        'exhaustive': True,
        'bounds': '; '.join(e['what'] for e in pl) + '. job kinds: bash {no output, file, file+add_extension before/after its '
                  'command/after all commands, resource group with 2 extensions} x write_output, python {result, result+as_str} '
                  'x write_output; a job reads <=1 input reference (remote file, remote file needing quoting, local file, '
                  'input group whole/member, input group whose members share a base name) and, in the non-extended blocks, <=1 '
                  'reference (every valid form: file, whole group, member, PythonResult, as_str file) from each earlier job',
        'resource_reads_checked': tot['reads'],
        'bash_reads_of_a_path_that_needs_quoting': tot['quoted'],
        'whole_group_reads': tot['group_reads'],
        'reads_by_python_jobs': tot['py_reads'],
        'local_inputs_staged_by_client': tot['staged'],
        'programs_refused_by_the_dsl': tot['rejected'],
        'reads_of_a_second_distinct_resource_of_the_same_producer': tot['two_of_one_producer'],
        'reads_of_the_same_resource_again': tot['same_twice'],
        'programs_with_depends_on_before_the_read': tot['dep_first'],
        'programs_with_reads_split_over_two_commands': tot['split'],
        'programs_with_non_default_job_names': tot['named'],
        'python_reads_in_a_non_positional_shape': tot['shaped'],
        'programs_with_several_conversions_of_python_results': tot['multi_conv'],
        'converted_result_files_written_with_write_output': tot['conv_written'],
        'job_naming_schemes': list(NAME_SCHEMES),
    }
    vac = None
    for k in ('reads', 'quoted', 'group_reads', 'py_reads', 'staged', 'with_read', 'same_twice', 'two_of_one_producer',
              'dep_first', 'split', 'named', 'shaped', 'multi_conv', 'conv_written'):
        if tot[k] == 0:
            vac = f'counter {k} is zero'
    return {
        'coverage': cov,
        'violations': violations,
        'assumptions': [
            'real hailtop.batch DSL, Batch._async_run and ServiceBackend._async_run; ServiceBackend is constructed without '
            '__init__ (no network): fake recording batch client, in-memory async FS, recording copy_from_dict, no-op '
            'rich progress bars, wait=False',
            'random names (secret_alnum_string in batch.py, uuid4 in backend.py) are replaced by deterministic generators of '
            'DISTINCT values: accidental collisions of random tokens are not part of the explored space',
            'Job.__hash__ pinned to creation number so set iteration order is reproducible',
            'functional shim: dill -> pickle (argument files are read back by the harness); inert: rich, cloud SDKs',
            'resource names are Python identifiers (attribute syntax); each input URL is read at most once per batch',
            'submitted jobs are recognised by a harness attribute ({"vf": index}); job attributes do not feed any path, job '
            'names do (scratch directory) and are enumerated: unnamed, short distinct, identical short, identical 260-char, '
            '260-char names equal in their first 245 characters, names that collide after sanitising',
            'a reference replaced by one shell word is judged after expanding ${BATCH_TMPDIR} to the BATCH_TMPDIR the job is '
            'submitted with',
            'commands up to 10 KiB (inline scripts); the code-upload path for larger commands is not enumerated',
        ],
        'vacuous': vac,
    }


def replay(obj):
    warnings.simplefilter('ignore')
    viol, stats = run_case(obj)
    if viol:
        return False, '; '.join(f'{s}: {m}' for s, m in viol)
    return True, f'no violation ({stats})'
