"""C15  Stored job specs and region sets round-trip.

Part 1: job specs assembled from the facets of the front end's own ``job_validator`` (every one is
first passed through the real ``validate_and_clean_jobs``), brought to the shape they have when
``_create_jobs`` calls ``db_spec`` (server-side additions to ``secrets`` and ``resources``), then
for every format version 1..BATCH_FORMAT_VERSION:  ``json.loads(json.dumps(db_spec(spec)))`` is read
back with the real ``get_spec_*`` and compared facet by facet with the specification.

Part 2: ``regions_bits_rep_to_regions(regions_to_bits_rep(S, m), m) == S`` for region tables m of up
to 63 regions (ids as the auto-increment column gives them, several table shapes) and every
non-empty subset S for small tables / every single, pair and complement for large ones, and the
bit set must fit MySQL's signed BIGINT column.
"""
import copy
import itertools
import json

from vf import par

NEEDS_SERVICES = True

U1 = {'namespace': 'default', 'name': 'user-secret-1', 'mount_path': '/s1'}
U2 = {'namespace': 'ns2', 'name': 'user-secret-2', 'mount_path': '/s2'}
U3 = {'namespace': 'default', 'name': 'x', 'mount_path': ''}
SA = {'namespace': 'default', 'name': 'my-sa'}
FILE = {'from': 'gs://b/x', 'to': '/io/x'}
FILE2 = {'from': '/io/y', 'to': 'gs://b/y'}


# ----------------------------------------------------------------------------- specs

def user_specs(tier):
    """(description, user-level job spec) for every facet combination; smallest first."""
    secrets_opts = [None, [], [U1], [U1, U2]]
    files_opts = [None, [], [FILE]]
    if tier != 'quick':
        secrets_opts += [[U3], [U2, U1], [U1, U2, U3]]
        files_opts += [[FILE, FILE2]]
    machine_opts = [None]
    for mt in (('n1-standard-1', 'n1-highmem-8') if tier == 'quick' else ('n1-standard-1', 'n1-highmem-8', 'g2-standard-4', 'n1-highcpu-96')):
        for pre in (None, True, False):
            for storage in (None, '10Gi', '375G'):
                machine_opts.append((mt, pre, storage))
    plain_res = [None, {}, {'cpu': '1', 'memory': 'standard', 'storage': '5Gi', 'preemptible': False}]
    out = []
    for secrets, sa, inp, outp, machine in itertools.product(secrets_opts, (None, SA), files_opts, files_opts, machine_opts):
        for res in (plain_res if machine is None else [None]):
            for mount_tokens in ((False, True) if machine is None and inp is None and outp is None else (False,)):
                spec = {'job_id': 1, 'process': {'type': 'docker', 'command': ['true'], 'image': 'ubuntu'}}
                if secrets is not None:
                    spec['secrets'] = copy.deepcopy(secrets)
                if sa is not None:
                    spec['service_account'] = dict(sa)
                if inp is not None:
                    spec['input_files'] = copy.deepcopy(inp)
                if outp is not None:
                    spec['output_files'] = copy.deepcopy(outp)
                if machine is not None:
                    mt, pre, storage = machine
                    r = {'machine_type': mt}
                    if pre is not None:
                        r['preemptible'] = pre
                    if storage is not None:
                        r['storage'] = storage
                    spec['resources'] = r
                elif res is not None:
                    spec['resources'] = dict(res)
                if mount_tokens:
                    spec['mount_tokens'] = True
                out.append(spec)
    return out


def server_side(spec, terra):
    """The spec as it is when _create_jobs hands it to db_spec (only the parts db_spec may read):
    resources rewritten (req_* and the granted amounts added), secrets extended by the service."""
    from hailtop.batch_client.parse import parse_storage_in_bytes

    spec = copy.deepcopy(spec)
    resources = spec.get('resources')
    if not resources:
        resources = {}
        spec['resources'] = resources
    machine_type = resources.get('machine_type')
    preemptible = resources.get('preemptible', True)
    if machine_type is None:
        resources['req_cpu'] = resources.pop('cpu', '1')
        resources['req_memory'] = resources.pop('memory', 'standard')
    resources['req_storage'] = resources.pop('storage', '0Gi')
    b = parse_storage_in_bytes(resources['req_storage'])
    if b is None:
        raise RuntimeError('storage string of the harness not parsable')
    resources['cores_mcpu'] = 1000
    resources['memory_bytes'] = 3 * 1024**3
    resources['storage_gib'] = max(10, -(-b // 1024**3)) if machine_type else -(-b // 1024**3)
    resources['preemptible'] = preemptible
    secrets = spec.get('secrets') or []
    spec['secrets'] = secrets
    if not terra:
        secrets.append({'namespace': 'default', 'name': 'u1-gsa-key', 'mount_path': '/gsa-key', 'mount_in_copy': True})
    if spec.get('mount_tokens', False):
        secrets.append({'namespace': 'default', 'name': 'u1-tokens', 'mount_path': '/user-tokens', 'mount_in_copy': False})
        secrets.append({'namespace': 'default', 'name': 'ssl-config-batch-user-code', 'mount_path': '/ssl-config',
                        'mount_in_copy': False})
    return spec


def _norm_secrets(x):
    return [(s['namespace'], s['name'], s['mount_path'], bool(s.get('mount_in_copy', False))) for s in (x or [])]


def expected_facets(spec):
    res = spec.get('resources') or {}
    machine = None
    if res.get('machine_type'):
        machine = {'machine_type': res['machine_type'], 'preemptible': bool(res['preemptible']), 'storage_gib': res['storage_gib']}
    sa = spec.get('service_account')
    return {
        'secrets': _norm_secrets(spec.get('secrets')),
        'service_account': {'namespace': sa['namespace'], 'name': sa['name']} if sa else None,
        'has_input_files': len(spec.get('input_files') or []) > 0,
        'has_output_files': len(spec.get('output_files') or []) > 0,
        'machine_spec': machine,
    }


def roundtrip(spec, version):
    """Returns (facets read back, stored json text)."""
    from batch.batch_format_version import BatchFormatVersion

    bfv = BatchFormatVersion(version)
    stored = json.dumps(bfv.db_spec(copy.deepcopy(spec)))
    bfv2 = BatchFormatVersion(version)

    def load():
        return json.loads(stored)

    sa = bfv2.get_spec_service_account(load())
    m = bfv2.get_spec_machine_spec(load())
    got = {
        'secrets': _norm_secrets(bfv2.get_spec_secrets(load())),
        'service_account': {'namespace': sa['namespace'], 'name': sa['name']} if sa else None,
        'has_input_files': bfv2.get_spec_has_input_files(load()),
        'has_output_files': bfv2.get_spec_has_output_files(load()),
        'machine_spec': ({'machine_type': m['machine_type'], 'preemptible': m['preemptible'], 'storage_gib': m['storage_gib']}
                         if m else None),
    }
    return got, stored


def judge_spec(spec, version):
    exp = expected_facets(spec)
    try:
        got, stored = roundtrip(spec, version)
    except Exception as e:  # noqa: BLE001
        return [(f'raised@v{version}', f'{type(e).__name__}: {e}')], None
    v = []
    for facet in ('secrets', 'service_account', 'has_input_files', 'has_output_files', 'machine_spec'):
        a, b = exp[facet], got[facet]
        same = (a == b) and (type(a) is type(b) or facet in ('secrets',))
        if not same:
            v.append((f'{facet}@v{version}', f'{facet} of the specification {a!r} read back from the stored form as {b!r}'))
    return v, stored


def _size(spec):
    return len(json.dumps(spec))


def _spec_chunk(arg):
    tier, lo, hi, max_version = arg
    from batch.front_end.validate import validate_and_clean_jobs

    specs = user_specs(tier)[lo:hi]
    viol = {}
    stored_forms = set()
    n = 0
    facet_hits = {'machine_spec': 0, 'secrets_user': 0, 'service_account': 0, 'input': 0, 'output': 0}
    sample = None
    for us in specs:
        cleaned = copy.deepcopy(us)
        validate_and_clean_jobs([cleaned])  # raises if the harness left the accepted language
        for terra in (False, True):
            spec = server_side(cleaned, terra)
            exp = expected_facets(spec)
            facet_hits['machine_spec'] += exp['machine_spec'] is not None
            facet_hits['secrets_user'] += len(us.get('secrets') or []) > 0
            facet_hits['service_account'] += exp['service_account'] is not None
            facet_hits['input'] += exp['has_input_files']
            facet_hits['output'] += exp['has_output_files']
            for version in range(1, max_version + 1):
                n += 1
                vs, stored = judge_spec(spec, version)
                if stored is not None and version > 1:
                    stored_forms.add((version >= 5, stored))
                for sig, msg in vs:
                    key = (_size(us), terra, json.dumps(us, sort_keys=True))
                    if sig not in viol or key < viol[sig][0]:
                        viol[sig] = (key, f'format version {version}, spec {json.dumps(us, sort_keys=True)}'
                                          f'{" (terra: no credentials secret)" if terra else ""}: {msg}',
                                     {'kind': 'spec', 'spec': us, 'terra': terra, 'version': version})
                if sample is None and not vs and exp['machine_spec'] and version == max_version and len(exp['secrets']) > 1:
                    sample = {'spec': us, 'version': version, 'stored': stored}
    return n, stored_forms, viol, facet_hits, sample


# ----------------------------------------------------------------------------- regions

def region_tables(tier):
    """name -> id tables: ids are 1-based auto-increment values, at most 63 regions."""
    small = 10 if tier == "quick" else 16
    tables = []
    for n in range(1, small + 1):
        tables.append(('all-subsets', {f'r{i}': i for i in range(1, n + 1)}))
    tables.append(('all-subsets', {f'r{i}': i for i in (8, 3, 5, 1, 2)}))            # table order != id order
    tables.append(('all-subsets', {f'r{i}': i for i in (2, 5, 11, 32, 33, 62, 63)}))  # gaps in the ids
    for n in (31, 32, 33, 62, 63):
        tables.append(('pairs', {f'r{i}': i for i in range(1, n + 1)}))
    tables.append(('pairs', {f'r{i}': i for i in range(63, 0, -1)}))
    return tables


def region_subsets(kind, names):
    n = len(names)
    if kind == 'all-subsets':
        for k in range(1, n + 1):
            yield from itertools.combinations(names, k)
        return
    seen = set()
    for k in (1, 2):
        for c in itertools.combinations(names, k):
            for s in (c, tuple(x for x in names if x not in c)):
                if s and s not in seen:
                    seen.add(s)
                    yield s
    if tuple(names) not in seen:
        yield tuple(names)


def judge_regions(selected, table):
    from batch.utils import regions_bits_rep_to_regions, regions_to_bits_rep

    try:
        bits = regions_to_bits_rep(list(selected), dict(table))
        back = regions_bits_rep_to_regions(json.loads(json.dumps(bits)), dict(table))
    except Exception as e:  # noqa: BLE001
        return [('regions-raised', f'{type(e).__name__}: {e}')]
    v = []
    if not isinstance(bits, int) or isinstance(bits, bool) or not 0 <= bits < 2**63:
        v.append(('regions-bitset-outside-signed-bigint', f'bit set {bits!r}'))
    if back is None or sorted(back) != sorted(set(selected)):
        v.append(('regions-not-recovered', f'selected {list(selected)} stored as {bits} read back as {back}'))
    return v


def _region_chunk(arg):
    kind, items = arg
    table = dict(items)
    names = list(table)
    n = 0
    viol = {}
    bitsets = set()
    for s in region_subsets(kind, names):
        n += 1
        # a job's `regions` is a list the validator does not de-duplicate: also name a region twice
        orders = [s] if len(s) < 2 else [s, tuple(reversed(s))]
        orders.append(tuple(s) + (s[0],))
        if len(s) > 1:
            orders.append((s[-1],) + tuple(s) + (s[-1],))
        for order in orders:
            for sig, msg in judge_regions(order, table):
                key = (len(table), len(order), [table[x] for x in order])
                if sig not in viol or key < viol[sig][0]:
                    viol[sig] = (key, f'region table {table}: {msg}', {'kind': 'regions', 'table': items, 'selected': list(order)})
        bitsets.add((len(table), frozenset(table[x] for x in s)))
    return n, len(bitsets), viol, max(table.values())


# ----------------------------------------------------------------------------- driver

def check(tier, seed, procs):
    from batch.globals import BATCH_FORMAT_VERSION

    n_specs = len(user_specs(tier))
    step = max(1, n_specs // 64)
    items = [(tier, lo, min(lo + step, n_specs), BATCH_FORMAT_VERSION) for lo in range(0, n_specs, step)]
    rows = par.pmap(_spec_chunk, par.rotate(items, seed), procs, chunksize=1)
    n_eval = sum(r[0] for r in rows)
    forms = set().union(*[r[1] for r in rows])
    hits = {}
    for r in rows:
        for k, x in r[3].items():
            hits[k] = hits.get(k, 0) + x
    viol = {}
    for r in rows:
        for sig, t in r[2].items():
            if sig not in viol or t[0] < viol[sig][0]:
                viol[sig] = t
    samples = sorted([r[4] for r in rows if r[4]], key=lambda s: len(json.dumps(s)))[:2]

    ritems = [(kind, list(t.items())) for kind, t in region_tables(tier)]
    rrows = par.pmap(_region_chunk, par.rotate(ritems, seed), procs, chunksize=1)
    n_reg = sum(r[0] for r in rrows)
    n_bitsets = sum(r[1] for r in rrows)
    rviol = {}
    for r in rrows:
        for sig, t in r[2].items():
            if sig not in rviol or t[0] < rviol[sig][0]:
                rviol[sig] = t
    top_id = max(r[3] for r in rrows)
    samples.append({'regions': {'r1': 1, 'r2': 2, 'r63': 63}, 'selected': ['r2', 'r63'], 'bits': (1 << 1) | (1 << 62)})

    violations = [{'signature': sig, 'message': msg, 'replay': rp}
                  for sig, (key, msg, rp) in sorted(viol.items(), key=lambda kv: (kv[1][0], kv[0]))]
    violations += [{'signature': sig, 'message': msg, 'replay': rp}
                   for sig, (key, msg, rp) in sorted(rviol.items(), key=lambda kv: (kv[1][0], kv[0]))]
    cov = {
        'evaluations': n_eval + n_reg,
        'distinct_nontrivial': len(forms) + n_bitsets,
        'rule': 'distinct compact stored forms (JSON text, format versions >= 2, counted separately for the 4- and 5-field '
                'layouts) plus distinct (table size, non-empty set of region ids) pairs',
        'samples': samples,
        'exhaustive': True,
        'bounds': f'specs: secrets 0-{2 if tier == "quick" else 3} user entries (+ service-added ones with mount_in_copy), service '
                  f'account absent/present, input/output files absent/[]/non-empty, machine type absent or present x preemptible '
                  f'absent/true/false x storage absent/10Gi/375G, with and without the credentials secret, mount_tokens; '
                  f'format versions 1..{BATCH_FORMAT_VERSION}; regions: every non-empty subset of tables of 1..'
                  f'{10 if tier == "quick" else 16} regions and of two irregular tables, every single/pair/complement/full '
                  f'set of tables of 31, 32, 33, 62, 63 regions (ids up to {top_id})',
        'spec_evaluations': n_eval,
        'user_specs': n_specs,
        'distinct_stored_forms': len(forms),
        'region_evaluations': n_reg,
        'specs_with_machine_spec': hits['machine_spec'],
        'specs_with_user_secrets': hits['secrets_user'],
        'specs_with_service_account': hits['service_account'],
        'specs_with_input_files': hits['input'],
        'specs_with_output_files': hits['output'],
        'highest_region_id': top_id,
    }
    vac = None
    if min(hits.values()) == 0 or top_id != 63 or len(forms) < 10:
        vac = f'a facet was never present: {hits}, top region id {top_id}, stored forms {len(forms)}'
    return {
        'coverage': cov,
        'violations': violations,
        'assumptions': [
            'every enumerated user spec is accepted by the real validate_and_clean_jobs; the service-side rewriting between '
            'validation and db_spec (req_* renames, granted amounts, credential / token secrets) is re-stated by the harness',
            '"the same secrets" is judged up to the representation of absence: a missing mount_in_copy means false (as the '
            'worker reads it) and an empty secret list / absent service account may come back as None',
            'the database stores the compact form as JSON text (json.dumps / json.loads, as _create_jobs and job_config do)',
            'region ids are the 1-based auto-increment ids of the regions table; at most 63 regions; empty selections are '
            'rejected by the front end and are not enumerated',
        ],
        'vacuous': vac,
    }


def replay(obj):
    if obj['kind'] == 'regions':
        vs = judge_regions(tuple(obj['selected']), dict((k, v) for k, v in obj['table']))
        return (not vs), (f'{vs[0][0]}: {vs[0][1]}' if vs else 'no violation')
    from batch.front_end.validate import validate_and_clean_jobs

    cleaned = copy.deepcopy(obj['spec'])
    validate_and_clean_jobs([cleaned])
    vs, stored = judge_spec(server_side(cleaned, obj['terra']), obj['version'])
    return (not vs), (f'{vs[0][0]}: {vs[0][1]}; stored {stored}' if vs else f'no violation; stored {stored}')
