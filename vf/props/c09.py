"""C09  Submission is idempotent under client retries.

The REAL client (hailtop.batch_client.aioclient BatchClient / Batch / JobGroup / Job and Batch.submit(), on top
of the real hailtop Session with its real retry_transient_errors layer) talks to the REAL front-end handlers
(batch.front_end.front_end.routes) through an in-process transport over a BatchWorld (real SQL on minisql).

Enumerated, exhaustively per scenario: a submission issues requests r1..rk (recorded on a fault-free run).
Every vector in {N, I, L, D}^k is executed:
  N  delivered once;
  I  delivered, the response is lost (ServerDisconnectedError) and the real retry layer re-sends the identical
     request (the duplicate lands right after the original; for the concurrently sent job bunches right after
     the bunches already in flight) - the client sees the answer to the re-sent request;
  L  delivered, answered, and delivered once more after all later requests of the submission (late copy, its
     answer is not seen by anybody);
  D  delivered twice back to back (a re-send that overtakes nothing, also for the concurrently sent job bunches);
     the client acts on the second answer if it is a success, otherwise on the first.
Crossed with: nothing, or a second client's update to the same batch (same user, own token, real client, fast
path) issued at every request boundary and at every transaction boundary inside the original deliveries
(before each connection acquisition of the handler; {N, I, L} vectors there).

Oracle (from the statement; differential where possible):
  * one batches row per batch token, one batch_updates row per update token;
  * no job stored twice (markers in job attributes), job counts as submitted;
  * counters / tallies recomputed from the raw tables (batchfamily.check_c01 / check_c06) - after EVERY delivery;
  * update job-id / group-id ranges contiguous, disjoint, in update order, every job / group inside the range of
    its update;
  * for every client Job / JobGroup object: the id computed by the client after submit() == the id under which
    the spec carrying its marker was stored, and its parents / group resolve to the intended objects;
  * canonical store after the faulty run == canonical store after the same run without duplicates
    (times and spec-file tokens dropped), whenever the client completed the submission.
A duplicate that the server REFUSES (4xx) without the above being broken is not a violation of the statement;
such refusals are counted per endpoint in the coverage (the real client aborts the submission when it sees one).
"""
import itertools
import json
import re

from vf import batchfamily as bf
from vf import batchops as ops
from vf import par

NEEDS_SERVICES = True

BASE_URL = 'https://batch.hail.example'
TIME_COLS = {'time_created', 'time_committed', 'time_completed', 'time_closed', 'last_updated', 'time_activated',
             'time_deactivated', 'time_ready', 'start_time', 'end_time', 'rollup_time', 'time_updated'}
DROP = set(TIME_COLS) | {('batch_bunches', 'token')}
FAULTS = 'NIL'


# =====================================================================================================
# in-process transport
# =====================================================================================================

class Router:
    _inst = None

    def __init__(self):
        from batch.front_end import front_end as fe

        self.table = []
        for r in fe.routes:
            if not hasattr(r, 'path') or not r.path.startswith('/api/v1alpha/batches'):
                continue
            names = re.findall(r'\{(\w+)\}', r.path)
            rx = re.compile('^' + re.sub(r'\\\{(\w+)\\\}', r'(?P<\1>[^/]+)', re.escape(r.path)) + '$')
            self.table.append((r.method, rx, names, ops._unwrap(r.handler), r.handler.__name__))

    @classmethod
    def get(cls):
        if cls._inst is None:
            cls._inst = cls()
        return cls._inst

    def match(self, method, path):
        hits = [(h, m.groupdict(), name) for meth, rx, _, h, name in self.table if meth == method for m in [rx.match(path)] if m]
        # literal segments win over placeholders ('/batches/create' vs '/batches/{batch_id}')
        if not hits:
            raise RuntimeError(f'transport: no route for {method} {path}')
        hits.sort(key=lambda x: len(x[1]))
        return hits[0]


class Resp:
    def __init__(self, status, reason, body, name):
        self.status = status
        self.reason = reason
        self.body = body
        self.name = name
        self.headers = {'Content-Type': 'application/json'}

    async def json(self):
        return json.loads(self.body.decode('utf-8'))

    async def read(self):
        return self.body

    async def text(self):
        return self.body.decode('utf-8')

    async def release(self):
        pass


class Server:
    """The front end: one request at a time (see assumptions), user u1."""

    def __init__(self, w):
        self.w = w
        self.router = Router.get()
        self.deliveries = []      # (who, kind, idx, endpoint, status, reason)
        self.after_delivery = None
        self.server_errors = []
        self.ctx = None           # (who, kind, idx) of the delivery being served
        self.acq = 0              # connection acquisitions so far inside it
        self.acq_counts = {}      # idx -> acquisitions of the original delivery of request idx of client A
        self.point_cb = None      # async callable(idx, j): before the j-th acquisition of A's original delivery idx

    async def on_acquire(self):
        if self.ctx is None or self.ctx[0] != 'A' or self.ctx[1] != 'orig':
            return
        j = self.acq
        self.acq += 1
        if self.point_cb is not None:
            await self.point_cb(self.ctx[2], j)

    async def deliver(self, who, kind, idx, method, path, body):
        from aiohttp import web

        from vf import boot
        from vf.minisql.lexer import SqlUnsupported

        handler, match, name = self.router.match(method, path)
        req = ops.mkreq(self.w, method, path, match=match)
        req._read_bytes = bytes(body)
        saved = (self.ctx, self.acq)
        self.ctx, self.acq = (who, kind, idx), 0
        try:
            resp = await handler(req, ops.user('u1'))
            out = Resp(resp.status, resp.reason, resp.body if isinstance(resp.body, (bytes, bytearray)) else b'', name)
        except web.HTTPException as e:
            out = Resp(e.status, e.reason, (e.text or '').encode(), name)
        except Exception as e:  # noqa: BLE001   what aiohttp turns into "500 Internal Server Error"
            c = e
            while c is not None:
                if isinstance(c, (boot.ShimGap, SqlUnsupported)):
                    raise
                c = c.__cause__ or c.__context__
            out = Resp(500, 'Internal Server Error', f'{type(e).__name__}: {e}'[:300].encode(), name)
            self.server_errors.append(f'{name}: {type(e).__name__}: {e}'[:200])
        finally:
            if who == 'A' and kind == 'orig':
                self.acq_counts[idx] = self.acq
            self.ctx, self.acq = saved
        self.deliveries.append((who, kind, idx, name, out.status, out.reason if out.status >= 400 else ''))
        if self.after_delivery is not None:
            self.after_delivery(who, kind, idx, name, out)
        return out


def _raise_for_status(method, path, r):
    import aiohttp
    from yarl import URL

    from hailtop import httpx

    url = URL(BASE_URL + path)
    info = aiohttp.RequestInfo(url, method, {}, url)
    raise httpx.ClientResponseError(info, (), status=r.status, message=r.reason, headers=r.headers, body=r.body.decode())


def _body_of(kw):
    import orjson

    if kw.get('json') is not None:
        return orjson.dumps(kw['json'])
    d = kw.get('data')
    if d is None:
        return b''
    v = getattr(d, '_value', d)
    return bytes(v)


class PlainHttp:
    """http session of a client whose requests are delivered exactly once (base submission, second client)."""

    def __init__(self, server, who, lock=None):
        self.server = server
        self.who = who
        self.lock = lock
        self.n = 0

    async def request(self, method, url, **kw):
        assert url.startswith(BASE_URL), url
        path = url[len(BASE_URL):]
        body = _body_of(kw)
        self.n += 1
        if self.lock is not None:
            async with self.lock:
                r = await self.server.deliver(self.who, 'orig', self.n - 1, method, path, body)
        else:
            r = await self.server.deliver(self.who, 'orig', self.n - 1, method, path, body)
        if r.status >= 400:
            _raise_for_status(method, path, r)
        return r


class FaultyHttp:
    """http session of the client under test.  faults[i] in N/I/L/D for its i-th distinct request."""

    def __init__(self, server, lock, faults=None):
        self.server = server
        self.lock = lock
        self.faults = faults            # None = record
        self.seen = {}                  # key -> idx
        self.requests = []              # [(method, path, body, endpoint)]
        self.awaiting_retry = set()
        self.late = []
        self.first_status = {}
        self.refused_retry = None       # (idx, endpoint, status, reason): the client saw a refusal of a re-sent request

    async def request(self, method, url, **kw):
        import aiohttp

        assert url.startswith(BASE_URL), url
        path = url[len(BASE_URL):]
        body = _body_of(kw)
        key = (method, path, body)
        if key in self.seen:
            idx = self.seen[key]
            if idx not in self.awaiting_retry:
                raise RuntimeError(f'transport: request {idx} sent twice by the client without a lost response')
            self.awaiting_retry.discard(idx)
            async with self.lock:
                r = await self.server.deliver('A', 'retry', idx, method, path, body)
            if r.status >= 400:
                if self.first_status[idx] < 400:
                    self.refused_retry = (idx, r.name, r.status, r.reason)
                _raise_for_status(method, path, r)
            return r
        idx = len(self.seen)
        self.seen[key] = idx
        f = 'N' if self.faults is None else (self.faults[idx] if idx < len(self.faults) else 'N')
        async with self.lock:
            r = await self.server.deliver('A', 'orig', idx, method, path, body)
            if f == 'D':
                r2 = await self.server.deliver('A', 'dup', idx, method, path, body)
                if r2.status < 400:
                    r = r2
        self.requests.append((method, path, body, r.name))
        self.first_status[idx] = r.status
        if f == 'I':
            self.awaiting_retry.add(idx)
            raise aiohttp.ServerDisconnectedError()   # the response is lost; retry_transient_errors re-sends
        if f == 'L':
            self.late.append((idx, method, path, body))
        if r.status >= 400:
            _raise_for_status(method, path, r)
        return r

    async def deliver_late(self):
        for idx, method, path, body in self.late:
            async with self.lock:
                await self.server.deliver('A', 'late', idx, method, path, body)


class _Task:
    def __enter__(self):
        return self

    def __exit__(self, *a):
        return False

    def update(self, *a, **k):
        pass


class QuietProgress:
    """BatchProgressBar stand-in handed to Batch.submit(progress=...) (rich is not installed)."""

    def with_task(self, *a, **k):
        return _Task()


def make_client(http):
    from hailtop.aiocloud.common.session import Session
    from hailtop.batch_client import aioclient as ac

    sess = Session(credentials=ac.HailExplicitTokenCredentials('x'), http_session=http)
    return ac.BatchClient('bp', BASE_URL, sess, {})


class Tokens:
    """secrets.token_urlsafe seam of the client module: update tokens named after the client that draws them."""

    def __init__(self):
        self.who = 'A'
        self.n = {}

    def token_urlsafe(self, n=32):
        self.n[self.who] = self.n.get(self.who, 0) + 1
        return f'upd-{self.who}-{self.n[self.who]}'


# =====================================================================================================
# scenarios (built through the public client API)
# =====================================================================================================

IMG = 'ubuntu'
CMD = ['true']


def _res(cpu):
    return {'cpu': cpu, 'memory': 'standard', 'storage': '0'}


def build_base(batch, H):
    """update 1 of the 'later update' scenarios: P1 -> P2 (in group gP)."""
    gP = batch.create_job_group(attributes={'m': 'gP'})
    p1 = batch.create_job(IMG, CMD, attributes={'m': 'P1'}, resources=_res('1'))
    p2 = gP.create_job(IMG, CMD, attributes={'m': 'P2'}, resources=_res('2'), parents=[p1])
    H['groups']['gP'] = (gP, None)
    H['jobs']['P1'] = (p1, [], None)
    H['jobs']['P2'] = (p2, ['P1'], 'gP')


def build_main(batch, H, shape, later):
    """Adds the submission under test to `batch`; H records, per marker, the client object, the markers of its
    intended parents and the marker of its intended group (None = root)."""
    J, G = H['jobs'], H['groups']
    P1 = J['P1'][0] if later else None
    P2 = J['P2'][0] if later else None
    gP = G['gP'][0] if later else None

    def job(marker, group_marker, parents, cpu='1', always_run=False):
        owner = batch if group_marker is None else G[group_marker][0]
        j = owner.create_job(IMG, CMD, attributes={'m': marker}, resources=_res(cpu), always_run=always_run,
                             parents=[J[p][0] for p in parents])
        J[marker] = (j, list(parents), group_marker)
        return j

    def group(marker, parent_marker):
        owner = batch if parent_marker is None else G[parent_marker][0]
        g = owner.create_job_group(attributes={'m': marker})
        G[marker] = (g, parent_marker)
        return g

    if shape == 'j1':
        job('A1', None, ['P2'] if later else [])
    elif shape == 'g1':
        group('gA1', 'gP' if later else None)
    elif shape == 'j2':
        job('A1', 'gP' if later else None, ['P1'] if later else [], cpu='2')
        job('A2', None, ['A1'])
    elif shape == 'j2g1':
        group('gA1', 'gP' if later else None)
        job('A1', 'gP' if later else None, ['P1'] if later else [], cpu='2')
        job('A2', 'gA1', ['A1'])
    elif shape == 'j3g2':
        group('gA1', None)        # (MAX_JOB_GROUPS_DEPTH = 2: gP > gA1 > gA2 would be refused)
        group('gA2', 'gA1')
        job('A1', None, ['P1'] if later else [])
        job('A2', 'gA1', ['A1'], cpu='2')
        job('A3', 'gA2', ['A1', 'A2'] + (['P2'] if later else []), always_run=True)
    elif shape == 'j3':
        job('A1', None, ['P1'] if later else [])
        job('A2', None, ['A1'], cpu='2')
        job('A3', 'gP' if later else None, ['A1', 'A2'] + (['P2'] if later else []), always_run=True)
    else:
        raise ValueError(shape)


def build_second(batchB, HB, variant, later):
    from hailtop.batch_client import aioclient as ac

    parents = [ac.Job.submitted_job(batchB, 1)] if later else []
    if variant == 'job':
        j = batchB.create_job(IMG, CMD, attributes={'m': 'B1'}, resources=_res('1'), parents=parents)
        HB['jobs']['B1'] = (j, None, None)
    elif variant == 'group+job':
        g = batchB.create_job_group(attributes={'m': 'gB1'})
        j = g.create_job(IMG, CMD, attributes={'m': 'B1'}, resources=_res('1'), parents=parents)
        HB['groups']['gB1'] = (g, None)
        HB['jobs']['B1'] = (j, None, 'gB1')
    else:
        raise ValueError(variant)


SUBMIT_KW = {'fast': {}, 'multi1': {'max_bunch_size': 1}, 'multi2': {'max_bunch_size': 2}}
N_SPECS = {'j1': 1, 'g1': 1, 'j2': 2, 'j2g1': 3, 'j3g2': 5, 'j3': 3}


def scenarios(tier):
    out = []
    shapes_q = {'fast': ('j1', 'j2g1', 'j3g2'), 'multi1': ('j2', 'j2g1', 'j3g2'), 'multi2': ('j3g2',)}
    shapes_t = {'fast': ('j1', 'g1', 'j2g1', 'j3g2'), 'multi1': ('j2', 'j2g1', 'j3', 'j3g2'), 'multi2': ('j2g1', 'j3g2')}
    shapes = shapes_q if tier == 'quick' else shapes_t
    for kind in ('create', 'update'):
        for path in ('fast', 'multi1', 'multi2'):
            for shape in shapes[path]:
                out.append((kind, shape, path))
    return out


# =====================================================================================================
# one run
# =====================================================================================================

_W = None
_BASE = None


def world():
    global _W, _BASE
    if _W is None:
        _W = ops.BatchWorld(instances=(('i1', 'standard', 'active'),))
        _BASE = _W.snapshot()
    return _W, _BASE


class Patches:
    """Seams substituted from outside for the duration of one history."""

    def __init__(self, srv):
        self.srv = srv

    def __enter__(self):
        import aiomysql
        import hailtop.utils.utils as huu
        from hailtop.batch_client import aioclient as ac

        self.tok = Tokens()
        cm = aiomysql._PoolAcquireContextManager
        self.saved = (ac.secrets, huu.delay_ms_for_try, cm.__aenter__)
        ac.secrets = self.tok
        huu.delay_ms_for_try = lambda tries, *a, **k: 50     # owned: the jittered back-off of the retry layer
        orig, srv = cm.__aenter__, self.srv

        async def aenter(self_):
            await srv.on_acquire()       # a transaction boundary of the handler being served
            return await orig(self_)

        cm.__aenter__ = aenter
        return self.tok

    def __exit__(self, *a):
        import aiomysql
        import hailtop.utils.utils as huu
        from hailtop.batch_client import aioclient as ac

        ac.secrets, huu.delay_ms_for_try, aiomysql._PoolAcquireContextManager.__aenter__ = self.saved
        return False


def _err(e):
    return f'HTTP {e.status} {e.message}'


END = -1   # interleaving point "after the last request of the submission"


def run_case(scn, faults=None, inter=None, monitor=True):
    """Executes one history.  faults: None (fault-free) or a string over N/I/L/D, one letter per request;
    inter: None or (variant, idx, j): the second client's update runs before the j-th connection acquisition of the
    original delivery of request idx (j = 0: before the request is served), idx = END: after the last request."""
    import asyncio

    from aiohttp import ClientResponseError
    from hailtop.batch_client import aioclient as ac

    kind, shape, path = scn
    later = kind == 'update'
    w, base = world()
    w.restore(base)
    srv = Server(w)
    out = {'scn': scn, 'faults': faults, 'inter': inter, 'state_viol': [], 'second': None, 'states': set(), 'second_skipped': False}
    H = {'jobs': {}, 'groups': {}}
    HB = {'jobs': {}, 'groups': {}}

    def after_delivery(who, kind_, idx, name, resp):
        if not monitor:
            return
        v = bf.View(w)
        if v.batch is None:
            return
        bad = bf.check_c01(w, v) + bf.check_c06(w, v)
        for sig, msg in bad:
            out['state_viol'].append(('double-count:' + sig, f'after {who}:{kind_} delivery of request {idx} ({name}): {msg}'))
        out['states'].add(hash(repr(sorted(w.mdb.store.dump(drop=DROP).items()))))

    srv.after_delivery = after_delivery

    with Patches(srv) as tok:
        async def body():
            lock = asyncio.Lock()
            # ---- update 1 (+ an abandoned update that reserved a job id) for the later-update scenarios
            plain = PlainHttp(srv, 'base', lock)
            cl0 = make_client(plain)
            batch = cl0.create_batch(token='batch-tok-A')
            if later:
                tok.who = 'base'
                build_base(batch, H)
                await batch.submit(progress=QuietProgress())
                crashed = ac.Batch(cl0, batch.id, token='unused')
                crashed.create_job(IMG, CMD, attributes={'m': 'X1'}, resources=_res('1'))
                await crashed._create_update()     # the client died here: job id 3 stays reserved, never filled
            out['n_base_requests'] = plain.n
            # ---- the submission under test
            second_box = {}

            async def second(idx, j):
                if inter is None or (inter[1], inter[2]) != (idx, j) or 'ran' in second_box:
                    return
                second_box['ran'] = True
                if not any(u['batch_id'] == 1 for u in w.table('batch_updates')):
                    out['second_skipped'] = True    # the batch is not there yet / has not reserved its first update
                    return
                saved_who, tok.who = tok.who, 'B'
                try:
                    clB = make_client(PlainHttp(srv, 'B'))
                    bB = ac.Batch(clB, 1, token='batch-tok-A')
                    build_second(bB, HB, inter[0], later)
                    try:
                        await bB.submit(progress=QuietProgress())
                        second_box['res'] = 'ok'
                    except ClientResponseError as e:
                        second_box['res'] = _err(e)
                finally:
                    tok.who = saved_who

            srv.point_cb = second
            http = FaultyHttp(srv, lock, faults)
            batch._client = make_client(http)
            tok.who = 'A'
            build_main(batch, H, shape, later)
            try:
                await batch.submit(progress=QuietProgress(), **SUBMIT_KW[path])
                out['main'] = 'ok'
            except ClientResponseError as e:
                out['main'] = _err(e)
            async with lock:
                await second(END, 0)
            await http.deliver_late()
            out['requests'] = [(m, p, r) for m, p, _, r in http.requests]
            out['acquires'] = [srv.acq_counts.get(i, 0) for i in range(len(http.requests))]
            out['refused_retry'] = http.refused_retry
            out['unsent_retry'] = sorted(http.awaiting_retry)
            out['second'] = second_box.get('res')
            out['used_fast_path'] = batch._submission_info.used_fast_path

        w.run(body())

    out['deliveries'] = srv.deliveries
    out['server_errors'] = srv.server_errors
    out['dump'] = w.mdb.store.dump(drop=DROP)
    out['viol'] = judge(w, out, H, HB)
    return out


# =====================================================================================================
# oracles
# =====================================================================================================

def judge(w, out, H, HB):
    V = list(out['state_viol'])
    T = w.table
    batches = T('batches')
    by_tok = {}
    for b in batches:
        by_tok.setdefault((b['user'], b['token']), []).append(b['id'])
    for k_, ids in by_tok.items():
        if len(ids) > 1:
            V.append(('second-batch-for-token', f'batches rows {ids} share user/token {k_}'))
    if len(batches) != 1:
        V.append(('second-batch-for-token', f'{len(batches)} batches rows after submissions that name one batch token'))
    ups = sorted((u for u in T('batch_updates') if u['batch_id'] == 1), key=lambda u: u['update_id'])
    toks = {}
    for u in ups:
        toks.setdefault(u['token'], []).append(u['update_id'])
    for t_, ids in toks.items():
        if len(ids) > 1:
            V.append(('second-update-for-token', f'batch_updates rows {ids} share token {t_!r}'))
    expected_updates = (2 if out['scn'][0] == 'update' else 0) + 1 + (1 if out['second'] is not None else 0)
    if len(ups) > expected_updates:
        V.append(('second-update-for-token', f'{len(ups)} batch_updates rows {[(u["update_id"], u["token"]) for u in ups]}, '
                  f'{expected_updates} submissions were made'))
    # ---- ranges
    sj = sg = 1
    for i, u in enumerate(ups):
        if u['update_id'] != i + 1 or u['start_job_id'] != sj or u['start_job_group_id'] != sg:
            V.append(('update-ranges-not-contiguous',
                      f'update {u["update_id"]} reserves jobs from {u["start_job_id"]} / groups from {u["start_job_group_id"]}; '
                      f'the previous updates end at job {sj - 1} / group {sg - 1}: '
                      f'{[(x["update_id"], x["start_job_id"], x["n_jobs"], x["start_job_group_id"], x["n_job_groups"]) for x in ups]}'))
            break
        sj += u['n_jobs']
        sg += u['n_job_groups']
    rng = {u['update_id']: u for u in ups}
    jobs = [j for j in T('jobs') if j['batch_id'] == 1]
    for j in jobs:
        u = rng.get(j['update_id'])
        if u is None or not (u['start_job_id'] <= j['job_id'] < u['start_job_id'] + u['n_jobs']):
            V.append(('job-outside-update-range', f'job {j["job_id"]} belongs to update {j["update_id"]} whose range is '
                      f'{(u["start_job_id"], u["n_jobs"]) if u else None}'))
    groups = [g for g in T('job_groups') if g['batch_id'] == 1]
    for g in groups:
        if g['job_group_id'] == 0:
            continue
        u = rng.get(g['update_id'])
        if u is None or not (u['start_job_group_id'] <= g['job_group_id'] < u['start_job_group_id'] + u['n_job_groups']):
            V.append(('group-outside-update-range', f'job group {g["job_group_id"]} belongs to update {g["update_id"]} whose range is '
                      f'{(u["start_job_group_id"], u["n_job_groups"]) if u else None}'))
    # ---- markers: stored ids
    jm, gm = {}, {}
    for r in T('job_attributes'):
        if r['batch_id'] == 1 and r['key'] == 'm':
            jm.setdefault(r['value'], []).append(r['job_id'])
    for r in T('job_group_attributes'):
        if r['batch_id'] == 1 and r['key'] == 'm':
            gm.setdefault(r['value'], []).append(r['job_group_id'])
    for m, ids in sorted(jm.items()):
        if len(ids) > 1:
            V.append(('job-stored-twice', f'the job spec marked {m} is stored under job ids {sorted(ids)}'))
    for m, ids in sorted(gm.items()):
        if len(ids) > 1:
            V.append(('job-group-stored-twice', f'the job group spec marked {m} is stored under ids {sorted(ids)}'))
    if len(jobs) != len(jm):
        V.append(('job-stored-twice', f'{len(jobs)} jobs rows but {len(jm)} distinct submitted job specs'))
    parents = {}
    for r in T('job_parents'):
        if r['batch_id'] == 1:
            parents.setdefault(r['job_id'], set()).add(r['parent_id'])
    jrow = {j['job_id']: j for j in jobs}
    anc_parent = {}
    for r in T('job_group_self_and_ancestors'):
        if r['batch_id'] == 1 and r['level'] == 1:
            anc_parent[r['job_group_id']] = r['ancestor_id']

    def client_ids(Hx, who_ok):
        for m, (g, pm) in Hx['groups'].items():
            if not g.is_submitted:
                continue
            cid = g.job_group_id
            sid = gm.get(m)
            if not sid:
                if who_ok:
                    V.append(('client-id-differs-from-server-id', f'job group {m}: client id {cid}, but no group with that marker was stored'))
                continue
            if sid[0] != cid:
                V.append(('client-id-differs-from-server-id', f'job group {m}: the client computed id {cid}, the server stored it as {sid[0]}'))
            want_parent = 0 if pm is None else (gm.get(pm) or [None])[0]
            if anc_parent.get(sid[0]) != want_parent:
                V.append(('client-id-differs-from-server-id', f'job group {m} stored as {sid[0]}: parent group {anc_parent.get(sid[0])}, '
                          f'the client meant {pm or "root"} = {want_parent}'))
        for m, (j, ps, grp) in Hx['jobs'].items():
            if not j.is_submitted:
                continue
            cid = j.job_id
            sid = jm.get(m)
            if not sid:
                if who_ok:
                    V.append(('client-id-differs-from-server-id', f'job {m}: client id {cid}, but no job with that marker was stored'))
                continue
            if sid[0] != cid:
                V.append(('client-id-differs-from-server-id', f'job {m}: the client computed id {cid}, the server stored it as {sid[0]}'))
            if ps is not None:
                want = {(jm.get(p) or [None])[0] for p in ps}
                if parents.get(sid[0], set()) != want:
                    V.append(('client-id-differs-from-server-id', f'job {m} stored as {sid[0]}: parents {sorted(parents.get(sid[0], set()))}, '
                              f'the client meant {ps} = {sorted(want, key=repr)}'))
            want_g = 0 if grp is None else (gm.get(grp) or [None])[0]
            if jrow[sid[0]]['job_group_id'] != want_g:
                V.append(('client-id-differs-from-server-id', f'job {m} stored as {sid[0]} in group {jrow[sid[0]]["job_group_id"]}, '
                          f'the client meant {grp or "root"} = {want_g}'))

    client_ids(H, True)
    client_ids(HB, True)
    out['n_client_objects_checked'] = sum(1 for Hx in (H, HB) for d in (Hx['jobs'], Hx['groups']) for v in d.values() if v[0].is_submitted)
    return V


def diff_dumps(a, b):
    out = []
    for t in sorted(set(a) | set(b)):
        ra, rb = a.get(t, []), b.get(t, [])
        if ra != rb:
            only_a = [r for r in ra if r not in rb][:3]
            only_b = [r for r in rb if r not in ra][:3]
            out.append(f'{t}: fault-free only {only_a} / faulty only {only_b}')
    return out


# =====================================================================================================
# enumeration
# =====================================================================================================

def fault_vectors(k, modes, maxdups=None):
    """All assignments of N or one of `modes` to k requests with at most `maxdups` duplicated, smallest first."""
    vs = [''.join(v) for v in itertools.product('N' + modes, repeat=k)]
    vs = [v for v in vs if v != 'N' * k and (maxdups is None or k - v.count('N') <= maxdups)]
    vs.sort(key=lambda v: (k - v.count('N'), v))
    return vs


def levels(tier, var, k, j):
    """(modes, max duplicated requests) for: no interleaving (var None) / interleaving at a request boundary (j = 0) /
    at a transaction boundary inside a request (j > 0)."""
    if var is None:
        return ('ILD', None) if (tier != 'quick' or k <= 5) else ('IL', None)
    if tier == 'quick':
        return ('IL', 2) if j == 0 else ('IL', 1)
    if j == 0 or k <= 5:
        return ('IL', None)
    return ('IL', 2)


def variants(tier):
    return (None, 'job') if tier == 'quick' else (None, 'job', 'group+job')


def cases(tier, scn, var, ref0):
    """[(inter, vector)] for one scenario and one interleaving variant, smallest first."""
    k = len(ref0['requests'])
    if var is None:
        inters = [None]
    else:
        inters = [(var, i, j) for i in range(k) for j in range(ref0['acquires'][i])] + [(var, END, 0)]
        if scn[0] == 'create':
            inters = [x for x in inters if (x[1], x[2]) != (0, 0)]      # no batch yet
    out = []
    for inter in inters:
        modes, maxd = levels(tier, var, k, 0 if inter is None else inter[2])
        out.append((inter, None))
        out.extend((inter, v) for v in fault_vectors(k, modes, maxd))
    return out


_REF = {}


def _ref(scn, inter):
    key = (scn, inter)
    if key not in _REF:
        if len(_REF) > 64:
            _REF.clear()
        _REF[key] = run_case(scn, None, inter)
    return _REF[key]


def _new_stats():
    return {'runs': 0, 'deliveries': 0, 'dups_delivered': 0, 'dups_refused': {}, 'aborted_by_refused_retry': 0,
            'second_refused': {}, 'main_refused_with_interleaving': 0, 'states': set(), 'client_objects_checked': 0,
            'completed_and_equal': 0, 'second_ok': 0, 'second_inside_request': 0, 'points_skipped': 0, 'server_errors': {}}


def evaluate(scn, inter, vec, stats=None):
    """One history + its verdicts: [(signature, message)], the run."""
    ref = _ref(scn, inter)
    if vec is None:
        r = ref
        viols = list(r['viol'])
        if inter is not None and r['second_skipped']:
            if stats is not None:
                stats['points_skipped'] += 1
    else:
        if inter is not None and ref['second_skipped']:
            return [], None          # the point is not enabled: identical to the run without interleaving
        r = run_case(scn, vec, inter)
        viols = list(r['viol'])
        if r['unsent_retry']:
            raise RuntimeError(f'transport: lost responses of requests {r["unsent_retry"]} were never re-sent ({scn}, {vec})')
        if r['main'] != 'ok' and r['refused_retry'] is not None:
            if stats is not None:
                stats['aborted_by_refused_retry'] += 1    # the server refused the re-sent request; the real client gave up
        elif r['main'] == ref['main'] and r['second'] == ref['second']:
            d = diff_dumps(ref['dump'], r['dump'])
            if d:
                viols.append(('retry-changes-final-state', 'the store after the history with duplicated requests differs from the '
                              'same history without duplicates: ' + '; '.join(d[:4])))
            elif stats is not None:
                stats['completed_and_equal'] += 1
        else:
            viols.append(('retry-changes-client-outcome', f'without duplicates: main={ref["main"]} second={ref["second"]}; '
                          f'with duplicates: main={r["main"]} second={r["second"]}'))
    if stats is not None:
        stats['runs'] += 1
        stats['deliveries'] += len(r['deliveries'])
        stats['states'] |= r['states']
        stats['client_objects_checked'] += r['n_client_objects_checked']
        for e in r['server_errors']:
            e = re.sub(r'\d+', 'N', e)[:120]
            stats['server_errors'][e] = stats['server_errors'].get(e, 0) + 1
        for who, kind_, idx, name, status, reason in r['deliveries']:
            if who == 'A' and kind_ != 'orig':
                stats['dups_delivered'] += 1
                if status >= 400:
                    key = re.sub(r'update \d+', 'update N', f'{name}:{kind_}:{status}:{reason}')
                    stats['dups_refused'][key] = stats['dups_refused'].get(key, 0) + 1
        if r['second'] == 'ok':
            stats['second_ok'] += 1
            if inter[2] > 0:
                stats['second_inside_request'] += 1
        elif r['second'] is not None:
            key = re.sub(r'\d+', 'N', r['second'])
            stats['second_refused'][key] = stats['second_refused'].get(key, 0) + 1
        if vec is None and inter is not None and r['main'] != 'ok':
            stats['main_refused_with_interleaving'] += 1
    return viols, r


def _size(scn, inter, vec):
    nd = 0 if vec is None else len(vec) - vec.count('N')
    return (N_SPECS[scn[1]], nd, inter is not None, 0 if inter is None else inter[2], len(vec or ''), vec or '', repr(inter), scn)


def _work(item):
    tier, scn, var, ci, nc = item
    ref0 = _ref(scn, None)
    if ref0['main'] != 'ok' and not ref0['viol']:
        return {'item': item, 'fatal': f'fault-free submission {scn} does not complete: main={ref0["main"]} {ref0["server_errors"][:2]}'}
    stats = _new_stats()
    best, counts = {}, {}
    todo = cases(tier, scn, var, ref0)[ci::nc]
    if ref0['main'] != 'ok':
        todo = [(None, None)] if (var is None and ci == 0) else []   # broken without any fault: report that, explore nothing
    for inter, vec in todo:
        viols, r = evaluate(scn, inter, vec, stats)
        for sig, msg in viols:
            counts[sig] = counts.get(sig, 0) + 1
            size = _size(scn, inter, vec)
            if sig not in best or size < best[sig][0]:
                best[sig] = (size, msg, describe(r), {'scn': list(scn), 'faults': vec, 'inter': list(inter) if inter else None})
    stats['states'] = sorted(stats['states'])
    return {'item': item, 'k': len(ref0['requests']), 'requests': ref0['requests'], 'acquires': ref0['acquires'],
            'used_fast_path': ref0['used_fast_path'], 'stats': stats, 'best': best, 'counts': counts, 'fatal': None}


_MODE = {'N': '', 'I': ' [response lost, re-sent by the retry layer]', 'L': ' [delivered again after the last request]',
         'D': ' [delivered twice in a row]'}


def describe(r):
    reqs = r.get('requests') or []
    fv = r['faults'] or ''
    parts = [f'{name}{_MODE[fv[i] if i < len(fv) else "N"]}' for i, (m, p, name) in enumerate(reqs)]
    s = f'{r["scn"][0]} / {r["scn"][1]} / {r["scn"][2]}: ' + ' -> '.join(parts)
    if r['inter']:
        var, i, j = r['inter']
        where = 'after the last request' if i == END else (f'before request {i}' if j == 0 else f'inside request {i}, before its transaction {j}')
        s += f"; second client's update ({var}) {where}"
    return s


def check(tier, seed, procs):
    # first phase: the same request delivered twice CONCURRENTLY (statement-level interleavings of _create_batch ||
    # _create_batch, _create_batch_update || _create_batch_update, create / create-fast handlers, under the row- and
    # gap-lock model of vf/txmc.py; catalogue and oracle in vf/txpairs.py, C09_PAIRS).  Never raises; merged at the end.
    from vf import txpairs

    phase = txpairs.run_phase(tier, procs, ('C09',))
    world()
    items = []
    n_cases = {}
    for scn in scenarios(tier):
        ref0 = _ref(scn, None)
        for var in variants(tier):
            n = len(cases(tier, scn, var, ref0))
            n_cases[(scn, var)] = n
            nc = max(1, min(64, n // 150))
            for ci in range(nc):
                items.append((tier, scn, var, ci, nc))
    items = par.rotate(items, seed)
    import gc

    gc.collect()
    gc.freeze()      # the forked workers share the parent's heap: keep the collector from touching (copying) it
    rows = par.pmap(_work, items, procs, chunksize=1)
    fatal = [r['fatal'] for r in rows if r['fatal']]
    if fatal:
        raise RuntimeError(fatal[0])
    rows.sort(key=lambda r: repr(r['item']))
    best, counts = {}, {}
    keys = ('runs', 'deliveries', 'dups_delivered', 'aborted_by_refused_retry', 'main_refused_with_interleaving',
            'client_objects_checked', 'completed_and_equal', 'second_ok', 'second_inside_request', 'points_skipped')
    tot = dict.fromkeys(keys, 0)
    refused, second_refused, states, server_errors = {}, {}, set(), {}
    per_scn = {}
    for r in rows:
        st = r['stats']
        for k_ in keys:
            tot[k_] += st[k_]
        for k_, n in st['dups_refused'].items():
            refused[k_] = refused.get(k_, 0) + n
        for k_, n in st['second_refused'].items():
            second_refused[k_] = second_refused.get(k_, 0) + n
        for k_, n in st['server_errors'].items():
            server_errors[k_] = server_errors.get(k_, 0) + n
        states |= set(st['states'])
        for sig, b in r['best'].items():
            if sig not in best or b[0] < best[sig][0]:
                best[sig] = b
        for sig, n in r['counts'].items():
            counts[sig] = counts.get(sig, 0) + n
        key = '/'.join(r['item'][1])
        e = per_scn.setdefault(key, {'requests': [x[2] for x in r['requests']], 'transactions_per_request': r['acquires'],
                                     'histories': 0, 'fast_path': bool(r['used_fast_path'])})
        e['histories'] += st['runs']
    violations = []
    for sig in sorted(best, key=lambda s_: best[s_][0]):
        size, msg, desc, rep = best[sig]
        violations.append({'signature': sig, 'message': f'{desc}: {msg} [{counts[sig]} histories with this signature]', 'replay': rep})
    cov = {
        'states': len(states),
        'transitions': tot['deliveries'],
        'traces_validated_against_impl': tot['runs'],
        'samples': [{'scenario': k_, 'requests': v['requests']} for k_, v in sorted(per_scn.items())][:4],
        'exhaustive': True,
        'bounds': ('submissions {first update, later update (after update 1 = 2 jobs + 1 group and an abandoned update holding a reserved job id)} x '
                   'shapes (<=3 jobs with dependencies incl. parents / groups of update 1, <=2 nested job groups) x {fast path, multi-bunch with '
                   'max_bunch_size 1 or 2}; without interleaving: every assignment of {once, response lost + real retry, late second delivery, '
                   'delivered twice in a row} to the requests' + (' ({once, lost + retry, late} for the 7-request submission)' if tier == 'quick' else '')
                   + '; with a second client\'s fast update ('
                   + ' | '.join(v for v in variants(tier) if v) + ') at every request boundary and every transaction boundary inside the '
                   'original deliveries: ' + ('<= 2 duplicated requests at request boundaries, <= 1 inside requests'
                                              if tier == 'quick' else
                                              'every assignment of {once, lost + retry, late}; <= 2 duplicated requests inside requests when the submission has 7 requests')),
        'scenarios': len(per_scn),
        'per_scenario': per_scn,
        'histories_executed': tot['runs'],
        'duplicate_deliveries': tot['dups_delivered'],
        'duplicate_deliveries_refused_by_server': refused,
        'histories_where_client_gave_up_on_refused_retry': tot['aborted_by_refused_retry'],
        'histories_with_duplicates_completed_with_store_equal_to_duplicate_free': tot['completed_and_equal'],
        'second_client_update_accepted': tot['second_ok'],
        'second_client_update_accepted_inside_a_request': tot['second_inside_request'],
        'second_client_update_refused': second_refused,
        'deliveries_answered_500': server_errors,
        'interleaving_points_not_enabled': tot['points_skipped'],
        'main_client_refused_with_interleaving_only': tot['main_refused_with_interleaving'],
        'client_objects_id_checked': tot['client_objects_checked'],
        'fast_path_scenarios': sum(1 for v in per_scn.values() if v['fast_path']),
        'multi_bunch_scenarios': sum(1 for v in per_scn.values() if not v['fast_path']),
    }
    vac = None
    if tot['dups_delivered'] == 0 or tot['completed_and_equal'] == 0 or tot['second_ok'] == 0 or tot['second_inside_request'] == 0:
        vac = f'nothing interesting explored: {tot}'
    if cov['fast_path_scenarios'] == 0 or cov['multi_bunch_scenarios'] == 0:
        vac = 'fast path or multi-bunch path never taken'
    return txpairs.merge_into({'coverage': cov, 'violations': violations, 'assumptions': ASSUME, 'vacuous': vac}, phase)


ASSUME = bf.ASSUME[:3] + [
    'the front end serves one request at a time: a duplicate is delivered after the original has been processed completely '
    '(lost-response retries), never concurrently with it; the second client\'s whole update runs between two transactions of '
    'the request being served; statements of different transactions are not interleaved (main enumeration only: the first '
    'phase, coverage.statement_interleavings, delivers the create / create-fast / update-creation request twice CONCURRENTLY and '
    'explores every statement-level interleaving under the lock model stated below)',
    'transport = in-process: the real hailtop Session + retry_transient_errors above a fake http session that calls the handler '
    'registered in front_end.routes for the path (auth decorators stripped, userdata of u1); a lost response is a '
    'ServerDisconnectedError raised after the handler finished; the jittered retry delay is fixed to 50 ms of virtual time',
    'client update tokens (secrets.token_urlsafe) and the progress bar (rich) are harness-owned stand-ins; transaction boundaries are '
    'observed by wrapping the connection acquisition of the aiomysql shim',
    'a duplicate that the server refuses with 4xx while every clause of the statement still holds is counted '
    '(coverage.duplicate_deliveries_refused_by_server), not reported: the statement does not promise that a re-sent request succeeds',
    'the second client only acts once the batch has reserved its first update (the real client asserts that its first update starts at id 1)',
    'file store is a fake (spec files are not part of the compared store)',
]


def replay(obj):
    if 'txpair' in obj:
        from vf import txpairs

        return txpairs.replay(obj, monitors=('C09',))
    scn = tuple(obj['scn'])
    inter = tuple(obj['inter']) if obj.get('inter') else None
    viols, r = evaluate(scn, inter, obj.get('faults'))
    if r is None:
        return True, 'interleaving point not enabled'
    return (not viols), (describe(r) + ': ' + ' | '.join(f'{s_}: {m}' for s_, m in viols[:3]) if viols else 'no violation')
