"""C33  Value binary encoding round-trips and matches the engine layout.

Bounded-exhaustive INPUT enumeration.  Types are enumerated as plain descriptors (nested tuples), turned into real
hail types with the public constructors, and for every (type, value) of the per-type value domain:

  O1  decode(encode(v)) == v   with encode = the front end's real entry (`hl.literal(v, t)` -> `EncodedLiteral`
      -> `encoded_value`, base64) and decode = what `Backend.execute` applies to engine results
      (`t._from_encoding(bytes)`); NaN-aware / ndarray-aware equality on a canonical form.
  O2  an independent reference decoder decodes the same bytes to the same value and consumes exactly all bytes.
      It is driven by the EType tree the ENGINE declares for Python-encoded values (`EType.fromPythonTypeEncoding`,
      extracted from EType.scala at run time by vf.c33_engine, or from the JVM slice when vf/jvm_engine_side.py is
      available) and by the layout of the property statement: missing-bit bytes for every non-required struct
      field / array element, little-endian fixed-width primitives, int32-length-prefixed UTF-8 strings,
      int32-length-prefixed arrays, dicts as unsorted arrays of required {key, value} structs, n-d arrays as
      int64 shape + column-major required elements, calls bit-packed into an int32.
"""
import base64
import itertools
import math
import struct

from vf import boot, par

NEEDS_SERVICES = False

LEAVES = ('int32', 'int64', 'float32', 'float64', 'str', 'bool', 'call', 'locus')
ND_ELEMS = ('int32', 'int64', 'float32', 'float64', 'bool')
RG = 'GRCh37'


# ------------------------------------------------------------------ type descriptors

def L(name):
    return ('locus', RG) if name == 'locus' else (name,)


def depth(T):
    k = T[0]
    if k in LEAVES:
        return 0
    if k in ('array', 'set', 'interval', 'ndarray'):
        return 1 + depth(T[1])
    if k == 'dict':
        return 1 + max(depth(T[1]), depth(T[2]))
    if k == 'struct':
        return 1 + max([depth(ft) for _, ft in T[1]] or [0])
    if k == 'tuple':
        return 1 + max([depth(ft) for ft in T[1]] or [0])
    raise ValueError(T)


def hashable(T):
    """Can a value of T be a Python set element / dict key (ndarrays cannot)?"""
    k = T[0]
    if k == 'ndarray':
        return False
    if k in LEAVES:
        return True
    if k in ('array', 'set', 'interval'):
        return hashable(T[1])
    if k == 'dict':
        return hashable(T[1]) and hashable(T[2])
    if k == 'struct':
        return all(hashable(ft) for _, ft in T[1])
    return all(hashable(ft) for ft in T[1])


def tstr(T):
    k = T[0]
    if k == 'locus':
        return f'locus<{T[1]}>'
    if k in LEAVES:
        return k
    if k in ('array', 'set', 'interval'):
        return f'{k}<{tstr(T[1])}>'
    if k == 'dict':
        return f'dict<{tstr(T[1])},{tstr(T[2])}>'
    if k == 'ndarray':
        return f'ndarray<{tstr(T[1])},{T[2]}>'
    if k == 'struct':
        return 'struct{' + ','.join(f'{n}:{tstr(ft)}' for n, ft in T[1]) + '}'
    return 'tuple(' + ','.join(tstr(ft) for ft in T[1]) + ')'


def constructions(children, pair_left, pair_right):
    """All types built by one constructor application.  Unary constructors range over `children`; binary
    ones over pair_left x pair_right (both orders are the caller's business)."""
    for c in children:
        yield ('array', c)
        if hashable(c):
            yield ('set', c)
        yield ('interval', c)
        yield ('struct', (('a', c),))
        yield ('tuple', (c,))
    for a in pair_left:
        for b in pair_right:
            if hashable(a):
                yield ('dict', a, b)
            yield ('struct', (('a', a), ('b', b)))
            yield ('tuple', (a, b))


def type_space(tier):
    leaves = [L(n) for n in LEAVES]
    d1 = [('struct', ()), ('tuple', ())]
    d1 += list(constructions(leaves, leaves, leaves))
    d1 += [('ndarray', (e,), n) for e in ND_ELEMS for n in (1, 2, 3)]
    # wide structs / tuples / nesting that cross the 8-bit boundary of the missing-bit bytes
    extra = [('struct', tuple((f'f{i}', ('int32',)) for i in range(9))),
             ('tuple', tuple(('str',) if i % 2 else ('int64',) for i in range(9))),
             ('struct', tuple((f'f{i}', ('bool',)) for i in range(17)))]
    from vf.props import c32

    nine = ('struct', (('a', ('int32',)), ('b', ('str',)), ('c', ('float64',)), ('d', ('bool',)), ('e', ('int64',)),
                       ('f', ('str',)), ('g', ('int32',)), ('h', ('call',)), ('i', ('str',)), ('j', ('int32',))))
    wide = [nine, extra[0]]
    extra += [nine] + [T for T in c32.wide_struct_types(tier) if T[0] != 'set' or hashable(T[1])]
    for w in wide:
        extra += [('array', w), ('dict', ('str',), w), ('tuple', (('int32',), w)), ('struct', (('s', w), ('k', ('int32',))))]
    reps = [('int32',), ('str',)]
    if tier == 'quick':
        d2 = list(constructions(d1, d1, reps)) + [t for t in constructions([], reps, d1)]
        d3 = []
    else:
        t1 = leaves + d1
        d2 = list(constructions(d1, d1, t1)) + list(constructions([], leaves, d1))
        unary2 = [t for t in d2 if t[0] in ('array', 'set', 'interval') or (t[0] in ('struct', 'tuple') and len(t[1]) == 1)]
        d3 = [('array', t) for t in unary2] + [('struct', (('a', t), ('b', ('int32',)))) for t in unary2]
        d3 += [('dict', ('str',), t) for t in unary2] + [('tuple', (('str',), t)) for t in unary2]
    seen, out = set(), []
    for T in leaves + d1 + extra + d2 + d3:
        key = repr(T)
        if key not in seen:
            seen.add(key)
            out.append(T)
    out.sort(key=lambda T: (depth(T), len(tstr(T)), tstr(T)))
    return out


# ------------------------------------------------------------------ hail types and value domains

def hail_type(T):
    import hail as hl

    k = T[0]
    if k == 'locus':
        return hl.tlocus(T[1])
    if k in LEAVES:
        return getattr(hl, 't' + k)
    if k == 'array':
        return hl.tarray(hail_type(T[1]))
    if k == 'set':
        return hl.tset(hail_type(T[1]))
    if k == 'interval':
        return hl.tinterval(hail_type(T[1]))
    if k == 'dict':
        return hl.tdict(hail_type(T[1]), hail_type(T[2]))
    if k == 'ndarray':
        return hl.tndarray(hail_type(T[1]), T[2])
    if k == 'struct':
        return hl.tstruct(**{n: hail_type(ft) for n, ft in T[1]})
    return hl.ttuple(*[hail_type(ft) for ft in T[1]])


F32_SUB = 2.0 ** -149
F32_MAX = (2.0 - 2.0 ** -23) * 2.0 ** 127
NAN = float('nan')
INF = float('inf')

_vals_cache = {}


def _chunks(xs, n):
    return [xs[i:i + n] for i in range(0, len(xs), n)]


def has_nan(T, v):
    if v is None:
        return False
    k = T[0]
    if k in ('float32', 'float64'):
        return v != v
    if k in LEAVES or k == 'ndarray':
        return False
    if k in ('array', 'set'):
        return any(has_nan(T[1], x) for x in v)
    if k == 'interval':
        return has_nan(T[1], v.start) or has_nan(T[1], v.end)
    if k == 'dict':
        return any(has_nan(T[1], a) or has_nan(T[2], b) for a, b in v.items())
    if k == 'struct':
        return any(has_nan(ft, v[n]) for n, ft in T[1])
    return any(has_nan(ft, x) for ft, x in zip(T[1], v))


def values(T, frozen=False, top=True):
    """Deterministic list of non-missing values of T.  `frozen`: hashable containers (set elements, dict keys).
    `top`: the value is the whole literal (structs then get every field permutation, nested ones a short selection)."""
    if T[0] != 'struct' or len(T[1]) < 2:
        top = False  # only structs with 2+ fields have a larger whole-literal domain
    key = (repr(T), frozen, top)
    if key not in _vals_cache:
        _vals_cache[key] = _values(T, frozen, top)
    return _vals_cache[key]


def _uniq(T, xs):
    """Drop values equal (by name / canonical form) to an earlier one: a Python set or dict would collapse them."""
    seen, out = set(), []
    for x in xs:
        k = repr(canon(T, x))
        if k not in seen:
            seen.add(k)
            out.append(x)
    return out


def reordered(T, v):
    """(fields in another order than declared somewhere, a plain dict used as a struct somewhere)"""
    if v is None:
        return (False, False)
    k = T[0]
    if k in LEAVES or k == 'ndarray':
        return (False, False)
    if k in ('array', 'set'):
        parts = [reordered(T[1], x) for x in v]
    elif k == 'interval':
        parts = [reordered(T[1], v.start), reordered(T[1], v.end)]
    elif k == 'dict':
        parts = [reordered(T[1], a) for a in v] + [reordered(T[2], b) for b in v.values()]
    elif k == 'struct':
        parts = [(list(v) != [n for n, _ in T[1]], isinstance(v, dict))]
        parts += [reordered(ft, v[n]) for n, ft in T[1]]
    else:
        parts = [reordered(ft, x) for ft, x in zip(T[1], v)]
    return (any(p[0] for p in parts), any(p[1] for p in parts))


def _values(T, frozen, top):
    import hail as hl
    import numpy as np
    from hailtop.frozendict import frozendict
    from hailtop.hail_frozenlist import frozenlist

    k = T[0]
    if k == 'int32':
        return [0, 1, -1, 2 ** 31 - 1, -(2 ** 31)]
    if k == 'int64':
        return [0, -1, 2 ** 31, 2 ** 63 - 1, -(2 ** 63)]
    if k == 'float32':
        return [0.0, -0.0, 1.5, NAN, INF, -INF, F32_SUB, F32_MAX]
    if k == 'float64':
        return [0.0, -0.0, 0.1, NAN, INF, -INF, 5e-324, 1.7976931348623157e308]
    if k == 'str':
        return ['', 'a', 'zé\U0001f600\x00\n"']
    if k == 'bool':
        return [False, True]
    if k == 'call':
        C = hl.Call
        return [C([]), C([0]), C([3]), C([2], phased=True), C([0, 0]), C([1, 2]), C([0, 1], phased=True),
                C([2, 1], phased=True), C([7, 7]), C([300, 301]),
                # beyond the 36-entry small-pair table, incl. exactly triangular genotype indices (first allele 0)
                C([0, 8]), C([0, 9]), C([0, 9], phased=True), C([8, 8]), C([8, 9]), C([0, 300]), C([5, 40], phased=True)]
    if k == 'locus':
        rg = hl.get_reference(T[1])
        cs = rg.contigs
        return [hl.Locus(cs[0], 1, rg), hl.Locus(cs[len(cs) // 2], rg.lengths[cs[len(cs) // 2]], rg),
                hl.Locus(cs[-1], min(17, rg.lengths[cs[-1]]), rg)]
    if k == 'interval':
        pt = hail_type(T[1])
        ps = values(T[1], frozen, False)
        a, b = ps[0], ps[1 % len(ps)]
        out = [hl.Interval(a, b, i_s, i_e, point_type=pt) for i_s in (True, False) for i_e in (True, False)]
        out += [hl.Interval(None, b, True, False, point_type=pt), hl.Interval(a, None, False, True, point_type=pt),
                hl.Interval(None, None, True, True, point_type=pt)]
        for i, p in enumerate(ps[2:]):
            out.append(hl.Interval(p, ps[(i + 3) % len(ps)], i % 2 == 0, i % 3 == 0, point_type=pt))
        return out
    if k == 'array':
        es = values(T[1], frozen, False)
        mk = frozenlist if frozen else list
        out = [mk([]), mk([None])]
        for ch in _chunks(es, 2):
            out.append(mk(ch))
        if es:
            out.append(mk([es[0], None]))
            out.append(mk([None, es[-1], None]))
            nine = [es[i % len(es)] for i in range(9)]
            nine[1] = None
            nine[8] = None
            out.append(mk(nine))
            out.append(mk([None] * 8 + [es[-1]]))
        return out
    if k == 'set':
        es = _uniq(T[1], [e for e in values(T[1], True, False) if not has_nan(T[1], e)])
        mk = frozenset if frozen else set
        out = [mk(), mk([None])]
        for ch in _chunks(es, 2):
            out.append(mk(ch))
        if es:
            out.append(mk([None, es[0]]))
        return out
    if k == 'dict':
        ks = _uniq(T[1], [e for e in values(T[1], True, False) if not has_nan(T[1], e)])
        vs = values(T[2], frozen, False)
        mk = frozendict if frozen else dict
        out = [mk({})]
        n = max(len(ks), len(vs), 1)
        pairs = [(ks[i % len(ks)] if ks else None, vs[i % len(vs)] if vs else None) for i in range(n)]
        for ch in _chunks(pairs, 2):
            out.append(mk(dict(ch)))
        out.append(mk({None: vs[0] if vs else None}))
        if ks:
            out.append(mk({ks[0]: None, None: None}))
            if len(ks) > 1:
                out.append(mk({ks[1]: vs[-1] if vs else None, ks[0]: None}))
        return out
    if k in ('struct', 'tuple'):
        fts = [ft for _, ft in T[1]] if k == 'struct' else list(T[1])
        names = [n for n, _ in T[1]] if k == 'struct' else None
        doms = [values(ft, frozen, False) for ft in fts]

        def mk(xs):
            return hl.Struct(**dict(zip(names, xs))) if k == 'struct' else tuple(xs)

        if not fts:
            return [mk([])]
        n = max(len(d) for d in doms)
        out = [mk([d[(i + j) % len(d)] for j, d in enumerate(doms)]) for i in range(n)]
        out.append(mk([None] * len(fts)))
        for j in range(min(len(fts), 2)):
            row = [d[-1] for d in doms]
            row[j] = None
            out.append(mk(row))
        if len(fts) > 8:
            row = [d[0] for d in doms]
            row[8] = None
            out.append(mk(row))
            row = [None] * len(fts)
            row[8] = doms[8][-1]
            out.append(mk(row))
        if k == 'struct' and len(fts) >= 2:
            # the same values with the fields in another order than the type declares (tstruct accepts any Mapping
            # with the right names): hail Structs with permuted fields and, where hashing is not needed, plain dicts
            from vf.props import c32

            decl = list(out)
            re_full, re_short = c32._reordered(list(T[1]), decl, frozen)
            # every permutation (and dicts in every order) for whole-literal structs whose fields are leaves or that
            # have 3+ fields; the short selection (reversed Struct + reversed dict) everywhere else
            full = top and (len(fts) >= 3 or depth(T) <= 1)
            out = decl + (re_full if full else re_short)
            if not full:
                # nested selection: also one reversed value whose missing-field pattern is not symmetric, so that
                # missing bits taken by position instead of by name show up one level down as well
                def asym(v):
                    m = [v[n] is None for n in names]
                    return m != m[::-1]

                part = next((v for v in decl if asym(v)), None)
                if part is not None:
                    out.append(hl.Struct(**{n: part[n] for n in reversed(names)}))
                    if not frozen:
                        out.append({n: part[n] for n in reversed(names)})
        return out
    if k == 'ndarray':
        et, nd = T[1][0], T[2]
        dt = {'int32': np.int32, 'int64': np.int64, 'float32': np.float32, 'float64': np.float64, 'bool': np.bool_}[et]
        shapes = {1: [(0,), (3,), (1,)], 2: [(2, 3), (0, 2), (3, 1)], 3: [(2, 0, 2), (2, 1, 3), (2, 2, 2)]}[nd]
        specials = [v for v in values((et,)) if et != 'bool']
        out = []
        for sh in shapes:
            size = int(np.prod(sh))
            if et == 'bool':
                flat = [(i * 5 % 3) == 0 for i in range(size)]
            elif et.startswith('float'):
                flat = [specials[i % len(specials)] if i % 2 else float(i) + 0.5 for i in range(size)]
            else:
                flat = [specials[i % len(specials)] if i % 3 == 2 else i + 1 for i in range(size)]
            base = np.array(flat, dtype=dt).reshape(sh)
            out.append(np.ascontiguousarray(base))
            out.append(np.asfortranarray(base))
            if nd >= 2 and size:
                # a non-contiguous view with the same logical content
                big = np.zeros(tuple(2 * s for s in sh), dtype=dt)
                view = big[tuple(slice(None, None, 2) for _ in sh)]
                view[...] = base
                out.append(view)
        return out
    raise ValueError(T)


# ------------------------------------------------------------------ canonical form of hail values

def canon(T, v):
    """Canonical, hashable, order-free form.  NaN is a single token; +0.0 == -0.0 (Python `==`)."""
    if v is None:
        return ('NA',)
    import numpy as np

    k = T[0]
    if k in ('int32', 'int64'):
        if isinstance(v, bool) or not isinstance(v, (int, np.integer)):
            raise TypeError(f'{k} value is a {type(v).__name__}')
        return ('i', int(v))
    if k in ('float32', 'float64'):
        if not isinstance(v, (float, np.floating)):
            raise TypeError(f'{k} value is a {type(v).__name__}')
        v = float(v)
        return ('f', 'nan') if v != v else ('f', v + 0.0 if v != 0 else 0.0)
    if k == 'str':
        if not isinstance(v, str):
            raise TypeError(f'str value is a {type(v).__name__}')
        return ('s', v)
    if k == 'bool':
        if not isinstance(v, (bool, np.bool_)):
            raise TypeError(f'bool value is a {type(v).__name__}')
        return ('b', bool(v))
    if k == 'call':
        return ('call', int(v.ploidy), bool(v.phased), tuple(int(a) for a in v.alleles))
    if k == 'locus':
        return ('locus', str(v.contig), int(v.position), str(v.reference_genome.name))
    if k == 'interval':
        return ('iv', canon(T[1], v.start), canon(T[1], v.end), bool(v.includes_start), bool(v.includes_end))
    if k == 'array':
        if isinstance(v, (str, bytes, set, frozenset, dict)):
            raise TypeError(f'array value is a {type(v).__name__}')
        return ('arr', tuple(canon(T[1], x) for x in v))
    if k == 'set':
        if not isinstance(v, (set, frozenset)):
            raise TypeError(f'set value is a {type(v).__name__}')
        return ('set', tuple(sorted((canon(T[1], x) for x in v), key=repr)))
    if k == 'dict':
        return ('dict', tuple(sorted(((canon(T[1], a), canon(T[2], b)) for a, b in v.items()), key=repr)))
    if k == 'struct':
        if len(v) != len(T[1]):
            raise TypeError('struct has wrong number of fields')
        return ('st', tuple(canon(ft, v[n]) for n, ft in T[1]))
    if k == 'tuple':
        if not isinstance(v, tuple) or len(v) != len(T[1]):
            raise TypeError('tuple has wrong shape')
        return ('tu', tuple(canon(ft, x) for ft, x in zip(T[1], v)))
    if k == 'ndarray':
        if not isinstance(v, np.ndarray):
            raise TypeError(f'ndarray value is a {type(v).__name__}')
        if v.ndim != T[2]:
            raise TypeError(f'ndarray has {v.ndim} dimensions, type says {T[2]}')
        want = {'int32': 'int32', 'int64': 'int64', 'float32': 'float32', 'float64': 'float64', 'bool': 'bool'}[T[1][0]]
        if str(v.dtype) != want:
            raise TypeError(f'ndarray dtype {v.dtype}, expected {want}')
        return ('nd', tuple(int(s) for s in v.shape), tuple(canon(T[1], x.item()) for x in v.flatten('C')))
    raise ValueError(T)


# ------------------------------------------------------------------ reference decoder (bytes + EType -> raw tree -> canon)

class Layout(Exception):
    """The bytes do not have the layout the engine expects."""


class _R:
    def __init__(self, b):
        self.b, self.o = b, 0

    def take(self, n):
        if n < 0 or self.o + n > len(self.b):
            raise Layout(f'reference decoder ran past the end of the buffer (want {n} bytes at offset {self.o} of {len(self.b)})')
        x = self.b[self.o:self.o + n]
        self.o += n
        return x

    def fmt(self, f):
        return struct.unpack('<' + f, self.take(struct.calcsize('<' + f)))[0]


def ref_decode(r, e):
    k = e[0]
    if k == 'EInt32':
        return r.fmt('i')
    if k == 'EInt64':
        return r.fmt('q')
    if k == 'EFloat32':
        return r.fmt('f')
    if k == 'EFloat64':
        return r.fmt('d')
    if k == 'EBoolean':
        x = r.take(1)[0]
        if x not in (0, 1):
            raise Layout(f'boolean byte {x}')
        return x == 1
    if k == 'EBinary':
        n = r.fmt('i')
        return bytes(r.take(n))
    if k == 'EBaseStruct':
        opt = [i for i, (_, ft, _) in enumerate(e[1]) if not ft[-1]]
        mbytes = r.take((len(opt) + 7) // 8)
        bit = {i: j for j, i in enumerate(opt)}
        out = []
        for i, (_, ft, _) in enumerate(e[1]):
            if i in bit and (mbytes[bit[i] // 8] >> (bit[i] % 8)) & 1:
                out.append(None)
            else:
                out.append(ref_decode(r, ft))
        return out
    if k in ('EArray', 'EUnsortedSet', 'EDictAsUnsortedArrayOfPairs'):
        n = r.fmt('i')
        if n < 0:
            raise Layout(f'negative length {n}')
        if n > 8 * (len(r.b) - r.o) + 8 and n > 64:
            raise Layout(f'length {n} exceeds what the remaining bytes can hold')
        el = e[1]
        mbytes = None if el[-1] else r.take((n + 7) // 8)
        out = []
        for i in range(n):
            if mbytes is not None and (mbytes[i // 8] >> (i % 8)) & 1:
                out.append(None)
            else:
                out.append(ref_decode(r, el))
        return out
    if k == 'ENDArrayColumnMajor':
        if not e[1][-1]:
            raise Layout('engine declares an n-d array with optional elements; its codec has no missing bits for them')
        shape = [r.fmt('q') for _ in range(e[2])]
        if any(s < 0 for s in shape):
            raise Layout(f'negative dimension in {shape}')
        n = math.prod(shape)
        if n > len(r.b) - r.o:
            raise Layout(f'n-d array shape {shape} needs more elements than there are bytes left')
        return ('nd', shape, [ref_decode(r, e[1]) for _ in range(n)])
    raise Layout(f'unknown EType {k}')


def _isqrt_pair(idx):
    k = (math.isqrt(8 * idx + 1) - 1) // 2
    return idx - k * (k + 1) // 2, k


def interpret(T, e, raw):
    """Raw tree decoded under EType e, read as a value of virtual type T, in canonical form."""
    if raw is None:
        return ('NA',)
    k = T[0]
    phys = {'int32': 'EInt32', 'int64': 'EInt64', 'float32': 'EFloat32', 'float64': 'EFloat64', 'bool': 'EBoolean',
            'str': 'EBinary', 'call': 'EInt32'}
    if k in phys:
        if e[0] != phys[k]:
            raise Layout(f'engine encodes {k} as {e[0]}')
        if k in ('int32', 'int64'):
            return ('i', raw)
        if k in ('float32', 'float64'):
            return ('f', 'nan') if raw != raw else ('f', raw if raw != 0 else 0.0)
        if k == 'bool':
            return ('b', raw)
        if k == 'str':
            return ('s', raw.decode('utf-8'))
        u = raw & 0xFFFFFFFF
        phased, ploidy, rep = bool(u & 1), (u >> 1) & 3, u >> 3
        if ploidy == 0:
            alleles = ()
        elif ploidy == 1:
            alleles = (rep,)
        elif ploidy == 2:
            j, kk = _isqrt_pair(rep)
            alleles = (j, kk - j) if phased else (j, kk)
        else:
            raise Layout(f'call ploidy {ploidy}')
        return ('call', ploidy, phased, alleles)
    if k == 'locus':
        if e[0] != 'EBaseStruct' or len(e[1]) != 2:
            raise Layout('engine does not encode a locus as a 2-field struct')
        c = interpret(('str',), e[1][0][1], raw[0])
        p = interpret(('int32',), e[1][1][1], raw[1])
        if c == ('NA',) or p == ('NA',):
            raise Layout('locus with missing contig/position')
        return ('locus', c[1], p[1], T[1])
    if k == 'interval':
        if e[0] != 'EBaseStruct' or len(e[1]) != 4:
            raise Layout('engine does not encode an interval as a 4-field struct')
        s = interpret(T[1], e[1][0][1], raw[0])
        t = interpret(T[1], e[1][1][1], raw[1])
        a = interpret(('bool',), e[1][2][1], raw[2])
        b = interpret(('bool',), e[1][3][1], raw[3])
        if a == ('NA',) or b == ('NA',):
            raise Layout('interval with missing inclusivity flag')
        return ('iv', s, t, a[1], b[1])
    if k == 'array':
        if e[0] != 'EArray':
            raise Layout(f'engine encodes array as {e[0]}')
        return ('arr', tuple(interpret(T[1], e[1], x) for x in raw))
    if k == 'set':
        if e[0] != 'EUnsortedSet':
            raise Layout(f'engine encodes set as {e[0]} (python sends elements unsorted)')
        return ('set', tuple(sorted((interpret(T[1], e[1], x) for x in raw), key=repr)))
    if k == 'dict':
        if e[0] != 'EDictAsUnsortedArrayOfPairs' or e[1][0] != 'EBaseStruct' or len(e[1][1]) != 2:
            raise Layout(f'engine encodes dict as {e[0]} (python sends unsorted key/value pairs)')
        kv = e[1][1]
        pairs = []
        for x in raw:
            if x is None:
                raise Layout('missing dict entry')
            pairs.append((interpret(T[1], kv[0][1], x[0]), interpret(T[2], kv[1][1], x[1])))
        return ('dict', tuple(sorted(pairs, key=repr)))
    if k in ('struct', 'tuple'):
        fts = [ft for _, ft in T[1]] if k == 'struct' else list(T[1])
        if e[0] != 'EBaseStruct' or len(e[1]) != len(fts):
            raise Layout(f'engine encodes {k} as {e[0]} with {len(e[1]) if e[0] == "EBaseStruct" else "?"} fields')
        return ('st' if k == 'struct' else 'tu', tuple(interpret(ft, ef[1], x) for ft, ef, x in zip(fts, e[1], raw)))
    if k == 'ndarray':
        if e[0] != 'ENDArrayColumnMajor' or e[2] != T[2]:
            raise Layout(f'engine encodes ndarray as {e[0]}')
        _, shape, data = raw
        elems = [interpret(T[1], e[1], x) for x in data]
        # column-major -> row-major
        n = len(shape)
        cstr = [0] * n
        acc = 1
        for d in range(n):
            cstr[d] = acc
            acc *= shape[d]
        out = []
        if elems:
            for idx in itertools.product(*[range(s) for s in shape]):
                out.append(elems[sum(i * s for i, s in zip(idx, cstr))])
        return ('nd', tuple(shape), tuple(out))
    raise ValueError(T)


# ------------------------------------------------------------------ engine side

_engine = {}


def engine_etype(T):
    if 'ev' not in _engine:
        from vf import c33_engine

        _engine['ev'] = c33_engine.evaluator(boot.repo())
    return _engine['ev'].etype(T)


def _jvm_cross_check(types):
    """If the JVM slice of EType.scala (vf/jvm_engine_side.py, built by another component) is present and works,
    it is the source of truth: every type's EType, pretty-printed, must equal the extractor's."""
    import importlib.util
    from pathlib import Path

    p = Path(__file__).resolve().parent.parent / 'jvm_engine_side.py'
    if not p.exists():
        return 'extractor', 0
    try:
        spec = importlib.util.spec_from_file_location('vf.jvm_engine_side', p)
        mod = importlib.util.module_from_spec(spec)
        spec.loader.exec_module(mod)
        strs = [hail_type(T)._parsable_string() for T in types]
        got = []
        for i in range(0, len(strs), 50000):
            part = mod.etype_from_python_encoding(strs[i:i + 50000])
            got.extend([part[s] for s in strs[i:i + 50000]] if isinstance(part, dict) else part)
    except Exception as ex:  # noqa: BLE001   (JVM slice unavailable: fall back, and say so)
        return f'extractor (jvm slice present but unusable: {type(ex).__name__}: {str(ex)[:120]})', 0
    from vf import c33_engine

    def norm(s):
        return ''.join(str(s).split()).replace('`', '')

    if len(got) != len(types):
        raise RuntimeError('jvm_engine_side returned a different number of results')
    for T, g in zip(types, got):
        mine = c33_engine.pretty(engine_etype(T))
        if norm(g) != norm(mine):
            raise RuntimeError(f'EType.scala extractor disagrees with the JVM slice for {tstr(T)}: {mine} vs {g}')
    return 'jvm slice (cross-checked against the source extractor)', len(types)


# ------------------------------------------------------------------ one case

def top_constructor(T):
    return T[0]


def encode(t, v):
    """The front end's real entry: hl.literal -> EncodedLiteral -> base64 text in the IR."""
    import hail as hl
    from hail.ir import EncodedLiteral

    ir = hl.literal(v, t)._ir
    via = 'literal'
    if not isinstance(ir, EncodedLiteral):
        # primitives become I32/Str/... nodes at top level; their encoding is still what nested positions and
        # engine results use
        ir = EncodedLiteral(t, v)
        via = 'direct'
    text = ir.encoded_value
    if f'"{text}"' not in ir.head_str():
        raise RuntimeError('EncodedLiteral.head_str does not carry encoded_value')
    return base64.b64decode(text, validate=True), via


def run_case(T, t, v):
    """-> (violation | None, info)   violation = (oracle, message)"""
    want = canon(T, v)
    info = {'want': want}
    try:
        b, via = encode(t, v)
    except Exception as ex:  # noqa: BLE001
        if type(ex).__name__ in ('ShimGap', 'NoEngine'):
            raise
        return ('encode-raised', f'{type(ex).__name__}: {ex}'), info
    info['bytes'] = len(b)
    info['via'] = via
    try:
        d = t._from_encoding(b)
    except Exception as ex:  # noqa: BLE001
        if type(ex).__name__ in ('ShimGap', 'NoEngine'):
            raise
        return ('decode-raised', f'{type(ex).__name__}: {ex}; bytes={b.hex()}'), info
    try:
        got = canon(T, d)
    except (TypeError, AttributeError, KeyError, IndexError) as ex:
        return ('roundtrip-mismatch', f'decoded value has the wrong Python shape: {ex}; decoded={d!r}'), info
    if got != want:
        return ('roundtrip-mismatch', f'decoded {d!r}; bytes={b.hex()}'), info
    e = engine_etype(T)
    r = _R(b)
    try:
        ref = interpret(T, e, ref_decode(r, e))
    except Layout as ex:
        return ('layout-mismatch', f'{ex}; bytes={b.hex()}'), info
    except UnicodeDecodeError as ex:
        return ('layout-mismatch', f'string bytes are not UTF-8: {ex}; bytes={b.hex()}'), info
    if r.o != len(b):
        return ('layout-mismatch', f'engine layout consumes {r.o} of {len(b)} bytes; bytes={b.hex()}'), info
    if ref != want:
        return ('layout-mismatch', f'engine layout reads {ref!r}; bytes={b.hex()}'), info
    return None, info


def nontrivial(want):
    """rule: the value contains at least one missing position or one variable-length part (str/array/set/dict/ndarray)"""
    s = repr(want)
    return "'NA'" in s or any(f"'{k}'" in s for k in ('s', 'arr', 'set', 'dict', 'nd'))


def _widths(T):
    """'9' if some struct in T has more than 8 fields (a second missing-bit byte)"""
    return '9' if any(len(x[1]) > 8 for x in _structs(T)) else ''


def _structs(T):
    k = T[0]
    if k in LEAVES:
        return
    if k in ('array', 'set', 'interval', 'ndarray'):
        yield from _structs(T[1])
    elif k == 'dict':
        yield from _structs(T[1])
        yield from _structs(T[2])
    elif k == 'struct':
        yield T
        for _, ft in T[1]:
            yield from _structs(ft)
    else:
        for ft in T[1]:
            yield from _structs(ft)


def _work(chunk):
    from vf import hailenv

    hailenv.install_dummy_context()
    res = {'evals': 0, 'nontrivial': 0, 'with_missing': 0, 'bytes': 0, 'viol': [], 'types': 0, 'fortran': 0,
           'reordered': 0, 'dict_struct': 0, 'reordered_wide': 0,
           'via_literal': 0, 'etypes': set(), 'samples': [], 'max_bytes': 0}
    for T in chunk:
        t = hail_type(T)
        res['types'] += 1
        res['etypes'].add(repr(engine_etype(T)))
        multi = any(len(x[1]) >= 2 for x in _structs(T))  # only such types can hold reordered struct values
        wide = multi and _widths(T) == '9'
        for i, v in enumerate(values(T)):
            verdict, info = run_case(T, t, v)
            res['evals'] += 1
            w = repr(info['want'])
            if "'NA'" in w or any(f"'{k}'" in w for k in ('s', 'arr', 'set', 'dict', 'nd')):  # == nontrivial(want)
                res['nontrivial'] += 1
            if "'NA'" in w:
                res['with_missing'] += 1
            if multi:
                ro, ds = reordered(T, v)
                res['reordered'] += ro
                res['dict_struct'] += ds
                if ro and wide:
                    res['reordered_wide'] += 1
            if T[0] == 'ndarray' and v.ndim > 1 and v.size > 1 and not v.flags['C_CONTIGUOUS']:
                res['fortran'] += 1
            res['bytes'] += info.get('bytes', 0)
            res['max_bytes'] = max(res['max_bytes'], info.get('bytes', 0))
            res['via_literal'] += info.get('via') == 'literal'
            if verdict is not None:
                res['viol'].append((verdict[0], T, i, f'{tstr(T)} value #{i} {v!r}: {verdict[1]}'[:1500]))
            elif len(res['samples']) < 1 and i == len(values(T)) - 1:
                res['samples'].append({'type': tstr(T), 'value': repr(v)[:200], 'bytes': info.get('bytes')})
    res['etypes'] = sorted(res['etypes'])
    return res


def check(tier, seed, procs):
    from vf import hailenv

    hailenv.install_dummy_context()
    types = type_space(tier)
    source, n_cross = _jvm_cross_check(types)
    for T in types[:50]:
        engine_etype(T)  # extractor failures surface here, before forking
    n_chunks = max(1, min(len(types), procs * 8))
    chunks = [types[i::n_chunks] for i in range(n_chunks)]
    rows = par.pmap(_work, par.rotate(chunks, seed), procs, chunksize=1)
    tot = {k: sum(r[k] for r in rows) for k in ('evals', 'nontrivial', 'with_missing', 'bytes', 'types', 'fortran', 'via_literal', 'reordered', 'dict_struct', 'reordered_wide')}
    etypes = set()
    for r in rows:
        etypes.update(r['etypes'])
    viol = [v for r in rows for v in r['viol']]
    viol.sort(key=lambda x: (depth(x[1]), len(tstr(x[1])), tstr(x[1]), x[2]))
    violations = []
    for oracle, T, i, msg in viol:
        violations.append({'signature': f'{oracle}:{top_constructor(T)}', 'message': msg,
                           'replay': {'type': T, 'value_index': i}})
    samples = sorted((s for r in rows for s in r['samples']), key=lambda s: s['type'])[:5]
    by_depth = {}
    for T in types:
        by_depth[depth(T)] = by_depth.get(depth(T), 0) + 1
    cov = {
        'evaluations': tot['evals'],
        'distinct_nontrivial': tot['nontrivial'],
        'rule': 'a (type, value) case is non-trivial when the value contains a missing position or a variable-length '
                'part (string, array, set, dict, n-d array); every case is distinct by construction',
        'samples': samples,
        'exhaustive': True,
        'bounds': ('types: leaves {int32,int64,float32,float64,str,bool,call,locus<GRCh37>}; constructors array, set, '
                   'interval, dict, struct(<=2 fields), tuple(<=2), ndarray<numeric|bool,1..3>; '
                   + ('depth<=1 complete; depth 2 = every unary constructor over every depth-1 type and every binary '
                      'constructor over (depth-1 type) x {int32,str} in both positions'
                      if tier == 'quick' else
                      'depth<=2 complete (binary constructors over all pairs of depth<=1 types); depth 3 = array / '
                      'struct / dict-value / tuple wrappers around every unary depth-2 type')
                   + '; plus 3/4/9/10/17-field structs (top level and one level inside array / dict value / tuple / struct / interval) and 9-field tuples; values: per-type covering domains (see values()), every struct with >= 2 fields also as hail Struct with permuted fields (all permutations up to 3 fields, reversed + one rotation beyond) and as plain dict in declared and permuted order (nested, or 2-field structs of depth 2+: reversed only, one with all fields present and one with an asymmetric missing pattern)'),
        'types': tot['types'],
        'types_by_depth': {str(k): v for k, v in sorted(by_depth.items())},
        'cases_with_missing': tot['with_missing'],
        'cases_with_struct_fields_in_another_order': tot['reordered'],
        'cases_with_plain_dict_as_struct': tot['dict_struct'],
        'reordered_cases_with_more_than_8_fields': tot['reordered_wide'],
        'noncontiguous_or_fortran_ndarrays': tot['fortran'],
        'encoded_via_hl_literal': tot['via_literal'],
        'encoded_bytes_total': tot['bytes'],
        'distinct_engine_etypes': len(etypes),
        'engine_side_source': source,
        'engine_types_cross_checked_on_jvm': n_cross,
    }
    vac = None
    if (tot['with_missing'] == 0 or tot['fortran'] == 0 or tot['via_literal'] == 0 or len(etypes) < 10
            or tot['reordered'] == 0 or tot['dict_struct'] == 0 or tot['reordered_wide'] == 0):
        vac = f'domain did not reach missing values / Fortran arrays / EncodedLiteral ({tot})'
    return {
        'coverage': cov,
        'violations': violations,
        'assumptions': [
            'engine side = the EType tree declared by EType.fromPythonTypeEncoding, ' + source + '; the byte meaning of each '
            'EType (missing bytes only for non-required fields/elements, little-endian primitives, int32 lengths, '
            'int64 shape + column-major data) is the reference decoder written for this check from the property '
            'statement, not the JVM codecs themselves',
            'engine type hierarchy used by the extractor: TArray/TSet/TDict <: TIterable, TStruct/TTuple <: TBaseStruct, '
            'TDict.elementType = struct{key,value}, tuple fields named by index',
            'equality is Python == extended with NaN == NaN (so +0.0 and -0.0 are equal); set elements and dict keys '
            'containing NaN are not in the domain (Python cannot look them up)',
            'n-d array elements are the numpy-representable types int32, int64, float32, float64, bool; n-d arrays are '
            'not used as set elements / dict keys (unhashable in Python)',
            'float32 values are exactly representable in float32',
            'top-level missing values are not encoded (hl.literal(None) is an NA node); top-level primitives are '
            'encoded through EncodedLiteral(t, v) directly because hl.literal emits I32/Str/... for them',
        ],
        'vacuous': vac,
    }


def _tuplify(x):
    return tuple(_tuplify(y) for y in x) if isinstance(x, list) else x


def replay(obj):
    from vf import hailenv

    hailenv.install_dummy_context()
    T = _tuplify(obj['type'])
    v = values(T)[obj['value_index']]
    verdict, _ = run_case(T, hail_type(T), v)
    if verdict is None:
        return True, f'{tstr(T)} value {v!r}: round-trips and matches the engine layout'
    return False, f'{tstr(T)} value {v!r}: {verdict[0]}: {verdict[1]}'
