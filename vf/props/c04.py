"""C04  Jobs follow the lifecycle and complete at most once (see vf/batchfamily.py)."""
from vf import batchfamily as bf
from vf.props import c01 as base

NEEDS_SERVICES = True
PID = 'C04'
MONITORS = tuple('C04'.split(','))


# quick: reordered job_started reports yes, job-private path and staging-cleaner window no (C01 / C07 / C06 have them)
OPTS = {'quick': {'late_started': True, 'sweep_windows': False}, 'thorough': {'job_private': True}}


def check(tier, seed, procs):
    # statement-level interleavings of the lifecycle procedures (vf/txpairs.py): two overlapping completion reports of one
    # attempt, a completion racing a cancel / a commit ...; every interleaving must end like some serial order
    from vf import txpairs

    phase = txpairs.run_phase(tier, procs, ('C01', 'C06', 'C41'))
    depth = 5 if tier == 'quick' else 8
    res = bf.run(MONITORS, base.setups(tier), tier, depth, procs, opts=OPTS[tier], time_budget=55 if tier == 'quick' else 900)
    cov = bf.coverage(res, f'1 batch, update 1 committed (2-3 jobs, 1-2 nested groups), update 2 submitted step by step '
                           f'(1-2 jobs, 0-1 groups, 1-2 bunches; one setup: batch already complete + group-only update), 2 pool instances, depth {depth}; monitors {MONITORS}')
    out = {'coverage': cov, 'violations': res.violations, 'assumptions': bf.ASSUME,
           'vacuous': None if res.states > 100 else f'only {res.states} states'}
    return txpairs.merge_into(out, phase)


def replay(obj):
    if 'txpair' in obj:
        from vf import txpairs

        return txpairs.replay(obj)
    from vf import dbmc

    v = dbmc.replay_history(bf.Family, (sorted(MONITORS), base.setups('thorough'), 'thorough', OPTS['thorough']), obj['history'])
    return (not v), (v[0][1] if v else 'no violation')
