"""C08  Accepted job graphs can always finish.

Bounded-exhaustive enumeration of job submissions (the bunch of an update with 2 reserved jobs, sent
through the real front_end._create_jobs after the real validate_and_clean_jobs): job ids in and outside the
reserved range, every choice of in-update and absolute parents among {earlier, self, later, missing}.
Well-formed (every parent already exists earlier in the batch, ids in range) => accepted, and after
commit and driving every runnable job to success with the real scheduler sweep the batch is complete.
Ill-formed => refused with an HTTP error and the database unchanged.
"""
import itertools

from vf import batchfamily as bf
from vf import batchops as ops
from vf import par

NEEDS_SERVICES = True
J = ops.job_spec
N2 = 2          # jobs reserved by the open update
# variant 'later': update 1 has jobs 1, 2 (committed); update 2 reserved id 3 but was abandoned; update 3 (ids 4-5) is open
# variant 'first': a fresh batch whose FIRST update (ids 1-2) is open (commit_batch_update recomputes nothing for update 1,
#                  so what _create_jobs stores is final)
# variants 'later@succ' / 'later@fail' / 'later@mid': as 'later', but the existing jobs are no longer untouched when the open update's
#                  bunch arrives and is committed: both succeeded / job 1 failed and its child job 2 was cancelled by the canceller /
#                  job 1 is running.  commit_batch_update derives the new jobs' n_pending_parents / state / cancelled from the parents'
#                  CURRENT states, one spelling per terminal state.
VARIANTS = {'later': {'start': 4, 'upd': 3, 'existing': (1, 2)}, 'first': {'start': 1, 'upd': 1, 'existing': ()},
            'later@succ': {'start': 4, 'upd': 3, 'existing': (1, 2)}, 'later@fail': {'start': 4, 'upd': 3, 'existing': (1, 2)},
            'later@mid': {'start': 4, 'upd': 3, 'existing': (1, 2)}}
LATER = ('later', 'later@succ', 'later@fail', 'later@mid')

_W = None
_BASE = {}


def world(variant):
    global _W
    if _W is None:
        _W = ops.BatchWorld(instances=(('i1', 'standard', 'active'),))
        pristine = _W.snapshot()
        A = lambda l: ops.apply(_W, l)
        A(('new_batch', 'u1', 't1', 2, 0))
        A(('new_update', 'u1', 't1', N2, 0))
        _BASE['first'] = _W.snapshot()
        for v in LATER:
            _W.restore(_BASE['first'])
            A(('add_jobs', 'u1', 1, [J(1, abs_group=0), J(2, abs_group=0, parents=[1] if v == 'later@fail' else [])]))
            A(('commit_tail', 'u1', 1))
            if v == 'later@succ':
                drive(_W)
            elif v == 'later@fail':
                A(('sched', None, 'i1'))
                att = [a for a in _W.table('attempts') if a['job_id'] == 1][0]['attempt_id']
                A(('complete', 1, att, 'i1', 'Failed', 10, 20))
                A(('canceller', 'ready'))
            elif v == 'later@mid':
                A(('sched', None, 'i1'))
            A(('new_update', 'u1', 't2', 1, 0))   # abandoned: its reserved job id 3 is never filled
            A(('new_update', 'u1', 't3', N2, 0))
            _BASE[v] = _W.snapshot()
        st = {v: sorted((j['job_id'], j['state']) for j in _W.restore(_BASE[v]) or _W.table('jobs')) for v in LATER}
        assert st['later@succ'] == [(1, 'Success'), (2, 'Success')] and st['later@fail'] == [(1, 'Failed'), (2, 'Cancelled')] \
            and st['later@mid'][0] == (1, 'Running'), st
    return _W, _BASE[variant]


def requests(tier):
    """(variant, ids, [(in_update_parents, absolute_parents), ...])"""
    out = []
    for variant in LATER + ('first',):
        inup = [(), (1,), (2,), (3,)] + ([(1, 2)] if tier != 'quick' else [])
        if variant in LATER:
            absp = [(), (1,), (2,), (3,), (4,), (5,), (9,), (1, 1)] + ([(2, 4)] if tier != 'quick' else [])
        else:
            absp = [(), (1,), (2,), (3,), (9,), (1, 1)]
        for first in (1, 2) if (variant in ('later', 'first') or tier != 'quick') else ():  # in-update id of the first spec (validator demands contiguous ids)
            ids = (first, first + 1)
            for p1 in itertools.product(inup, absp):
                for p2 in itertools.product(inup, absp):
                    out.append((variant, ids, (p1, p2)))
        # single-spec bunches (the other job of the update arrives in a second, well-formed bunch)
        for jid in (1, 2, 3):
            for p in itertools.product(inup, absp):
                out.append((variant, (jid,), (p,)))
        # the same single-spec bunches WITHOUT the second bunch: the update has a hole and must not be committable
        for jid in (1, 2) if (variant in ('later', 'first') or tier != 'quick') else ():
            for p in itertools.product(inup, absp):
                out.append((variant + '+hole', (jid,), (p,)))
    return out


def classify(variant, ids, parents):
    """Reference well-formedness from the statement.  Returns list of defect classes (empty = well-formed)."""
    V = VARIANTS[variant]
    start, existing = V['start'], V['existing']
    bad = []
    for jid, (inup, absp) in zip(ids, parents):
        a = start + jid - 1
        if not (1 <= jid <= N2):
            bad.append('job-id-outside-range')
        for p in inup:
            if p == jid:
                bad.append('self-parent')
            elif p > jid:
                bad.append('later-parent' if p <= N2 else 'missing-parent')
            elif p < 1:
                bad.append('missing-parent')
        for p in absp:
            if p == a:
                bad.append('self-parent')
            elif p in existing:
                pass
            elif start <= p < start + N2:
                if p > a:
                    bad.append('later-parent')
            else:
                bad.append('missing-parent')   # reserved by the abandoned update, or beyond every range
        named = [start + p - 1 for p in inup] + list(absp)
        if len(set(named)) != len(named):
            bad.append('duplicate-parent')
    return sorted(set(bad))


def drive(w):
    """Run the real scheduler sweep and complete everything that runs, until nothing changes."""
    for _ in range(12):
        before = [(j['job_id'], j['state']) for j in w.table('jobs')]
        ops.apply(w, ('sched', None, 'i1'))
        ops.apply(w, ('canceller', 'ready'))   # a job whose parent did not succeed becomes Ready + cancelled: the canceller finishes it
        for a in w.table('attempts'):
            if a['end_time'] is None:
                ops.apply(w, ('complete', a['job_id'], a['attempt_id'], 'i1', 'Success', 10, 20))
        if [(j['job_id'], j['state']) for j in w.table('jobs')] == before:
            break


def evaluate(req):
    variant, ids, parents = req
    hole = variant.endswith('+hole')
    variant = variant.split('+')[0]
    UPD = VARIANTS[variant]['upd']
    w, base = world(variant)
    w.restore(base)
    dump0 = w.mdb.store.dump(drop=bf.DROP)
    specs = [J(jid, parents=list(ip), abs_parents=list(ap), abs_group=0) for jid, (ip, ap) in zip(ids, parents)]
    classes = classify(variant, ids, parents)
    obs = ops.apply(w, ('add_jobs', 'u1', UPD, specs))
    accepted = obs.get('status') == 200
    res = {'req': req, 'classes': classes, 'accepted': accepted, 'viol': None}
    dup_only = classes == ['duplicate-parent']
    if dup_only and not accepted:
        # naming the same existing dependency twice is not one of the malformations the statement lists, so a refusal is not
        # demanded - but a refusal must leave the batch unchanged, and an acceptance must leave the batch able to finish (below)
        if w.mdb.store.dump(drop=bf.DROP) != dump0:
            res['viol'] = ('refused-submission-changed-store', f'submission {describe(req)} was refused ({obs}) but the database changed')
        return res
    classes = [c for c in classes if c != 'duplicate-parent']
    res['classes'] = classes
    if classes:
        if accepted:
            res['viol'] = ('accepted:' + classes[0], f'submission {describe(req)} has {classes} but was accepted (HTTP 200)')
        elif w.mdb.store.dump(drop=bf.DROP) != dump0:
            res['viol'] = ('refused-submission-changed-store', f'submission {describe(req)} was refused ({obs}) but the database changed')
        return res
    if not accepted:
        res['viol'] = ('well-formed-submission-refused', f'submission {describe(req)} is well-formed but was refused: {obs}')
        return res
    if hole:
        # only one of the two reserved jobs was submitted: the commit must be refused and must not change anything
        dump1 = w.mdb.store.dump(drop=bf.DROP)
        oc = ops.apply(w, ('commit', 'u1', UPD))
        if oc.get('status') == 200:
            drive(w)
            b = w.table('batches')[0]
            states = [(j['job_id'], j['state']) for j in w.table('jobs')]
            res['viol'] = ('update-with-missing-jobs-committed',
                           f'{describe(req)}: only job {ids[0]} of the 2 reserved jobs was submitted, yet commit -> {oc}; after driving every job '
                           f'batch state={b["state"]} n_jobs={b["n_jobs"]} jobs={states}')
        elif w.mdb.store.dump(drop=bf.DROP) != dump1:
            res['viol'] = ('refused-commit-changed-store', f'{describe(req)}: commit refused ({oc}) but the database changed')
        res['finished'] = True
        return res
    if len(ids) == 1:  # send the other job of the update, well-formed and without dependencies
        other = 2 if ids[0] == 1 else 1
        o2 = ops.apply(w, ('add_jobs', 'u1', UPD, [J(other, abs_group=0)]))
        if o2.get('status') != 200:
            res['viol'] = ('well-formed-submission-refused', f'second bunch refused: {o2}')
            return res
    oc = ops.apply(w, ('commit', 'u1', UPD))
    if oc.get('status') != 200:
        res['viol'] = ('well-formed-update-cannot-be-committed', f'{describe(req)}: commit -> {oc}')
        return res
    drive(w)
    b = w.table('batches')[0]
    states = [(j['job_id'], j['state']) for j in w.table('jobs')]
    if b['state'] != 'complete' or any(s not in bf.TERMINAL for _, s in states):
        res['viol'] = ('committed-batch-cannot-finish' + (':duplicate-parent' if dup_only else ''),
                       f'{describe(req)}: accepted and committed, but after driving every job batch state={b["state"]} jobs={states}')
    res['finished'] = True
    return res


def describe(req):
    variant, ids, parents = req
    return f'({variant} update) [' + '; '.join(f'job {jid}: in_update_parent_ids={list(ip)} absolute_parent_ids={list(ap)}' for jid, (ip, ap) in zip(ids, parents)) + ']'


def _eval_chunk(chunk):
    return [evaluate(r) for r in chunk]


def check(tier, seed, procs):
    reqs = par.rotate(requests(tier), seed)
    n = max(1, min(len(reqs), procs * 4))
    chunks = [reqs[i::n] for i in range(n)]
    rows = [r for c in par.pmap(_eval_chunk, chunks, procs, chunksize=1) for r in c]
    rows.sort(key=lambda r: (len(r['req'][1]), repr(r['req'])))
    viol = []
    for r in rows:
        if r['viol']:
            viol.append({'signature': r['viol'][0], 'message': r['viol'][1], 'replay': {'req': r['req']}})
    ill = sum(1 for r in rows if r['classes'])
    cov = {
        'evaluations': len(rows),
        'distinct_nontrivial': len({repr(r['req']) for r in rows if r['classes'] or r.get('finished')}),
        'rule': 'every bunch of 1-2 specs for an update with 2 reserved jobs: in-update ids {1,2,3}, in-update parents from '
                '{none,1,2,3}, absolute parents from {none,1,2,3,4,5,9}; non-trivial = ill-formed, or well-formed and driven to completion',
        'samples': [describe(r['req']) for r in rows[:2]] + [describe(r['req']) for r in rows if r['classes']][:2],
        'exhaustive': True,
        'ill_formed': ill,
        'well_formed_driven_to_completion': sum(1 for r in rows if r.get('finished')),
        'ill_formed_by_class': {c: sum(1 for r in rows if c in r['classes']) for c in
                                ('self-parent', 'later-parent', 'missing-parent', 'job-id-outside-range')},
        'bounds': 'situations: (later) update 1 (jobs 1,2) committed, update 2 (reserved job 3) abandoned, update 3 (2 reserved jobs, ids 4-5) open, with the existing jobs untouched / both succeeded / 1 failed and 2 cancelled / 1 running when the bunch arrives (quick: single-spec bunches only for the last three); (first) fresh batch whose first update (ids 1-2) is open; duplicate naming of a parent included',
        'duplicate_parent_submissions_accepted_and_finished': sum(1 for r in rows if r.get('finished') and 'duplicate-parent' in classify(r['req'][0].split('+')[0], *r['req'][1:])),
    }
    return {'coverage': cov, 'violations': viol, 'assumptions': bf.ASSUME, 'level': 'model_checking',
            'vacuous': None if ill > 10 and cov['well_formed_driven_to_completion'] > 10 else 'too few cases'}


def replay(obj):
    variant, ids, parents = obj['req'] if len(obj['req']) == 3 else ['later'] + list(obj['req'])  # variant may carry '+hole'
    r = evaluate((variant, tuple(ids), tuple((tuple(a), tuple(b)) for a, b in parents)))
    return r['viol'] is None, (r['viol'][1] if r['viol'] else 'no violation')
