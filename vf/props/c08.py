"""C08  Accepted job graphs can always finish.

Bounded-exhaustive enumeration of job submissions (the bunch of an update with 2 reserved jobs, sent
through the real front_end._create_jobs after the real validate_and_clean_jobs): job ids in and outside the
reserved range, every choice of in-update and absolute parents among {earlier, self, later, missing}.
Well-formed (every parent already exists earlier in the batch, ids in range) => accepted, and after
commit and driving every runnable job to success with the real scheduler sweep the batch is complete.
Ill-formed => refused with an HTTP error and the database unchanged.
"""
import itertools

from vf import batchfamily as bf
from vf import batchops as ops
from vf import par

NEEDS_SERVICES = True
J = ops.job_spec
N2 = 2          # jobs reserved by the open update
START2 = 4      # absolute id of its first job: update 1 has jobs 1, 2 (committed); update 2 reserved id 3 but was abandoned
UPD = 3         # the open update

_W = None
_BASE = None


def world():
    global _W, _BASE
    if _W is None:
        _W = ops.BatchWorld(instances=(('i1', 'standard', 'active'),))
        A = lambda l: ops.apply(_W, l)
        A(('new_batch', 'u1', 't1', 2, 0))
        A(('new_update', 'u1', 't1', 2, 0))
        A(('add_jobs', 'u1', 1, [J(1, abs_group=0), J(2, abs_group=0)]))
        A(('commit_tail', 'u1', 1))
        A(('new_update', 'u1', 't2', 1, 0))   # abandoned: its reserved job id 3 is never filled
        A(('new_update', 'u1', 't3', N2, 0))
        _BASE = _W.snapshot()
    return _W, _BASE


def requests(tier):
    """(ids, [(in_update_parents, absolute_parents), ...])"""
    inup = [(), (1,), (2,), (3,)] + ([(1, 2)] if tier != 'quick' else [])
    absp = [(), (1,), (3,), (4,), (5,), (9,)] + ([(2, 4)] if tier != 'quick' else [])
    out = []
    for first in (1, 2):  # in-update id of the first spec (validator demands contiguous ids)
        ids = (first, first + 1)
        for p1 in itertools.product(inup, absp):
            for p2 in itertools.product(inup, absp):
                out.append((ids, (p1, p2)))
    # single-spec bunches (the other job of the update arrives in a second, well-formed bunch)
    for jid in (1, 2, 3):
        for p in itertools.product(inup, absp):
            out.append(((jid,), (p,)))
    return out


def classify(ids, parents):
    """Reference well-formedness from the statement.  Returns list of defect classes (empty = well-formed)."""
    bad = []
    for jid, (inup, absp) in zip(ids, parents):
        a = START2 + jid - 1
        if not (1 <= jid <= N2):
            bad.append('job-id-outside-range')
        for p in inup:
            pa = START2 + p - 1
            if p == jid:
                bad.append('self-parent')
            elif p > jid:
                bad.append('later-parent' if p <= N2 else 'missing-parent')
            elif p < 1:
                bad.append('missing-parent')
        for p in absp:
            if p == a:
                bad.append('self-parent')
            elif p in (1, 2):
                pass
            elif START2 <= p < START2 + N2:
                if p > a:
                    bad.append('later-parent')
            else:
                bad.append('missing-parent')   # 3 = reserved by the abandoned update, 9 = beyond every range
        named = [START2 + p - 1 for p in inup] + list(absp)
        if len(set(named)) != len(named):
            bad.append('duplicate-parent')
    return sorted(set(bad))


def drive(w):
    """Run the real scheduler sweep and complete everything that runs, until nothing changes."""
    for _ in range(12):
        before = [(j['job_id'], j['state']) for j in w.table('jobs')]
        ops.apply(w, ('sched', None, 'i1'))
        for a in w.table('attempts'):
            if a['end_time'] is None:
                ops.apply(w, ('complete', a['job_id'], a['attempt_id'], 'i1', 'Success', 10, 20))
        if [(j['job_id'], j['state']) for j in w.table('jobs')] == before:
            break


def evaluate(req):
    ids, parents = req
    w, base = world()
    w.restore(base)
    dump0 = w.mdb.store.dump(drop=bf.DROP)
    specs = [J(jid, parents=list(ip), abs_parents=list(ap), abs_group=0) for jid, (ip, ap) in zip(ids, parents)]
    classes = classify(ids, parents)
    obs = ops.apply(w, ('add_jobs', 'u1', UPD, specs))
    accepted = obs.get('status') == 200
    res = {'req': req, 'classes': classes, 'accepted': accepted, 'viol': None}
    if classes == ['duplicate-parent']:
        # naming the same dependency twice is not one of the malformations the statement lists: only demand no side effects
        if not accepted and w.mdb.store.dump(drop=bf.DROP) != dump0:
            res['viol'] = ('refused-submission-changed-store', f'submission {describe(req)} was refused ({obs}) but the database changed')
        return res
    classes = [c for c in classes if c != 'duplicate-parent']
    res['classes'] = classes
    if classes:
        if accepted:
            res['viol'] = ('accepted:' + classes[0], f'submission {describe(req)} has {classes} but was accepted (HTTP 200)')
        elif w.mdb.store.dump(drop=bf.DROP) != dump0:
            res['viol'] = ('refused-submission-changed-store', f'submission {describe(req)} was refused ({obs}) but the database changed')
        return res
    if not accepted:
        res['viol'] = ('well-formed-submission-refused', f'submission {describe(req)} is well-formed but was refused: {obs}')
        return res
    if len(ids) == 1:  # send the other job of the update, well-formed and without dependencies
        other = 2 if ids[0] == 1 else 1
        o2 = ops.apply(w, ('add_jobs', 'u1', UPD, [J(other, abs_group=0)]))
        if o2.get('status') != 200:
            res['viol'] = ('well-formed-submission-refused', f'second bunch refused: {o2}')
            return res
    oc = ops.apply(w, ('commit', 'u1', UPD))
    if oc.get('status') != 200:
        res['viol'] = ('well-formed-update-cannot-be-committed', f'{describe(req)}: commit -> {oc}')
        return res
    drive(w)
    b = w.table('batches')[0]
    states = [(j['job_id'], j['state']) for j in w.table('jobs')]
    if b['state'] != 'complete' or any(s not in bf.TERMINAL for _, s in states):
        res['viol'] = ('committed-batch-cannot-finish', f'{describe(req)}: after driving every job, batch state={b["state"]} jobs={states}')
    res['finished'] = True
    return res


def describe(req):
    ids, parents = req
    return '[' + '; '.join(f'job {jid}: in_update_parent_ids={list(ip)} absolute_parent_ids={list(ap)}' for jid, (ip, ap) in zip(ids, parents)) + ']'


def _eval_chunk(chunk):
    return [evaluate(r) for r in chunk]


def check(tier, seed, procs):
    reqs = par.rotate(requests(tier), seed)
    n = max(1, min(len(reqs), procs * 4))
    chunks = [reqs[i::n] for i in range(n)]
    rows = [r for c in par.pmap(_eval_chunk, chunks, procs, chunksize=1) for r in c]
    rows.sort(key=lambda r: (len(r['req'][0]), repr(r['req'])))
    viol = []
    for r in rows:
        if r['viol']:
            viol.append({'signature': r['viol'][0], 'message': r['viol'][1], 'replay': {'req': r['req']}})
    ill = sum(1 for r in rows if r['classes'])
    cov = {
        'evaluations': len(rows),
        'distinct_nontrivial': len({repr(r['req']) for r in rows if r['classes'] or r.get('finished')}),
        'rule': 'every bunch of 1-2 specs for an update with 2 reserved jobs: in-update ids {1,2,3}, in-update parents from '
                '{none,1,2,3}, absolute parents from {none,1,3,4,5,9}; non-trivial = ill-formed, or well-formed and driven to completion',
        'samples': [describe(r['req']) for r in rows[:2]] + [describe(r['req']) for r in rows if r['classes']][:2],
        'exhaustive': True,
        'ill_formed': ill,
        'well_formed_driven_to_completion': sum(1 for r in rows if r.get('finished')),
        'ill_formed_by_class': {c: sum(1 for r in rows if c in r['classes']) for c in
                                ('self-parent', 'later-parent', 'missing-parent', 'job-id-outside-range')},
        'bounds': 'batch with update 1 (jobs 1,2) committed, update 2 (reserved job 3) abandoned, update 3 (2 reserved jobs, ids 4-5) open',
    }
    return {'coverage': cov, 'violations': viol, 'assumptions': bf.ASSUME, 'level': 'model_checking',
            'vacuous': None if ill > 10 and cov['well_formed_driven_to_completion'] > 10 else 'too few cases'}


def replay(obj):
    ids, parents = obj['req']
    r = evaluate((tuple(ids), tuple((tuple(a), tuple(b)) for a, b in parents)))
    return r['viol'] is None, (r['viol'][1] if r['viol'] else 'no violation')
