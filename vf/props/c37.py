"""C37  Statistical tests return correct values.

The engine's `fisherExactTest`, `chiSquaredTest`, `contingencyTableTest`, `hardyWeinbergTest`
(+ `uniroot`, `pchisqtail`) are sliced verbatim from hail/hail/src/is/hail/stats/package.scala and the whole
`LeveneHaldane` class/object from stats/LeveneHaldane.scala (+ `fatal`, `D_==`, `D_>` from the utils module),
compiled with Scala 3 against stand-ins for the two external numeric libraries (vf/jvm/c37_standins.scala) and run
on the JVM over EVERY 2x2 table with cells <= 12 (thorough: 20) and EVERY genotype-count triple <= 15 (thorough: 30).
Python judges every line against exact references (integer / Fraction arithmetic; chi-square tail by scipy).

What is demanded (and nothing else):
 * Fisher: two-sided p = sum of the probabilities of all tables with the same margins whose probability is <= that of
   the observed one (R's definition, which the docs promise; its 1e-7 relative tie tolerance accepted either way);
   odds_ratio = conditional MLE and ci_95 = exact conditional 95% interval, each accepted iff the true root lies within
   the engine's documented root-finder tolerance (1.220703e-4 on the search variable, R's default) of the reported value;
   0 / +inf at the ends of the support exactly.  Tables with an empty row or column are degenerate: NaN accepted.
 * chi-squared: statistic N(ad-bc)^2 / (r1 r2 c1 c2) exactly (rel 1e-12), p = chi2.sf(stat, 1), odds ratio ad/bc.
 * contingency table: chi-squared iff every cell >= min_cell_count, Fisher otherwise (both sides of each boundary).
 * Hardy-Weinberg: het_freq_hwe = nA nB / ((2n-1) n); two-sided mid-p = P(less probable) + 1/2 P(equally probable);
   one-sided mid-p = P(more hets) + 1/2 P(observed), under the Levene-Haldane distribution.
 * every p-value is in [0, 1]; p-values agree within relative 1e-9 or absolute 1e-12.

Arithmetic-overflow boundary layer (not exhaustive; a fixed list per tier): genotype triples with n around 23170, 32767, 46340,
46341, 50000, 65536, 100000 (thorough: up to 200000) at minor-allele frequencies 0.01 / 0.35 / 0.5 near equilibrium, 2x2
tables with one small row and margins around 32767 / 46341 / 65536 (all four tests) and tables with every cell that large
(chi-squared and dispatch only: the engine's Fisher code is quadratic in the support).  The natural intermediate products
((nA+1)(nB+1), nA nB, ad, bc, products of margins) cross 2^15, 2^16, 2^31-1 and 2^32.  HWE p-values are compared with a
log-gamma Levene-Haldane reference in floats at relative 1e-6 (absolute 1e-12); tables keep the exact references.
"""
import json
import math
from fractions import Fraction
from pathlib import Path

from vf import jvmslice as J
from vf import par

NEEDS_SERVICES = False

STATS = 'hail/hail/src/is/hail/stats/package.scala'
LH = 'hail/hail/src/is/hail/stats/LeveneHaldane.scala'
UTILS = 'hail/hail/utils/src/is/hail/utils/package.scala'
ERRH = 'hail/hail/utils/src/is/hail/utils/ErrorHandling.scala'
JVM = Path(__file__).resolve().parent.parent / 'jvm'
MAIN = 'vfdriver.C37Main'

REL, ABS = 1e-9, 1e-12
ROOT_TOL = 1.25e-4          # engine documents tolerance = 1.220703e-4 on the search variable; tiny slack on top
ALPHA = Fraction(1, 40)     # (1 - 0.95) / 2


def build():
    ind = '\n\n  '
    exc = 'package is.hail.utils\n\n' + J.slice_text(ERRH, ['HailException']) + '\n'
    utils = ('package is.hail\n\npackage object utils {\n  '
             + J.slice_text(ERRH, ['fatal~!Truncatable'], within='ErrorHandling', sep=ind) + ind
             + J.slice_text(UTILS, ['defaultTolerance', 'D_epsilon', 'D_==', 'D_>'], within='utils', sep=ind) + '\n}\n')
    stats = ('package is.hail\n\nimport is.hail.utils._\nimport net.sourceforge.jdistlib.ChiSquare\n'
             'import org.apache.commons.math3.distribution.HypergeometricDistribution\n\npackage object stats {\n  '
             + J.slice_text(STATS, ['uniroot', 'hardyWeinbergTest', 'chiSquaredTest', 'contingencyTableTest',
                                    'fisherExactTest', 'pchisqtail'], within='stats', sep=ind) + '\n}\n')
    lh = ('package is.hail.stats\n\nimport is.hail.utils._\n'
          'import org.apache.commons.math3.distribution.AbstractIntegerDistribution\n'
          'import org.apache.commons.math3.random.RandomGenerator\n\n' + J.slice_text(LH, ['LeveneHaldane']) + '\n')
    return J.build('c37', (JVM / 'c37_standins.scala').read_text(),
                   [('HailException.scala', exc), ('utils.scala', utils), ('stats.scala', stats), ('LeveneHaldane.scala', lh)],
                   (JVM / 'c37_driver.scala').read_text())


# ------------------------------------------------------------------------------------------------
# references
# ------------------------------------------------------------------------------------------------

def close(x, ref, rel=REL, ab=ABS):
    if isinstance(ref, Fraction):
        ref = float(ref)
    if x != x or ref != ref:
        return x != x and ref != ref
    if math.isinf(x) or math.isinf(ref):
        return x == ref
    return abs(x - ref) <= ab or abs(x - ref) <= rel * abs(ref)


def fisher_ref(a, b, c, d):
    """None for degenerate margins, else dict(lo, hi, w=[int weights], x=a)."""
    N, m, n = a + b + c + d, a + c, a + b
    if not (N > 0 and 0 < n < N and 0 < m < N):
        return None
    lo, hi = max(0, n - (b + d)), min(n, m)
    if n <= m:
        w = [math.comb(m, k) * math.comb(N - m, n - k) for k in range(lo, hi + 1)]
    else:   # same distribution (C(m,k)C(N-m,n-k)/C(N,n) = C(n,k)C(N-n,m-k)/C(N,m)), smaller integers
        w = [math.comb(n, k) * math.comb(N - n, m - k) for k in range(lo, hi + 1)]
    wmax = max(w)
    wf = [k / wmax for k in w]   # floats in (0, 1] (int / int is correctly rounded at any size): huge binomials must not overflow
    return {'lo': lo, 'hi': hi, 'w': w, 'wf': wf, 'x': a}


def _moments(w, t):
    """(sum w_k t^k, sum k w_k t^k) for k = 0..len-1 in floats (all terms positive: no cancellation)."""
    s0 = s1 = 0.0
    p = 1.0
    for k, wk in enumerate(w):
        term = wk * p
        s0 += term
        s1 += k * term
        p *= t
    return s0, s1


def _mean_at(r, t):
    """E_t[K] under the non-central hypergeometric with odds ratio t (t may be 0 or inf)."""
    if t <= 0:
        return float(r['lo'])
    if math.isinf(t):
        return float(r['hi'])
    w = r['wf']
    if t > 1:  # evaluate in powers of 1/t to avoid overflow
        s0, s1 = _moments(w[::-1], 1 / t)
        return r['hi'] - s1 / s0
    s0, s1 = _moments(w, t)
    return r['lo'] + s1 / s0


def _tail_at(r, t, x, upper):
    """P_t(K >= x) if upper else P_t(K <= x)."""
    lo, hi, w = r['lo'], r['hi'], r['wf']
    if t <= 0:
        return (1.0 if x <= lo else 0.0) if upper else (1.0 if x >= lo else 0.0)
    if math.isinf(t):
        return (1.0 if x <= hi else 0.0) if upper else (1.0 if x >= hi else 0.0)
    if t > 1:
        terms = []
        p = 1.0
        for wk in w[::-1]:
            terms.append(wk * p)
            p /= t
        terms.reverse()
    else:
        terms = []
        p = 1.0
        for wk in w:
            terms.append(wk * p)
            p *= t
    tot = math.fsum(terms)
    i = x - lo
    part = math.fsum(terms[i:]) if upper else math.fsum(terms[:i + 1])
    return part / tot


def _root_ok(v, fn, target, increasing):
    """Is the true root t* of fn(t) = target (fn monotone) within ROOT_TOL of v on the scale the engine searched
    (t for roots <= 1, 1/t for roots >= 1)?  Decided by bracketing, never by solving."""
    if v != v or v < 0:
        return False
    slack = 1e-9 * max(1.0, abs(target))
    if v <= 1:
        lo_t, hi_t = max(v - ROOT_TOL, 0.0), v + ROOT_TOL
    else:
        s = 1 / v
        hi_t = math.inf if s - ROOT_TOL <= 0 else 1 / (s - ROOT_TOL)
        lo_t = 1 / (s + ROOT_TOL)
    f_lo, f_hi = fn(lo_t), fn(hi_t)
    if not increasing:
        f_lo, f_hi = f_hi, f_lo
    return f_lo <= target + slack and f_hi >= target - slack


def judge_fisher(t, out):
    """-> list of (signature, message); and a tag for coverage."""
    a, b, c, d = t
    if isinstance(out, dict):
        return [('fisher:raised', f'fisherExactTest{tuple(t)} raised {out["err"]}')], 'raised'
    r = fisher_ref(a, b, c, d)
    p, orr, lo95, hi95 = out
    v = []
    if r is None:
        if not all(x != x for x in out) and not close(p, 1.0):
            v.append(('fisher:degenerate-table', f'fisherExactTest{tuple(t)} (empty row or column) returned {out}'))
        return v, 'degenerate'
    w, x = r['w'], r['x']
    wx = w[x - r['lo']]
    tot = sum(w)
    p_strict = Fraction(sum(k for k in w if k <= wx), tot)
    p_r = Fraction(sum(k for k in w if k * 10**7 <= wx * (10**7 + 1)), tot)
    tag = 'ok' if p_strict == p_r else 'near-tie'
    if not (p == p and 0.0 <= p <= 1.0):
        v.append(('fisher:p_value-outside-[0,1]', f'fisherExactTest{tuple(t)} p_value = {p!r} is not in [0, 1] (exact value {float(p_r)!r})'))
    if not (close(p, p_strict) or close(p, p_r)):
        v.append(('fisher:p_value', f'fisherExactTest{tuple(t)} p_value = {p!r}, exact two-sided value {float(p_r)!r} (= {p_r})'))
    # odds ratio: conditional MLE
    if x == r['lo']:
        ok = orr == 0.0
    elif x == r['hi']:
        ok = orr == math.inf
    else:
        ok = _root_ok(orr, lambda s: _mean_at(r, s), float(x), True)
    if not ok:
        v.append(('fisher:odds_ratio', f'fisherExactTest{tuple(t)} odds_ratio = {orr!r} is not the conditional MLE '
                  f'(E_t[K] at the reported value = {_mean_at(r, orr) if orr == orr and orr >= 0 else None}, observed {x})'))
    al = float(ALPHA)
    if x == r['lo']:
        ok = lo95 == 0.0
    else:
        ok = _root_ok(lo95, lambda s: _tail_at(r, s, x, True), al, True)
    if not ok:
        v.append(('fisher:ci_95_lower', f'fisherExactTest{tuple(t)} ci_95_lower = {lo95!r}: P_t(K >= {x}) there is '
                  f'{_tail_at(r, lo95, x, True) if lo95 == lo95 and lo95 >= 0 else None}, should be 0.025'))
    if x == r['hi']:
        ok = hi95 == math.inf
    else:
        ok = _root_ok(hi95, lambda s: _tail_at(r, s, x, False), al, False)
    if not ok:
        v.append(('fisher:ci_95_upper', f'fisherExactTest{tuple(t)} ci_95_upper = {hi95!r}: P_t(K <= {x}) there is '
                  f'{_tail_at(r, hi95, x, False) if hi95 == hi95 and hi95 >= 0 else None}, should be 0.025'))
    if not v and not (lo95 <= orr <= hi95):
        v.append(('fisher:ci-does-not-contain-estimate', f'fisherExactTest{tuple(t)} = {out}'))
    return v, tag


def chisq_ref(a, b, c, d):
    r1, r2, c1, c2 = a + b, c + d, a + c, b + d
    if 0 in (r1, r2, c1, c2):
        return None
    return Fraction((a + b + c + d) * (a * d - b * c) ** 2, r1 * r2 * c1 * c2)


_chdtrc = None


def chi2_sf(x, df):
    """scipy.stats.chi2.sf(x, df) -- which is scipy.special.chdtrc(df, x); imported once, before workers fork
    (importing scipy.stats itself costs ~8 s per process here)."""
    global _chdtrc
    if _chdtrc is None:
        from scipy.special import chdtrc
        _chdtrc = chdtrc
    return float(_chdtrc(df, x))


def judge_chisq(t, out, stat):
    a, b, c, d = t
    if isinstance(out, dict):
        return [('chisq:raised', f'chiSquaredTest{tuple(t)} raised {out["err"]}')], 'raised'
    p, orr = out
    ref = chisq_ref(a, b, c, d)
    v = []
    if ref is None:
        if not (p != p or 0.0 <= p <= 1.0):
            v.append(('chisq:p_value-outside-[0,1]', f'chiSquaredTest{tuple(t)} p_value = {p!r}'))
        tag = 'undefined'
    else:
        tag = 'ok'
        if stat is None or not close(stat, ref, rel=1e-12, ab=0.0):
            v.append(('chisq:statistic', f'chiSquaredTest{tuple(t)} computed the statistic {stat!r}, definition gives {float(ref)!r} (= {ref})'))
        pref = chi2_sf(float(ref), 1)
        if not (p == p and 0.0 <= p <= 1.0):
            v.append(('chisq:p_value-outside-[0,1]', f'chiSquaredTest{tuple(t)} p_value = {p!r}'))
        if not close(p, pref):
            v.append(('chisq:p_value', f'chiSquaredTest{tuple(t)} p_value = {p!r}, chi2.sf({float(ref)!r}, 1) = {pref!r}'))
    ad, bc = a * d, b * c
    if bc > 0:
        if not close(orr, Fraction(ad, bc), rel=1e-12, ab=0.0):
            v.append(('chisq:odds_ratio', f'chiSquaredTest{tuple(t)} odds_ratio = {orr!r}, (c1/c2)/(c3/c4) = {ad}/{bc}'))
    elif ad > 0:
        if orr != math.inf:
            v.append(('chisq:odds_ratio', f'chiSquaredTest{tuple(t)} odds_ratio = {orr!r}, expected +inf ({ad}/0)'))
    return v, tag


def judge_ctt(t, rows, f_out, c_out):
    v = []
    tags = []
    for m, out in rows:
        use_chi = all(x >= m for x in t)
        tags.append('chi' if use_chi else 'fisher')
        want = c_out if use_chi else f_out
        if want is None:
            raise J.HarnessError(f'C37: large-table case {t} m={m} dispatches to Fisher but Fisher was not run')
        if isinstance(out, dict) or isinstance(want, dict):
            if isinstance(out, dict) != isinstance(want, dict):
                v.append(('ctt:dispatch', f'contingencyTableTest{tuple(t) + (m,)} = {out}, expected the {"chi-squared" if use_chi else "Fisher"} result {want}'))
            continue
        if len(out) < 2 or not all(close(out[i], want[i]) for i in range(2)):
            v.append(('ctt:dispatch', f'contingencyTableTest{tuple(t) + (m,)} = {out[:2]}: every cell >= {m} is {use_chi}, so the '
                      f'{"chi-squared" if use_chi else "Fisher exact"} test {want[:2]} was promised'))
    return v, tags


def hwe_ref(r, h, v):
    n = r + h + v
    nA = h + 2 * min(r, v)
    nB = 2 * n - nA
    ks = range(nA % 2, nA + 1, 2)
    fn = math.factorial(n)
    w = {k: (fn << k) // (math.factorial((nA - k) // 2) * math.factorial(k) * math.factorial((nB - k) // 2)) for k in ks}
    return n, nA, nB, w


LARGE_REL = 1e-6   # stated tolerance of the overflow-boundary layer (reference in floats via math.lgamma)


def hwe_ref_large(r, h, v):
    """Levene-Haldane weights in floats, normalised to max 1: log W_k = lgamma(n+1) - lgamma((nA-k)/2+1) - lgamma(k+1)
    - lgamma((nB-k)/2+1) + k log 2.  Independent of the engine's recurrences; good to ~1e-9 relative at n ~ 10^5."""
    n = r + h + v
    nA = h + 2 * min(r, v)
    nB = 2 * n - nA
    lg = math.lgamma
    ln2 = math.log(2.0)
    c = lg(n + 1)
    lw = {k: c - lg((nA - k) // 2 + 1) - lg(k + 1) - lg((nB - k) // 2 + 1) + k * ln2 for k in range(nA % 2, nA + 1, 2)}
    m = max(lw.values())
    return n, nA, nB, lw, m


def judge_hwe_large(g, two, one):
    r, h, v = g
    n, nA, nB, lw, m = hwe_ref_large(r, h, v)
    w = {k: math.exp(x - m) for k, x in lw.items()}
    tot = math.fsum(w.values())
    eps = 1e-8   # log-weights closer than this to the observed one are possible ties: accepted either way
    lo = lw[h]
    less = math.fsum(w[k] for k, x in lw.items() if x < lo - eps)
    near = math.fsum(w[k] for k, x in lw.items() if k != h and abs(x - lo) <= eps)
    p_two_min = (less + 0.5 * w[h]) / tot
    p_two_max = (less + 0.5 * w[h] + near) / tot
    p_one = (math.fsum(x for k, x in w.items() if k > h) + 0.5 * w[h]) / tot
    out = []
    for name, res in (('two-sided', two), ('one-sided', one)):
        if isinstance(res, dict):
            out.append((f'hwe:{name}:raised', f'hardyWeinbergTest{tuple(g)} {name} raised {res["err"]}'))
            continue
        hf, p = res
        if not close(hf, Fraction(nA * nB, (2 * n - 1) * n), rel=1e-12, ab=0.0):
            out.append(('hwe:het_freq_hwe', f'hardyWeinbergTest{tuple(g)} het_freq_hwe = {hf!r}, definition n_ref*n_var/((2n-1)n) = {nA * nB}/{(2 * n - 1) * n}'))
        if not (p == p and 0.0 <= p <= 1.0):
            out.append((f'hwe:{name}:p_value-outside-[0,1]', f'hardyWeinbergTest{tuple(g)} {name} p_value = {p!r}'))
        if name == 'two-sided':
            ok = close(p, p_two_min, rel=LARGE_REL) or close(p, p_two_max, rel=LARGE_REL) or p_two_min <= p <= p_two_max
            pref = p_two_min
        else:
            ok = close(p, p_one, rel=LARGE_REL)
            pref = p_one
        if not ok:
            out.append((f'hwe:{name}:p_value', f'hardyWeinbergTest{tuple(g)} {name} mid-p p_value = {p!r}, log-gamma reference {pref!r} '
                        f'(n = {n}, (nA+1)(nB+1) = {(nA + 1) * (nB + 1)})'))
    return out, ('sensitive' if p_two_min > 1e-6 else 'tiny-p')


def judge_hwe(g, two, one):
    if sum(g) > 2000:
        return judge_hwe_large(g, two, one)
    r, h, v = g
    n, nA, nB, w = hwe_ref(r, h, v)
    out = []
    tot = sum(w.values())
    wh = w[h]
    tag = 'ok'
    for name, res in (('two-sided', two), ('one-sided', one)):
        if isinstance(res, dict):
            out.append((f'hwe:{name}:raised', f'hardyWeinbergTest{tuple(g)} {name} raised {res["err"]}'))
            continue
        hf, p = res
        if n >= 1:
            if not close(hf, Fraction(nA * nB, (2 * n - 1) * n), rel=1e-12, ab=0.0):
                out.append(('hwe:het_freq_hwe', f'hardyWeinbergTest{tuple(g)} het_freq_hwe = {hf!r}, definition n_ref*n_var/((2n-1)n) = {nA * nB}/{(2 * n - 1) * n}'))
        if name == 'two-sided':
            less = sum(x for x in w.values() if x < wh)
            eq = sum(x for x in w.values() if x == wh)
            pref = Fraction(2 * less + eq, 2 * tot)
            alts = [pref]
            # outcomes the engine's documented 1e-12 relative tie tolerance could merge with the observed one
            near = [x for x in w.values() if x != wh and abs(x - wh) * 10**9 <= max(x, wh)]
            if near:
                tag = 'near-tie'
                alts.append(Fraction(2 * sum(x for x in w.values() if x < wh and x not in near) + eq + sum(near), 2 * tot))
            if eq > wh:
                tag = 'tie' if tag == 'ok' else tag
        else:
            pref = Fraction(2 * sum(x for k, x in w.items() if k > h) + wh, 2 * tot)
            alts = [pref]
        if not (p == p and 0.0 <= p <= 1.0):
            out.append((f'hwe:{name}:p_value-outside-[0,1]', f'hardyWeinbergTest{tuple(g)} {name} p_value = {p!r}'))
        if not any(close(p, a) for a in alts):
            out.append((f'hwe:{name}:p_value', f'hardyWeinbergTest{tuple(g)} {name} mid-p p_value = {p!r}, exact value {float(pref)!r} (= {pref})'))
    if n == 0 or len(w) < 2:
        tag = 'trivial'
    return out, tag


# ------------------------------------------------------------------------------------------------
# enumeration
# ------------------------------------------------------------------------------------------------

def _judge_table_line(d):
    t = d['t']
    if d.get('f') is None:   # overflow-boundary table too large for the engine's quadratic Fisher code: chi-squared + dispatch only
        v2, tag_c = judge_chisq(t, d['c'], d.get('x'))
        v3, tags_ct = judge_ctt(t, d['ct'], None, d['c'])
        return v2 + v3, 'skipped', tag_c, tags_ct
    v1, tag_f = judge_fisher(t, d['f'])
    v2, tag_c = judge_chisq(t, d['c'], d.get('x'))
    v3, tags_ct = judge_ctt(t, d['ct'], d['f'], d['c'])
    return v1 + v2 + v3, tag_f, tag_c, tags_ct


def _size(t):
    return (sum(t), tuple(t))


def large_cases(tier):
    """Arithmetic-overflow boundary layer: inputs whose natural intermediate products ((nA+1)(nB+1), nA*nB, a*d, b*c,
    products of margins, N*det) cross 2^15, 2^16, 2^31-1 and 2^32.  -> (hwe triples, Fisher-able tables, chi-only tables)"""
    quick = tier == 'quick'
    ns = [23170, 32767, 46340, 46341, 50000, 65536, 100000] if quick else \
        [16384, 23170, 23171, 32767, 32768, 40000, 46340, 46341, 46342, 50000, 65535, 65536, 65537, 80000, 100000, 131072, 200000]
    qs = [0.01, 0.35, 0.5] if quick else [0.01, 0.1, 0.35, 0.5]
    sds = [0.3] if quick else [-1.0, 0.0, 0.3, 2.0]
    triples = [(21075, 22850, 6075)]
    for n in ns:
        for q in qs:
            nA = round(2 * n * q)                       # copies of the minor allele
            mean = nA * (2 * n - nA) / (2 * n - 1)
            sd = math.sqrt(max(mean * (1 - 2 * q * (1 - q)), 1.0))
            for z in sds:
                h = min(max(round(mean + z * sd), 0), nA)
                h -= (nA - h) % 2                       # parity of hets = parity of nA
                v = (nA - h) // 2
                r = n - h - v
                if h < 0 or r < 0:
                    continue
                triples.append((r, h, v))
                if not quick or q == 0.35:
                    triples.append((v, h, r))           # minor allele on the other side
    seen = set()
    triples = [t for t in triples if not (t in seen or seen.add(t))]
    # tables with one small row: Fisher's support stays small (its code is quadratic in the support) while margins are large
    big = [32767, 46341, 65536] if quick else [23170, 32767, 32768, 46340, 46341, 46342, 65535, 65536, 65537, 100000]
    small_rows = [(3, 7), (12, 0)] if quick else [(3, 7), (12, 0), (0, 9), (25, 30), (100, 150)]
    ftables = []
    for c in big:
        for (a, b) in small_rows:
            ftables.append((a, b, c, c // 3 + 1))
            ftables.append((a, c, b, 2 * c + 1))
    # tables with every cell large: chi-squared and the dispatch only
    ctables = [(46341, 46341, 46341, 46341), (46340, 46341, 46341, 46340), (65536, 65536, 65535, 65537), (23170, 23171, 23169, 23172),
               (32767, 32768, 32768, 32766), (100000, 50000, 30000, 70000), (46341, 2, 3, 46341), (65537, 65535, 32768, 32767)]
    if not quick:
        for k in (23170, 32768, 46340, 46342, 65535, 92682, 131072, 200000, 1000000):
            ctables += [(k, k + 1, k + 2, k - 1), (k, 2 * k, 3 * k, 6 * k + 1), (k, 7, 11, k + 5), (2 * k, k, k // 2, k // 3)]
    return triples, ftables, ctables


def _large_job(cls, tier):
    triples, ftables, ctables = large_cases(tier)
    lines = ['g %d %d %d' % t for t in triples]
    lines += ['t %d %d %d %d 0 %d' % (t + (min(t) + 1,)) for t in ftables]
    lines += ['x %d %d %d %d 0 %d' % (t + (min(t),)) for t in ctables]
    out = J.run(cls, MAIN, '\n'.join(lines) + '\n', args=['cases']).splitlines()
    if len(out) != len(lines):
        raise J.HarnessError(f'C37: {len(out)} answers for {len(lines)} large cases')
    viol = {}
    cnt = {'large_hwe': 0, 'large_hwe_sensitive': 0, 'large_hwe_product_over_2^31': 0, 'large_fisher_tables': 0, 'large_chisq_tables': 0,
           'large_max_n': 0}
    samples = []
    for raw in out:
        d = json.loads(raw)
        if 'g' in d:
            vs, tag = judge_hwe(d['g'], d['two'], d['one'])
            n = sum(d['g'])
            nA = d['g'][1] + 2 * min(d['g'][0], d['g'][2])
            nB = 2 * n - nA
            cnt['large_hwe'] += 1
            cnt['large_hwe_sensitive'] += tag == 'sensitive'
            cnt['large_hwe_product_over_2^31'] += (nA + 1) * (nB + 1) > 2**31 - 1
            cnt['large_max_n'] = max(cnt['large_max_n'], n)
            rep = {'kind': 'hwe', 'g': d['g']}
            if d['g'] == [21075, 22850, 6075]:
                samples.append(d)
        else:
            vs = _judge_table_line(d)[0]
            fisher = d.get('f') is not None
            cnt['large_fisher_tables' if fisher else 'large_chisq_tables'] += 1
            rep = {'kind': 'table', 't': d['t'], 'm': [m for m, _ in d['ct']], 'fisher': fisher}
            if d['t'] in ([3, 7, 46341, 15448], [46341, 46341, 46341, 46341]):
                samples.append(d)
        for sig, msg in vs:
            cur = viol.get(sig)
            if cur is None:
                viol[sig] = (msg, rep, 1)
            else:
                viol[sig] = (cur[0], cur[1], cur[2] + 1)
    return viol, cnt, samples


def _job(job):
    if job[0] == 'alts':
        return ('alts',) + _alts_job(job[1], job[2])
    if job[0] == 'large':
        return ('large',) + _large_job(job[1], job[2])
    if job[0] == 'hwe':
        return ('hwe',) + _hwe_run(job[1], job[2])
    return ('tables',) + _table_shard(job[1:])


def judge_alts(d):
    """The engine's general fisherExactTest with alternative = two.sided / less / greater on one table."""
    t = d['t']
    v, _ = judge_fisher(t, d['two'])
    r = fisher_ref(*t)
    for alt in ('less', 'greater'):
        out = d[alt]
        if isinstance(out, dict):
            v.append((f'fisher:{alt}:raised', f'fisherExactTest{tuple(t)} alternative={alt} raised {out["err"]}'))
            continue
        p, orr, lo, hi = out
        if r is None:
            if not all(x != x for x in out) and not close(p, 1.0):
                v.append(('fisher:degenerate-table', f'fisherExactTest{tuple(t)} alternative={alt} (empty row or column) returned {out}'))
            continue
        w, x, tot = r['w'], r['x'], sum(r['w'])
        i = x - r['lo']
        pref = Fraction(sum(w[:i + 1]) if alt == 'less' else sum(w[i:]), tot)
        if not (p == p and 0.0 <= p <= 1.0):
            v.append((f'fisher:{alt}:p_value-outside-[0,1]', f'fisherExactTest{tuple(t)} alternative={alt} p_value = {p!r}'))
        if not close(p, pref):
            v.append((f'fisher:{alt}:p_value', f'fisherExactTest{tuple(t)} alternative={alt} p_value = {p!r}, exact tail {float(pref)!r} (= {pref})'))
        if alt == 'less':   # interval (0, upper bound at level 0.05)
            ok = lo == 0.0 and (hi == math.inf if x == r['hi'] else _root_ok(hi, lambda s: _tail_at(r, s, x, False), 0.05, False))
        else:
            ok = hi == math.inf and (lo == 0.0 if x == r['lo'] else _root_ok(lo, lambda s: _tail_at(r, s, x, True), 0.05, True))
        if not ok:
            v.append((f'fisher:{alt}:confidence-interval', f'fisherExactTest{tuple(t)} alternative={alt} one-sided 95% interval = ({lo!r}, {hi!r})'))
    return v


def _alts_job(cls, n):
    text = J.run(cls, MAIN, '', args=['alts', n])
    viol = {}
    k = ties = 0
    for line in text.splitlines():
        d = json.loads(line)
        k += 1
        r = fisher_ref(*d['t'])
        if r is not None:
            wx = r['w'][r['x'] - r['lo']]
            ties += sum(1 for y in r['w'] if y == wx) > 1
        for sig, msg in judge_alts(d):
            cur = viol.get(sig)
            rep = {'kind': 'alts', 't': d['t']}
            if cur is None or _size(d['t']) < _size(cur[1]['t']):
                viol[sig] = (msg, rep, 1 + (cur[2] if cur else 0))
            else:
                viol[sig] = (cur[0], cur[1], cur[2] + 1)
    return viol, {'alts_tables': k, 'alts_tables_with_equally_probable_table_in_support': ties}


def _table_shard(job):
    cls, dargs = job
    text = J.run(cls, MAIN, '', args=dargs)
    viol = {}
    cnt = {'tables': 0, 'fisher_nondegenerate': 0, 'fisher_degenerate': 0, 'fisher_near_tie': 0, 'fisher_p_lt_0.05': 0,
           'chisq_defined': 0, 'chisq_undefined': 0, 'ctt_calls': 0, 'ctt_chi': 0, 'ctt_fisher': 0, 'or_interior': 0}
    pvals = set()
    samples = []
    for line in text.splitlines():
        d = json.loads(line)
        vs, tf, tc, tct = _judge_table_line(d)
        cnt['tables'] += 1
        if tf in ('ok', 'near-tie'):
            cnt['fisher_nondegenerate'] += 1
            f = d['f']
            pvals.add(f[0])
            if f[0] < 0.05:
                cnt['fisher_p_lt_0.05'] += 1
            if 0 < f[1] < math.inf:
                cnt['or_interior'] += 1
        if tf == 'near-tie':
            cnt['fisher_near_tie'] += 1
        if tf == 'degenerate':
            cnt['fisher_degenerate'] += 1
        cnt['chisq_defined' if tc == 'ok' else 'chisq_undefined'] += 1
        cnt['ctt_calls'] += len(tct)
        cnt['ctt_chi'] += tct.count('chi')
        cnt['ctt_fisher'] += tct.count('fisher')
        if d['t'] in ([3, 1, 1, 3], [12, 2, 5, 9], [7, 0, 2, 5]):
            samples.append(d)
        for sig, msg in vs:
            cur = viol.get(sig)
            if cur is None or _size(d['t']) < _size(cur[1]['t']):
                viol[sig] = (msg, {'kind': 'table', 't': d['t'], 'm': [m for m, _ in d['ct']]}, 1 + (cur[2] if cur else 0))
            else:
                viol[sig] = (cur[0], cur[1], cur[2] + 1)
    return viol, cnt, pvals, samples


def _hwe_run(cls, n):
    text = J.run(cls, MAIN, '', args=['hwe', n])
    viol = {}
    cnt = {'triples': 0, 'nontrivial': 0, 'with_exact_tie': 0, 'near_tie': 0, 'p_lt_0.05': 0}
    samples = []
    pv = set()
    for line in text.splitlines():
        d = json.loads(line)
        vs, tag = judge_hwe(d['g'], d['two'], d['one'])
        cnt['triples'] += 1
        if tag != 'trivial':
            cnt['nontrivial'] += 1
            if isinstance(d['two'], list):
                pv.add(d['two'][1])
                if d['two'][1] < 0.05:
                    cnt['p_lt_0.05'] += 1
        if tag == 'tie':
            cnt['with_exact_tie'] += 1
        if tag == 'near-tie':
            cnt['near_tie'] += 1
        if d['g'] in ([3, 4, 3], [10, 2, 9]):
            samples.append(d)
        for sig, msg in vs:
            cur = viol.get(sig)
            if cur is None or _size(d['g']) < _size(cur[1]['g']):
                viol[sig] = (msg, {'kind': 'hwe', 'g': d['g']}, 1 + (cur[2] if cur else 0))
            else:
                viol[sig] = (cur[0], cur[1], cur[2] + 1)
    return viol, cnt, len(pv), samples


def _selfcheck(cls):
    """Validate the harness only (never the engine): (1) the stand-in distributions, run directly on the JVM, against
    exact values; (2) the references against the example values printed in the engine's documentation; (3) that the
    judges reject perturbed outputs."""
    from scipy.special import chdtr

    for line in J.run(cls, MAIN, '', args=['standins']).splitlines():
        d = json.loads(line)
        if 'hyper' in d:
            n, m, s, k = d['hyper']
            lo, hi = max(0, s + m - n), min(m, s)
            w = {j: math.comb(m, j) * math.comb(n - m, s - j) for j in range(lo, hi + 1)}
            tot = sum(w.values())
            pk = Fraction(w.get(k, 0), tot)
            want = [float(pk), math.log(pk) if pk else -math.inf, float(Fraction(sum(x for j, x in w.items() if j <= k), tot)),
                    float(Fraction(sum(x for j, x in w.items() if j >= k), tot))]
            if not all(close(g, e, rel=1e-12, ab=1e-14) for g, e in zip(d['v'], want)):
                raise J.HarnessError(f'C37 self-check: HypergeometricDistribution stand-in wrong at {d}: expected {want}')
        else:
            x, df = d['chisq']
            want = [chi2_sf(x, df), float(chdtr(df, x))]
            if not all(close(g, e, rel=1e-12, ab=1e-300) for g, e in zip(d['v'], want)):
                raise J.HarnessError(f'C37 self-check: ChiSquare stand-in wrong at {d}: expected {want}')
    # documented examples, expressed as engine outputs, must be accepted by the judges ...
    doc = {'t': [51, 43, 22, 92], 'f': [2.1564999740157304e-07, 4.918058171469967, 2.5659373368248444, 9.677929632035475],
           'c': [1.4626257805267089e-07, 4.959830866807611], 'x': 27.638186780356982,
           'ct': [[22, [1.4626257805267089e-07, 4.959830866807611]], [23, [2.1564999740157304e-07, 4.918058171469967]]]}
    vs = _judge_table_line(doc)[0]
    if vs:
        raise J.HarnessError(f'C37 self-check: the references reject the documented example: {vs}')
    for g, two in (([250, 500, 250], [0.5002501250625313, 0.9747844394217698]), ([37, 200, 85], [0.48964964307448583, 1.1337210383168987e-06])):
        n, nA, nB, w = hwe_ref(*g)
        one = float(Fraction(2 * sum(x for k, x in w.items() if k > g[1]) + w[g[1]], 2 * sum(w.values())))
        vs = judge_hwe(g, two, [two[0], one])[0]
        if vs:
            raise J.HarnessError(f'C37 self-check: the HWE reference rejects the documented example: {vs}')
    # ... and perturbed outputs must be rejected
    bad = [doc['f'][0] * (1 + 1e-3), doc['f'][1] * 1.01, doc['f'][2] * 0.99, doc['f'][3] * 1.01]
    sigs = {s for s, _ in judge_fisher(doc['t'], bad)[0]}
    if not {'fisher:p_value', 'fisher:odds_ratio', 'fisher:ci_95_lower', 'fisher:ci_95_upper'} <= sigs:
        raise J.HarnessError(f'C37 self-check: reference failed to reject perturbed Fisher output: {sigs}')
    if not judge_hwe([37, 200, 85], [0.4896, 1.1337210383168987e-06 * 2], [0.48964964307448583, 0.5])[0]:
        raise J.HarnessError('C37 self-check: reference failed to reject perturbed HWE output')
    if not judge_chisq([51, 43, 22, 92], [1.46e-07, 4.9598], 27.6)[0]:
        raise J.HarnessError('C37 self-check: reference failed to reject perturbed chi-squared output')


def check(tier, seed, procs):
    J.selftest()
    cls = build()
    _selfcheck(cls)
    ncell = 12 if tier == 'quick' else 20
    ngt = 15 if tier == 'quick' else 30
    chi2_sf(1.0, 1)  # import scipy.special before forking
    if abs(chi2_sf(27.638186780356982, 1) - math.erfc(math.sqrt(27.638186780356982 / 2))) > 1e-18:
        raise J.HarnessError('C37 self-check: scipy chi-square tail disagrees with erfc')
    nshard = max(1, min(procs - 1, ncell + 1, 8 if tier == 'quick' else 15))
    cuts = [round(i * (ncell + 1) / nshard) for i in range(nshard + 1)]
    ntot = 12 if tier == 'quick' else 30
    tjobs = [('tables', str(cls), ['tables', ncell, cuts[i], cuts[i + 1] - 1]) for i in range(nshard)]
    if ntot > ncell:   # tables with total <= ntot that the cell-bounded grid does not contain
        tjobs.append(('tables', str(cls), ['totalsabove', ntot, ncell]))
    jobs = [('large', str(cls), tier), ('hwe', str(cls), ngt), ('alts', str(cls), ntot)] + par.rotate(tjobs, seed)
    res = par.pmap(_job, jobs, min(procs, len(jobs)), chunksize=1)
    rows = [r[1:] for r in res if r[0] == 'tables']
    (hv, hcnt, hpv, hsamples), = [r[1:] for r in res if r[0] == 'hwe']
    (lv, lcnt, lsamples), = [r[1:] for r in res if r[0] == 'large']
    (av, acnt), = [r[1:] for r in res if r[0] == 'alts']
    viol = {}
    cnt = {}
    all_pv = set()
    samples = []
    for v, c, npv, s in rows:
        for k, x in c.items():
            cnt[k] = cnt.get(k, 0) + x
        all_pv |= npv
        samples += s
        for sig, (msg, rep, k) in v.items():
            cur = viol.get(sig)
            if cur is None or _size(rep['t']) < _size(cur[1]['t']):
                viol[sig] = (msg, rep, k + (cur[2] if cur else 0))
            else:
                viol[sig] = (cur[0], cur[1], cur[2] + k)
    def merge(extra, keep_existing_example=False):
        for sig, (msg, rep, k) in extra.items():
            cur = viol.get(sig)
            if cur is None:
                viol[sig] = (msg, rep, k)
            elif keep_existing_example or _size(cur[1].get('t') or cur[1].get('g')) <= _size(rep.get('t') or rep.get('g')):
                viol[sig] = (cur[0], cur[1], cur[2] + k)
            else:
                viol[sig] = (msg, rep, cur[2] + k)

    merge(hv)
    merge(av)
    merge(lv, keep_existing_example=True)   # a class already seen on a small case keeps its small example
    violations = [{'signature': sig, 'message': f'{msg}   [{k} case(s) of this class in the enumerated domain]', 'replay': rep}
                  for sig, (msg, rep, k) in sorted(viol.items())]
    samples = sorted(samples, key=lambda d: d['t'])[:3] + hsamples[:2] + lsamples[:3]
    evaluations = (cnt['tables'] * 2 + cnt['ctt_calls'] + 2 * hcnt['triples']
                   + 3 * acnt['alts_tables'] + 2 * lcnt['large_hwe'] + 4 * lcnt['large_fisher_tables'] + 3 * lcnt['large_chisq_tables'])
    cov = {
        'evaluations': evaluations,
        'distinct_nontrivial': cnt['fisher_nondegenerate'] + hcnt['nontrivial'],
        'rule': ('every 2x2 table with each cell in 0..%d and every genotype-count triple with each count in 0..%d is evaluated on the JVM by the '
                 'sliced engine code (Fisher, chi-squared, contingency test at min_cell_count in {0, min cell, min cell + 1}; HWE one- and '
                 'two-sided).  Non-trivial = table with no empty row/column (Fisher and chi-squared both defined), or triple with n >= 1 '
                 'whose Levene-Haldane support has >= 2 outcomes; all enumerated cases are distinct by construction.' % (ncell, ngt)),
        'samples': samples,
        'exhaustive': True,
        'bounds': f'2x2 cells <= {ncell} and every table with total <= {ntot} (also with alternative less / greater); genotype counts <= {ngt}; min_cell_count on both sides of each dispatch boundary',
        'tables': cnt['tables'],
        'tables_degenerate_margins_engine_returns_nan': cnt['fisher_degenerate'],
        'fisher_distinct_p_values': len(all_pv),
        'fisher_p_below_0.05': cnt['fisher_p_lt_0.05'],
        'fisher_interior_odds_ratio_root_found_by_search': cnt['or_interior'],
        'fisher_tables_where_R_tie_tolerance_matters': cnt['fisher_near_tie'],
        'chisq_defined': cnt['chisq_defined'],
        'contingency_calls': cnt['ctt_calls'],
        'contingency_dispatched_to_chisq': cnt['ctt_chi'],
        'contingency_dispatched_to_fisher': cnt['ctt_fisher'],
        'fisher_all_alternatives_tables_total_le_%d' % ntot: acnt['alts_tables'],
        'fisher_all_alternatives_tables_with_tied_table_in_support': acnt['alts_tables_with_equally_probable_table_in_support'],
        'hwe_triples': hcnt['triples'],
        'hwe_triples_with_equally_probable_outcomes': hcnt['with_exact_tie'],
        'hwe_near_ties': hcnt['near_tie'],
        'hwe_distinct_two_sided_p_values': hpv,
        'hwe_p_below_0.05': hcnt['p_lt_0.05'],
        'overflow_boundary_layer': dict(lcnt, tolerance=f'HWE p-values: relative {LARGE_REL} (log-gamma reference in floats); tables: exact references, '
                                        'same tolerances as the dense layer', note='not exhaustive: a fixed list of inputs whose intermediate '
                                        'products cross 2^15, 2^16, 2^31-1, 2^32 (n up to %d)' % lcnt['large_max_n']),
    }
    vac = None
    if not (cnt['fisher_nondegenerate'] > 1000 and cnt['ctt_chi'] > 0 and cnt['ctt_fisher'] > 0 and cnt['or_interior'] > 0
            and hcnt['with_exact_tie'] > 0 and hpv > 100 and cnt['fisher_p_lt_0.05'] > 0
            and acnt['alts_tables_with_equally_probable_table_in_support'] > 50 and lcnt['large_hwe_sensitive'] >= 10 and lcnt['large_hwe_product_over_2^31'] >= 5 and lcnt['large_fisher_tables'] > 0
            and lcnt['large_chisq_tables'] > 0):
        vac = f'interesting branches not reached: {cnt} {hcnt} {lcnt}'
    return {
        'coverage': cov,
        'violations': violations,
        'assumptions': [
            'the code judged is the text of fisherExactTest/chiSquaredTest/contingencyTableTest/hardyWeinbergTest/uniroot/pchisqtail and '
            'LeveneHaldane sliced verbatim from the working tree, compiled with Scala 3.3.4 (-source:3.0-migration) instead of the '
            "engine's Scala 2.12 and run on OpenJDK 17",
            'the external distribution classes are stand-ins written for this check (vf/jvm/c37_standins.scala): HypergeometricDistribution '
            "re-implemented after commons-math3's own algorithm (saddle-point logProbability, exp, cumulative sums; validated against exact "
            'values at 1e-12) so that mathematically equal table probabilities differ in their last bits as they do in production, incomplete-gamma ChiSquare.cumulative, abstract AbstractIntegerDistribution; so what is verified is '
            "hail's own arithmetic (two-sided accumulation, odds-ratio and confidence-interval search, test dispatch, Levene-Haldane "
            'recurrences and mid-p), not commons-math3 / jdistlib',
            'scala.collection.compat LazyList is replaced by the Scala 2.13 standard LazyList',
            'odds ratio and confidence bounds are accepted within the root-finder tolerance the engine documents (1.22e-4 on the search variable)',
            'tables with an empty row or column: NaN results accepted (the docs say fields may be NaN)',
            'overflow-boundary layer: Levene-Haldane reference at n > 2000 is math.lgamma-based floats (relative tolerance 1e-6); that layer is '
            'a fixed list, not an exhaustive range',
            'reference chi-square tail: scipy.special.chdtrc (the function scipy.stats.chi2.sf evaluates)',
        ],
        'vacuous': vac,
    }


def replay(obj):
    cls = build()
    if obj['kind'] == 'alts':
        t = obj['t']
        n = sum(t)
        for line in J.run(cls, MAIN, '', args=['alts', n]).splitlines():
            d = json.loads(line)
            if d['t'] == t:
                vs = judge_alts(d)
                break
        else:
            raise J.HarnessError(f'C37 replay: table {t} not produced')
    elif obj['kind'] == 'table':
        line = ('t ' if obj.get('fisher', True) else 'x ') + ' '.join(map(str, obj['t'])) + ' ' + ' '.join(map(str, obj.get('m', [0])))
        d = json.loads(J.run(cls, MAIN, line + '\n', args=['cases']).splitlines()[0])
        vs = _judge_table_line(d)[0]
    else:
        d = json.loads(J.run(cls, MAIN, 'g ' + ' '.join(map(str, obj['g'])) + '\n', args=['cases']).splitlines()[0])
        vs = judge_hwe(d['g'], d['two'], d['one'])[0]
    if vs:
        return False, '; '.join(f'[{s}] {m}' for s, m in vs)
    return True, f'no violation: {d}'
