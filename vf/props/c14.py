"""C14  Batch API access control.

Every route registered in batch.front_end.front_end.routes (enumerated from the RouteTableDef at run time)
x callers {anonymous, unknown bearer token, inactive user (member and owner), u1, u2 (bearer and browser-session
flavour), active user in no project, developer in no project, the `auth` service account, another (non-developer) service account}
x targets (batches: 2 u1's in the shared project bp, 3 u2's in bp2 where u1 is not a member, 4 u1's deleted,
5 u2's in bp, 6 the inactive user's, 7 u1's with update 1 staged but not committed, 99 nonexistent;
billing projects: bp, bp2, bpc (closed), nope (nonexistent))
x a small table of request variants per route (fresh idempotency token / replay of the batch token that
GET batch hands to every project member / replay of the token of an open update).

The REAL handler with its REAL decorator stack is called: the request is resolved by the real aiohttp
UrlDispatcher built from the route table, passes check_csrf_token and unavailable_if_frozen (the middlewares
of run()) and reaches the registered handler; authentication goes through the real AuthServiceAuthenticator
whose only outside call (auth service /userinfo) is answered by a fake; every SQL statement is executed by
minisql on the seeded world.  Oracle = the access matrix of the statement, keyed by a route class derived from
method + path template only; a route that fits no class (or has no request in the table) is itself a violation:
  * caller outside the class: must get an error (4xx/5xx or the login redirect) AND the full database dump, the
    file store and the outbound-call log (driver / workers) must be unchanged;
  * caller squarely inside the class on an existing target: must not be refused for authentication /
    authorisation (business 4xx with a reason are fine);
  * listings / reads: every batch, billing project or spending row shown must be one the caller may read.

Search queries: every listing route that takes q (batches v1 / v2 / UI, jobs of a batch v1 / v2, jobs of a job group v1 / v2,
the UI batch page) is sent the query tables q_jobs_v1/v2, q_batches_v1/v2: no q, every state keyword (single- and multi-state:
live, bad, done), every negation, attribute terms (k=v, has:k, job_id=), every operator of the v2 grammar per field, quoted /
partial words, malformed terms, all ordered pairs over a 9-term alphabet and a few triples; plus recursive.
Paging: last_batch_id {0,1,3,5,8,9,100} x {no q, '', user, billing project, state} on the batch lists; last_job_id
{0,1,2,4,8,100} x {no q, done, live, attribute} (+ recursive) on the job lists and the UI batch page; last_job_id x limit
{1,2,10000 (max),0,10001,x} on jobs/resources; last_job_group_id {0,1,5} on the job-group lists; limit x
last_completed_timestamp on batches/completed.
Batches 1 and 8 (u2, bp2, never targets; ids below / above every target) each hold one job in each of the 8 job states and every batch / job carries attributes, so a
listing that escapes its restriction shows rows.  Every returned row must belong to a batch the caller may read AND to the
batch (and job group, directly or as descendant when recursive) named in the URL.  Quick tier: the search queries are sent
by u1 / u2 on three readable batches each and by the non-member on one; thorough tier: by every caller on every target.

History phase (both tiers): every sequence  [request r1 by caller c on batch B] ; [operation] ; [request r2 by c on B]
and  [operation] ; [r2]  on ONE service process, for the (operation, c, B) combinations of HISTORY_COMBOS: remove / add a
user from / to a billing project, close / reopen a billing project, delete the batch (all through the real routes, as
developer / auth / owner), account deactivated or session revoked at the auth service (+ 11 s, the real 10 s session cache
of gear.auth runs out).  r1 ranges over every batch-scoped request; r2 over {r1} + 5 probes in the quick tier and over every
batch-scoped request in the thorough tier.  r2 is judged with the same oracle against the membership / ownership truth read
from the tables AFTER the operation.  Mutable state of the service process (module globals, class attributes, closures and
function attributes of batch.front_end / gear / web_common and the helpers they import, the app mapping, the authenticator)
is snapshotted once, persists across the steps of a history and is put back before the next one; state the harness can
neither prove immutable nor put back (unknown kind of module global, global created while serving) is reported (exit 2).
"""
import json
import re

from vf import par

NEEDS_SERVICES = True

# ------------------------------------------------------------------------------------------------------
# principals (what the fake auth service knows).  Ground truth about membership / ownership is read back
# from the seeded tables, never from the code under test.
# ------------------------------------------------------------------------------------------------------


def _ud(name, i, state='active', dev=0, sa=0):
    return {'username': name, 'hail_credentials_secret_name': f'{name}-gsa-key', 'tokens_secret_name': f'{name}-tokens',
            'is_developer': dev, 'is_service_account': sa, 'state': state, 'login_id': f'{name}@example.org',
            'namespace_name': None, 'display_name': name, 'hail_identity': f'{name}@sa', 'id': i, 'trial_bp_name': None}


USERDATA = {
    'u1': _ud('u1', 1), 'u2': _ud('u2', 2), 'u3': _ud('u3', 3), 'ui': _ud('ui', 4, state='inactive'),
    'dev': _ud('dev', 5, dev=1), 'auth': _ud('auth', 6, sa=1),   # auth: is_developer 0, is_service_account 1 (as bootstrap creates it)
    'ci': _ud('ci', 7, sa=1),                                    # any other service account: no developer, member of no project
}
# caller -> (session id or None, username or None, how the session id travels)
CALLERS = {
    'anonymous': (None, None, 'none'),
    'unknown-token': ('tok-of-nobody', None, 'bearer'),
    'inactive': ('tok-ui', 'ui', 'bearer'),
    'u1': ('tok-u1', 'u1', 'bearer'),
    'u2': ('tok-u2', 'u2', 'bearer'),
    'u2-browser': ('tok-u2', 'u2', 'cookie'),   # session cookie + CSRF token instead of a bearer header
    'nonmember': ('tok-u3', 'u3', 'bearer'),
    'developer': ('tok-dev', 'dev', 'bearer'),
    'auth': ('tok-auth', 'auth', 'bearer'),
    'sa': ('tok-ci', 'ci', 'bearer'),            # a non-developer service account that is not `auth`
    # thorough tier only
    'anonymous-browser': (None, None, 'cookie'),
    'unknown-session-browser': ('tok-of-nobody', None, 'cookie'),
    'inactive-browser': ('tok-ui', 'ui', 'cookie'),
    'u1-browser': ('tok-u1', 'u1', 'cookie'),
    'nonmember-browser': ('tok-u3', 'u3', 'cookie'),
    'developer-browser': ('tok-dev', 'dev', 'cookie'),
}
TOKENS = {tok: USERDATA[u] for tok, u, _ in CALLERS.values() if u}
# quick tier: search queries are sent by the two members on three batches each can read and by the non-member on one batch
# (the thorough tier sends every search query as every caller on every target)
Q_TARGETS_QUICK = {'u1': (2, 5, 7, None), 'u2': (2, 3, 5, None), 'nonmember': (2, None)}
QUICK_CALLERS = ['anonymous', 'unknown-token', 'inactive', 'u1', 'u2', 'u2-browser', 'nonmember', 'developer', 'auth', 'sa']
CALLER_ORDER = list(CALLERS)
API_TOKEN = '<token shown to this caller by GET /api/v1alpha/batches/{batch_id}>'

NONEXISTENT_BATCH = 99
ZOO_STATES = {1: 'Success', 2: 'Failed', 3: 'Error', 4: 'Running', 5: 'Cancelled', 6: 'Ready', 7: 'Creating', 8: 'Pending'}
BAIT_LOW, BAIT_HIGH = 1, 8   # u2's batches in bp2 with one job per job state, below / above every target id; never request targets
BATCH_TARGETS = (2, 3, 4, 5, 6, 7, NONEXISTENT_BATCH)
BP_TARGETS = ('bp', 'bp2', 'bpc', 'nope')
LOGIN_PREFIX = None  # filled in lazily: deploy_config.external_url('auth', '/user')

PUBLIC = {
    ('GET', '/healthcheck'), ('GET', '/api/v1alpha/version'), ('GET', '/api/v1alpha/cloud'), ('GET', '/swagger'),
    ('GET', '/openapi.yaml'), ('GET', '/tos'), ('GET', '/privacy'), ('GET', '/batch/static/js/{filename}'),
}
WRITE_SUFFIXES = ('/jobs/create', '/job-groups/create', '/updates/create', '/update-fast', '/commit', '/close')


def classify(method, path):
    """Route class from method + path template only (None = unclassifiable)."""
    if (method, path) in PUBLIC:
        return 'public'
    params = set(re.findall(r'{(\w+)}', path))
    if 'batch_id' in params:
        if method in ('POST', 'PATCH') and path.endswith(WRITE_SUFFIXES):
            return 'batch-write'
        if (method == 'PATCH' and path.endswith('/cancel')) or (method == 'DELETE' and path.endswith('/{batch_id}')) \
                or (method == 'POST' and re.fullmatch(r'/batches/{batch_id}/(cancel|delete)', path)):
            return 'batch-cancel-delete'
        if method == 'GET':
            return 'batch-read'
        return None
    if re.search(r'/billing_(projects|limits)\b', path):
        if method == 'POST':
            return 'bp-admin'
        if method == 'GET' and 'billing_project' in params:
            return 'bp-read'
        if method == 'GET' and path == '/billing_projects':
            return 'bp-admin-page'
        if method == 'GET' and not params:
            return 'list-billing-projects'
        return None
    if params:
        return None
    if method == 'GET' and path == '/billing':
        return 'list-billing'
    if method == 'GET' and re.fullmatch(r'(/api/v\dalpha)?/batches(/completed)?', path):
        return 'list-batches'
    if method == 'POST' and path in ('/api/v1alpha/batches/create', '/api/v1alpha/batches/create-fast'):
        return 'create-batch'
    if method == 'GET' and path in ('', '/', '/api/v1alpha/supported_regions', '/api/v1alpha/default_region'):
        return 'authenticated'
    return None


# ------------------------------------------------------------------------------------------------------
# world
# ------------------------------------------------------------------------------------------------------
_W = None


class _FileStore:
    """Always-answering file store (logs / profiles exist for every attempt; no resource-usage frames)."""

    def __init__(self, inner):
        self.inner = inner
        self.files = inner.files

    def __getattr__(self, name):
        return getattr(self.inner, name)

    async def read_status_file(self, batch_id, job_id, attempt_id):
        k = ('status', batch_id, job_id, attempt_id)
        if k not in self.inner.files or self.inner.files[k] is None:
            raise FileNotFoundError(str(k))
        return self.inner.files[k]

    async def read_log_file(self, fv, batch_id, job_id, attempt_id, container):
        return f'log {batch_id}/{job_id}/{attempt_id}/{container}'.encode()

    async def read_resource_usage_file(self, fv, batch_id, job_id, attempt_id, task):
        raise FileNotFoundError('no resource usage recorded')

    async def read_jvm_profile(self, fv, batch_id, job_id, attempt_id, task):
        return b'<html>profile</html>'


def _install_auth_fake(w):
    import aiohttp

    sess = w.client_session
    w.c14_auth = {'inactive': set(), 'revoked': set()}   # what the (fake) auth service has been told since the world was seeded

    async def get_read_json(url, **kw):
        sess.calls.append(('GET', url))
        hdr = (kw.get('headers') or {}).get('Authorization', '')
        tok = hdr[len('Bearer '):] if hdr.startswith('Bearer ') else None
        if url.endswith('/api/v1alpha/userinfo'):
            if tok in TOKENS and TOKENS[tok]['username'] not in w.c14_auth['revoked']:
                ud = dict(TOKENS[tok])
                if ud['username'] in w.c14_auth['inactive']:
                    ud['state'] = 'inactive'
                return ud
            raise aiohttp.ClientResponseError(None, (), status=401, message='Unauthorized')
        m = re.search(r'/api/v1alpha/users/([^/]+)$', url)
        if m and '/auth' in url:
            if tok not in TOKENS:
                raise aiohttp.ClientResponseError(None, (), status=401, message='Unauthorized')
            if m.group(1) in USERDATA:
                return {'username': m.group(1)}
            raise aiohttp.ClientResponseError(None, (), status=404, message='Not Found')
        raise RuntimeError(f'C14 harness: unexpected outbound GET {url}')

    sess.get_read_json = get_read_json


def world():
    """One seeded world per process: (world, base snapshot, ground truth, router, handler table)."""
    global _W, LOGIN_PREFIX
    if _W is not None:
        return _W
    from aiohttp import web

    from vf import batchfamily as bf
    from vf import batchops as ops
    from vf import dbworld

    from batch.front_end import front_end as fe
    from hailtop.config import get_deploy_config

    for u, d in USERDATA.items():
        dbworld.USERS.setdefault(u, d)
    LOGIN_PREFIX = get_deploy_config().external_url('auth', '/user')
    w = ops.BatchWorld(instances=(('i1', 'standard', 'active'),))
    w.app['default_region'] = 'us-central1'
    w.app['file_store'] = _FileStore(w.file_store)
    _install_auth_fake(w)
    # presentation only (plotly / pandas are inert stand-ins here)
    fe.plot_job_durations = lambda *a, **k: None
    fe.plot_resource_usage = lambda *a, **k: None

    q = w.sql
    q("INSERT INTO billing_projects (name, name_cs, status) VALUES ('bpc', 'bpc', 'closed')")
    for bp, u in (('bp', 'ui'), ('bp2', 'ui'), ('bpc', 'u1')):
        q("INSERT INTO billing_project_users (billing_project, user, user_cs) VALUES (%s, %s, %s)", (bp, u, u))

    G = bf.G

    def J(i, **kw):   # every job carries attributes so that attribute search terms have something to match
        d = ops.job_spec(i, **kw)
        d['attributes'] = {'name': f'j{i}', 'kind': 'x'}
        return d

    rs = (('r/a/1', 10), ('r/b/1', 5))
    saved_bid = ops.BID
    plan = [('u1', 'bp', 'tb2', False), ('u2', 'bp2', 'tb3', True), ('u1', 'bp', 'tb4', True), ('u2', 'bp', 'tb5', True),
            ('ui', 'bp', 'tb6', False)]

    def A(label):
        r = ops.apply(w, label)
        if 'http' in r or 'callerror' in r:
            raise RuntimeError(f'C14 harness: seeding step {label[:3]} failed: {r}')
        return r

    def bait(tok):
        # u2's batch in bp2 with one job in EVERY job state: makes a listing that escapes its batch / billing-project restriction
        # visible whatever state filter or paging key it uses (one below, one above every target id)
        spec = {'billing_project': 'bp2', 'n_jobs': 8, 'n_job_groups': 1, 'token': tok, 'attributes': {'name': f'n-{tok}', 'team': 'y'}}
        ops.BID = w.run(fe._create_batch(spec, USERDATA['u2'], w.gdb))
        A(('new_update', 'u2', tok, 8, 1))
        A(('add_groups', 'u2', 1, [G(1, parent_abs=0)]))
        A(('add_jobs', 'u2', 1, [J(i, abs_group=0) for i in (1, 2, 3, 4)] + [J(i, group=1) for i in (5, 6, 7)] + [J(8, group=1, parents=[4])]))
        A(('commit_tail', 'u2', 1))
        return ops.BID

    try:
        assert bait('tb1') == BAIT_LOW
        for user, bp, tok, finish in plan:
            spec = {'billing_project': bp, 'n_jobs': 2, 'n_job_groups': 1, 'token': tok, 'attributes': {'name': f'n-{tok}', 'team': 'x'}}
            bid = w.run(fe._create_batch(spec, USERDATA[user], w.gdb))
            ops.BID = bid
            assert tok == f'tb{bid}'
            A(('new_update', user, tok, 2, 1))            # update 1 carries the batch token (as create / create-fast do)
            A(('add_groups', user, 1, [G(1, parent_abs=0)]))
            A(('add_jobs', user, 1, [J(1, abs_group=0), J(2, group=1)]))
            A(('commit_tail', user, 1))
            A(('new_update', user, tok + '-u2', 1, 1))    # update 2: open, nothing staged yet
            A(('new_update', user, tok + '-u3', 1, 0))    # update 3: open, fully staged, not committed
            A(('add_jobs', user, 3, [J(1, abs_group=0)]))
            ops.apply(w, ('sched', None, 'i1'))
            for a in w.table('attempts'):
                if a['batch_id'] == bid and a['end_time'] is None and (finish or a['job_id'] == 1):
                    A(('started_rs', a['job_id'], a['attempt_id'], 'i1', 10, rs))
                    A(('complete', a['job_id'], a['attempt_id'], 'i1', 'Success', 10, 20, rs))
            if not finish:  # job 2 goes back to Ready so that no worker has to be asked for live logs
                for a in w.table('attempts'):
                    if a['batch_id'] == bid and a['end_time'] is None:
                        A(('unschedule', a['job_id'], a['attempt_id'], 'i1'))
        # batch 7: what POST /batches/create + bunches leave behind before the owner commits: update 1 (token = batch token)
        # fully staged, not committed
        spec = {'billing_project': 'bp', 'n_jobs': 1, 'n_job_groups': 0, 'token': 'tb7'}
        ops.BID = w.run(fe._create_batch(spec, USERDATA['u1'], w.gdb))
        A(('new_update', 'u1', 'tb7', 1, 0))
        A(('add_jobs', 'u1', 1, [J(1, abs_group=0)]))
        assert bait('tb8') == BAIT_HIGH
    finally:
        ops.BID = saved_bid
    q("UPDATE batches SET deleted = 1 WHERE id = 4")
    for b in (BAIT_LOW, BAIT_HIGH):   # (last, so that the seeding scheduler sweeps above cannot move them on)
        for jid, st in ZOO_STATES.items():
            q("UPDATE jobs SET state = %s WHERE batch_id = %s AND job_id = %s", (st, b, jid))
    w.run(_drain(w))

    truth = truth_from_tables(w)
    assert sorted(truth['batches']) == [1, 2, 3, 4, 5, 6, 7, 8], truth
    for b in (BAIT_LOW, BAIT_HIGH):
        assert {j['state'] for j in w.table('jobs') if j['batch_id'] == b} == set(ZOO_STATES.values())
        assert truth['batches'][b]['bp'] == 'bp2' and b not in BATCH_TARGETS
    assert not truth['batches'][7]['first_update_committed'] and truth['batches'][2]['first_update_committed']
    assert truth['batches'][4]['deleted'] and not truth['batches'][2]['deleted']

    app = web.Application()
    app.add_routes(fe.routes)
    base = w.snapshot()
    files0 = dict(w.file_store.files)
    w.c14_modstate = ModuleState(w)
    _W = (w, base, files0, truth, app.router, fe)
    return _W


def truth_from_tables(w):
    """Membership / ownership ground truth, read from the tables (data, not code) and from what the auth service was told."""
    committed1 = {u['batch_id'] for u in w.table('batch_updates') if u['update_id'] == 1 and u['committed']}
    truth = {
        'batches': {b['id']: {'user': b['user'], 'bp': b['billing_project'], 'deleted': bool(b['deleted']),
                              'first_update_committed': b['id'] in committed1} for b in w.table('batches')},
        'members': {},
        'bp_status': {b['name']: b['status'] for b in w.table('billing_projects')},
        'inactive': set(w.c14_auth['inactive']),
        'revoked': set(w.c14_auth['revoked']),
    }
    for r in w.table('billing_project_users'):
        truth['members'].setdefault(r['billing_project'], set()).add(r['user'])
    truth['job_group_of'] = {(j['batch_id'], j['job_id']): j['job_group_id'] for j in w.table('jobs')}
    truth['group_ancestors'] = {}
    for r in w.table('job_group_self_and_ancestors'):
        truth['group_ancestors'].setdefault((r['batch_id'], r['job_group_id']), {})[r['ancestor_id']] = r['level']
    return truth


def fresh(ctx):
    """Back to the seeded state: database, file store, auth service, and every piece of mutable module / app state."""
    w, base, files0, truth, router, fe = ctx
    w.restore(base)
    w.file_store.files.clear()
    w.file_store.files.update(files0)
    w.c14_auth['inactive'].clear()
    w.c14_auth['revoked'].clear()
    w.c14_modstate.reset()


# ------------------------------------------------------------------------------------------------------
# mutable state of the service process (module globals, class attributes, closures, the app mapping): it must persist
# across the steps of one history (one front-end process) and be put back between histories
# ------------------------------------------------------------------------------------------------------
WATCHED_PREFIXES = ('batch.front_end', 'gear', 'web_common')
WATCHED_MODULES = ('batch.utils', 'batch.batch', 'batch.exceptions', 'batch.spec_writer', 'batch.globals', 'batch.file_store',
                   'batch.batch_configuration', 'batch.batch_format_version', 'batch.inst_coll_config', 'batch.resource_usage',
                   'batch.resources', 'batch.constants')
WALK_ROOTS = ('batch', 'gear', 'web_common', 'hailtop', 'sortedcontainers')
BENIGN_ROOTS = ('prometheus_client', 'prometheus_async', 'asyncio', 'aiohttp', 'yarl', 'multidict', 'vf', 'aiomysql', 'pymysql',
                'unittest', 'jinja2', 'aiohttp_jinja2', 'aiohttp_session', 'concurrent', '_thread', 'threading', 'ssl', 'contextvars')


class ModuleState:
    def __init__(self, w):
        import sys

        self.saved = []        # (kind, object, saved shallow copy)
        self.lru = []
        self.unknown = []      # module globals of a kind that can neither be proven immutable nor be reset
        self.seen = set()
        self.n_globals = 0
        for name, mod in sorted(sys.modules.items()):
            if mod is None or not (name in WATCHED_MODULES or name.startswith(WATCHED_PREFIXES)):
                continue
            for k, v in list(vars(mod).items()):
                if k.startswith('__') and k.endswith('__'):
                    continue
                self.n_globals += 1
                self.walk(v, 0, f'{name}.{k}', name)
        self.walk(w.app, 0, 'app', None)
        self.names0 = self._names()

    def walk(self, obj, depth, where, modname):
        import collections
        import enum
        import functools
        import logging
        import types

        if id(obj) in self.seen or depth > 8:
            return
        t = type(obj)
        root = (t.__module__ or '').split('.')[0]
        if obj is None or isinstance(obj, (types.ModuleType, types.BuiltinFunctionType, str, bytes, int, float, complex, re.Pattern,
                                           logging.Logger, enum.Enum, range, types.MappingProxyType)) or root in ('typing', 'typing_extensions'):
            return
        self.seen.add(id(obj))
        if isinstance(obj, (dict, list, set, collections.deque, bytearray)):
            copy = t(obj) if not isinstance(obj, collections.defaultdict) else dict(obj)
            self.saved.append(('cont', obj, copy))
            for x in (list(obj.values()) if isinstance(obj, dict) else list(obj)):
                self.walk(x, depth + 1, where, modname)
            return
        if isinstance(obj, (tuple, frozenset)):
            for x in obj:
                self.walk(x, depth + 1, where, modname)
            return
        if isinstance(obj, functools._lru_cache_wrapper):
            self.lru.append(obj)
            return
        if isinstance(obj, (types.FunctionType, types.MethodType, functools.partial, staticmethod, classmethod, property)):
            f = getattr(obj, '__func__', None) or getattr(obj, 'func', None) or getattr(obj, 'fget', None) or obj
            if isinstance(f, types.FunctionType) and (f.__module__ or '').split('.')[0] in WALK_ROOTS[:3]:
                for cell in f.__closure__ or ():
                    try:
                        self.walk(cell.cell_contents, depth + 1, where, modname)
                    except ValueError:
                        pass
                self.walk(f.__dict__, depth + 1, where, modname)   # function attributes, present or added later
            return
        if isinstance(obj, type):
            if (obj.__module__ or '').split('.')[0] in WALK_ROOTS[:3]:
                for k, v in list(vars(obj).items()):
                    if not (k.startswith('__') and k.endswith('__')):
                        self.walk(v, depth + 1, f'{where}.{k}', modname)
            return
        if root in WALK_ROOTS and hasattr(obj, '__dict__'):
            self.saved.append(('inst', obj, dict(obj.__dict__)))
            for x in list(obj.__dict__.values()):
                self.walk(x, depth + 1, where, modname)
            return
        if root in BENIGN_ROOTS:
            return
        if depth == 0:
            self.unknown.append(f'{where}: {t.__module__}.{t.__qualname__}')

    def reset(self):
        for kind, obj, copy in self.saved:
            if kind == 'inst':
                obj.__dict__.clear()
                obj.__dict__.update(copy)
            elif isinstance(obj, dict):
                obj.clear()
                obj.update(copy)
            elif isinstance(obj, set):
                obj.clear()
                obj.update(copy)
            elif isinstance(obj, (list, bytearray)):
                obj[:] = copy
            else:
                obj.clear()
                obj.extend(copy)
        for f in self.lru:
            f.cache_clear()

    def _names(self):
        import sys

        out = set()
        for name, mod in sorted(sys.modules.items()):
            if mod is None or not (name in WATCHED_MODULES or name.startswith(WATCHED_PREFIXES)):
                continue
            for k, v in list(vars(mod).items()):
                if k.startswith('__') and k.endswith('__'):
                    continue
                out.add(f'{name}.{k}')
                if isinstance(v, type) and v.__module__ == name:
                    out.update(f'{name}.{k}.{a}' for a in vars(v) if not (a.startswith('__') and a.endswith('__')))
        return out

    def drift(self):
        """Module globals / class attributes created after the snapshot (e.g. a lazily created cache): they are outside the
        snapshot and cannot be put back between histories -> reported."""
        return sorted(self._names() - self.names0)


async def _drain(w):
    import asyncio

    await asyncio.sleep(0)


def route_table():
    """[(index, method, path, handler_name, class)] from the live RouteTableDef."""
    from aiohttp import web

    from batch.front_end import front_end as fe

    out = []
    for i, r in enumerate(fe.routes):
        if isinstance(r, web.RouteDef):
            out.append((i, r.method, r.path, r.handler.__name__, classify(r.method, r.path)))
        else:
            out.append((i, 'STATIC', getattr(r, 'prefix', repr(r)), type(r).__name__, 'public' if isinstance(r, web.StaticDef) else None))
    return out


# ------------------------------------------------------------------------------------------------------
# requests
# ------------------------------------------------------------------------------------------------------


# ------------------------------------------------------------------------------------------------------
# search queries for the listing routes: every branch of front_end/query/{query,query_v1,query_v2}.py term parsing
# ------------------------------------------------------------------------------------------------------
PAGE_KEYS = ('0', '1', '2', '4', '8', '100')
JOB_STATE_TERMS = ('pending', 'ready', 'creating', 'running', 'live', 'cancelled', 'error', 'failed', 'bad', 'success', 'done')
BATCH_STATE_TERMS = ('open', 'closed', 'complete', 'running', 'cancelled', 'failure', 'success')
T0, T1 = '2000-01-01T00:00:00Z', '2100-01-01T00:00:00Z'


CORE = 6   # pairs among the first CORE terms of an alphabet are sent in both tiers, the remaining pairs in the thorough tier only


def _pairs(alphabet):
    core = [(a, b) for a in alphabet[:CORE] for b in alphabet[:CORE] if a != b]
    return core + [(a, b) for a in alphabet for b in alphabet if a != b and (a, b) not in core]


def _extra_pairs(alphabet, sep):
    core = {(a, b) for a in alphabet[:CORE] for b in alphabet[:CORE]}
    return {f'{a}{sep}{b}' for a in alphabet for b in alphabet if a != b and (a, b) not in core}


Q_EXTRA = set()   # queries sent in the thorough tier only


def q_jobs_v1():
    """v1 job search: blank separated terms, '!' negates."""
    singles = list(JOB_STATE_TERMS) + ['!' + t for t in JOB_STATE_TERMS] + \
        ['name=j1', '!name=j1', 'kind=x', 'name=nope', 'job_id=1', '!job_id=1', 'has:name', '!has:name', 'has:nope', 'bogus', '!bogus']
    alphabet = ('live', 'bad', 'done', '!live', 'name=j1', 'has:kind', 'success', '!done', 'job_id=2')
    Q_EXTRA.update(_extra_pairs(alphabet, ' '))
    return singles + [f'{a} {b}' for a, b in _pairs(alphabet)] + ['live bad done', 'done !bad name=j1']


def q_jobs_v2():
    """v2 job search: one '<left> <op> <right>' / word / "quoted word" per line."""
    singles = [f'state = {t}' for t in JOB_STATE_TERMS] + [f'state != {t}' for t in JOB_STATE_TERMS] + [
        'state == done', 'state =~ live', 'state = nosuchstate',
        'job_id = 1', 'job_id != 1', 'job_id >= 2', 'job_id < 2', 'job_id =~ 1', 'job_id = x',
        'instance = i1', 'instance != i1', 'instance =~ i', 'instance !~ i', 'instance > i1',
        'instance_collection = standard', 'instance_collection != standard', 'instance_collection =~ stand', 'instance_collection !~ stand',
        f'start_time >= {T0}', f'start_time < {T1}', 'start_time >= yesterday', f'end_time <= {T1}', f'end_time > {T0}', f'end_time =~ {T0}',
        'duration >= 0', 'duration < 1', 'duration = x', 'cost >= 0', 'cost < $1', 'cost =~ 1', 'exit_code = 0', 'exit_code != 0', 'exit_code > x',
        '"j1"', '"x"', '"j', 'j', 'nope', 'j"', 'name = j1', 'name != j1', 'name =~ j', 'name !~ j', 'kind = x', 'name > j1',
        'two words', 'a = b = c']
    alphabet = ('state = live', 'state = bad', 'state = done', 'state != live', 'name = j1', 'j', 'state != done', 'job_id >= 2', '"x"')
    Q_EXTRA.update(_extra_pairs(alphabet, '\n'))
    return singles + [f'{a}\n{b}' for a, b in _pairs(alphabet)] + [f'start_time >= {T0}\nend_time <= {T1}', f'end_time <= {T1}\nstart_time > {T0}\nstate = done',
                                                                  'state = live\nstate = bad\nstate = done']


def q_batches_v1():
    singles = list(BATCH_STATE_TERMS) + ['!' + t for t in BATCH_STATE_TERMS] + [
        'name=n-tb2', '!name=n-tb2', 'team=x', 'team=y', 'has:name', '!has:name', 'has:nope', 'user:u1', 'user:u2', '!user:u1', 'user:ui',
        'billing_project:bp', 'billing_project:bp2', '!billing_project:bp', '!billing_project:bp2', 'billing_project:nope', 'bogus', '!bogus']
    alphabet = ('user:u2', '!user:u1', 'billing_project:bp2', '!billing_project:bp', 'complete', 'team=y', '!running', 'success', 'has:team')
    Q_EXTRA.update(_extra_pairs(alphabet, ' '))
    return singles + [f'{a} {b}' for a, b in _pairs(alphabet)] + ['complete success !failure', '!billing_project:bp user:u2 team=y']


def q_batches_v2():
    singles = [f'state = {t}' for t in BATCH_STATE_TERMS] + [f'state != {t}' for t in BATCH_STATE_TERMS] + [
        'state =~ open', 'state = nosuchstate',
        'batch_id = 2', 'batch_id != 1', 'batch_id >= 2', 'batch_id < 3', 'batch_id = x', 'batch_id =~ 2',
        'billing_project = bp', 'billing_project = bp2', 'billing_project != bp', 'billing_project != bp2', 'billing_project =~ bp',
        'user = u1', 'user = u2', 'user != u1', 'user = ui', 'user =~ u',
        f'start_time >= {T0}', f'start_time < {T1}', 'start_time >= yesterday', f'end_time <= {T1}', f'end_time > {T0}', f'end_time =~ {T0}',
        'duration >= 0', 'duration < 1', 'duration = x', 'cost >= 0', 'cost < $1', 'cost =~ 1',
        '"n-tb2"', '"y"', '"n', 'n-tb', 'nope', 'n"', 'name = n-tb2', 'name != n-tb2', 'name =~ tb', 'name !~ tb', 'team = y', 'name > n',
        'two words', 'a = b = c']
    alphabet = ('user = u2', 'user != u1', 'billing_project = bp2', 'billing_project != bp', 'state = complete', 'team = y', 'state != running', 'tb', '"y"')
    Q_EXTRA.update(_extra_pairs(alphabet, '\n'))
    return singles + [f'{a}\n{b}' for a, b in _pairs(alphabet)] + [f'start_time >= {T0}\nend_time <= {T1}', f'end_time <= {T1}\nstart_time > {T0}\nuser = u2']


def _job(i):
    from vf import batchops as ops

    return ops.job_spec(i, abs_group=0)


def request_variants(method, path, cls, target):
    """[(label, path params, query, json body or None, form or None, tag)] -- minimal requests that pass the validators."""
    P = {'batch_id': str(target) if cls and cls.startswith('batch') else None, 'job_id': '1', 'job_group_id': '1', 'update_id': '2',
         'billing_project': target if cls in ('bp-admin', 'bp-read') else None, 'user': 'u2', 'container': 'main', 'filename': 'batch.js'}
    params = {k: P[k] for k in re.findall(r'{(\w+)}', path)}
    V = []

    def add(label, query=None, body=None, form=None, tag='', **over):
        V.append((label, {**params, **over}, query or {}, body, form, tag))

    if cls == 'batch-write':
        tok_open = f'tb{target}-u3'      # update 3: staged, uncommitted; its token is not shown by any endpoint
        if path.endswith('/updates/{update_id}/jobs/create'):
            add('job into open update 2', body=[_job(1)])
        elif path.endswith('/jobs/create'):
            add('job via deprecated route (update 1)', body=[_job(1)])
        elif path.endswith('/job-groups/create'):
            add('group into open update 2', body=[{'job_group_id': 1, 'absolute_parent_id': 0}])
        elif path.endswith('/updates/create'):
            add('new update, fresh token', body={'token': 'fresh-token', 'n_jobs': 1, 'n_job_groups': 0})
            add('new update, replaying the batch token (= token of update 1) that GET batch shows to the caller', tag='api-token',
                body={'token': API_TOKEN, 'n_jobs': 1, 'n_job_groups': 0})
        elif path.endswith('/update-fast'):
            add('update-fast, fresh token, one job', body={'update': {'token': 'fresh-token', 'n_jobs': 1, 'n_job_groups': 0}, 'bunch': [_job(1)], 'job_groups': []})
            add('update-fast, empty bunch, replaying the batch token (= token of update 1) that GET batch shows to the caller', tag='api-token',
                body={'update': {'token': API_TOKEN, 'n_jobs': 1, 'n_job_groups': 0}, 'bunch': [], 'job_groups': []})
            add('update-fast, empty bunch, replaying the token of open update 3 (known to its owner only)', tag='known-token',
                body={'update': {'token': tok_open, 'n_jobs': 1, 'n_job_groups': 0}, 'bunch': [], 'job_groups': []})
        elif path.endswith('/commit'):
            add('commit staged update 3', update_id='3')
        elif path.endswith('/close'):
            add('close')
        else:
            return None
    elif cls == 'batch-cancel-delete':
        if method == 'POST':
            add('form post', form={'q': ''})
        else:
            add('plain')
    elif cls == 'batch-read':
        add('plain')
        if path.endswith('/jobs') or path == '/batches/{batch_id}':
            add('recursive', query={'recursive': 'true'} if path.endswith('/jobs') else {'q': ''})
            # search queries (tag 'q'): v1 syntax on the v1alpha API, v2 syntax on v2alpha and on the UI page (CURRENT_QUERY_VERSION)
            v2 = 'v2alpha' in path or not path.startswith('/api/')
            for qs in (q_jobs_v2() if v2 else q_jobs_v1()):
                add(f'q={qs!r}', query={'q': qs}, tag='q+' if qs in Q_EXTRA else 'q')
                if path.endswith('/jobs') and any(t in qs for t in ('live', 'bad', 'done')) and ' ' not in qs.replace(' = ', '=').replace(' != ', '!=') and '\n' not in qs:
                    add(f'recursive, q={qs!r}', query={'q': qs, 'recursive': 'true'}, tag='q')
            # paging keys: before the first row, mid, the last row, beyond; alone and with a state filter
            for last in PAGE_KEYS:
                for qs in (None, 'state = done' if v2 else 'done', 'state = live' if v2 else 'live', 'name = j1' if v2 else 'name=j1'):
                    query = {'last_job_id': last, **({'q': qs} if qs is not None else {})}
                    add(f'page after job {last}, q={qs!r}', query=query, tag='q')
                    if path.endswith('/jobs') and qs in (None, 'done', 'state = done'):
                        add(f'recursive, page after job {last}, q={qs!r}', query={**query, 'recursive': 'true'}, tag='q')
        elif path.endswith('/jobs/resources'):
            for last in (None,) + PAGE_KEYS:
                for limit in (None, '1', '2', '10000', '0', '10001', 'x'):
                    if last is None and limit is None:
                        continue
                    query = {k: v for k, v in (('last_job_id', last), ('limit', limit)) if v is not None}
                    add(f'page {query}', query=query, tag='q')
        elif path.endswith('/job-groups'):
            for last in ('0', '1', '5'):
                add(f'page after group {last}', query={'last_job_group_id': last}, tag='q')
    elif cls == 'bp-admin':
        ui = not path.startswith('/api/')
        if path.endswith('/edit'):
            add('limit 5', **({'form': {'limit': '5'}} if ui else {'body': {'limit': 5}}))
        elif path.endswith('/remove'):
            add('remove u2')
        elif path.endswith('/users/add'):
            add('add u3', form={'user': 'u3'})
        elif path.endswith('/users/{user}/add'):
            add('add u3', user='u3')
        elif path == '/billing_projects/create':
            add('create newbp', form={'billing_project': 'newbp' if target == 'nope' else target})
        elif path.endswith('/create'):
            add('create', billing_project='newbp' if target == 'nope' else target)
        elif path.endswith(('/close', '/reopen', '/delete')):
            add(path.rsplit('/', 1)[1])
        else:
            return None
    elif cls == 'bp-read':
        add('plain')
    elif cls == 'list-batches':
        v2 = 'v2alpha' in path or not path.startswith('/api/')
        if path.endswith('/completed'):
            add('default')
            add('limit 1', query={'limit': '1'})
            for limit in (None, '1', '2', '100', 'x'):
                for ts in (None, '0', '15', '2000000', '99999999999999'):
                    if limit is not None or ts is not None:
                        query = {k: v for k, v in (('limit', limit), ('last_completed_timestamp', ts)) if v is not None}
                        add(f'page {query}', query=query, tag='q')
        else:
            add('default')
            add('all', query={'q': ''})
            add('other user', query={'q': 'user = u2' if v2 else 'user:u2'})
            add('foreign project', query={'q': 'billing_project = bp2' if v2 else 'billing_project:bp2'})
            for qs in (q_batches_v2() if v2 else q_batches_v1()):
                add(f'q={qs!r}', query={'q': qs}, tag='q+' if qs in Q_EXTRA else 'q')
            for last in ('0', '1', '3', '5', '8', '9', '100'):
                for qs in (None, '', 'user = u2' if v2 else 'user:u2', 'billing_project = bp2' if v2 else 'billing_project:bp2',
                           'state = complete' if v2 else 'complete'):
                    add(f'page before batch {last}, q={qs!r}', query={'last_batch_id': last, **({'q': qs} if qs is not None else {})}, tag='q')
    elif cls == 'list-billing':
        add('since 2024', query={'start': '01/01/2024'})
    elif cls in ('list-billing-projects', 'bp-admin-page', 'authenticated', 'public'):
        add('plain')
    elif cls == 'create-batch':
        for bp in ('bp', 'bp2', 'nope'):
            spec = {'billing_project': bp, 'n_jobs': 1, 'n_job_groups': 0, 'token': 'fresh-batch-token'}
            if path.endswith('create-fast'):
                add(f'in {bp}', body={'batch': spec, 'bunch': [_job(1)], 'job_groups': []})
            else:
                add(f'in {bp}', body=spec)
    else:
        return None
    return V


def targets_for(cls):
    if cls and cls.startswith('batch'):
        return BATCH_TARGETS
    if cls in ('bp-admin', 'bp-read'):
        return BP_TARGETS
    return (None,)


# ------------------------------------------------------------------------------------------------------
# oracle
# ------------------------------------------------------------------------------------------------------


def rights(truth, cls, caller, target):
    """(may, must): may = the statement permits the caller to be served; must = the caller is squarely inside the
    class and the target exists, so an authentication / authorisation refusal would be wrong."""
    tok, user, _ = CALLERS[caller]
    ud = USERDATA.get(user) if user else None
    authed = ud is not None and ud['state'] == 'active' and user not in truth.get('inactive', ()) and user not in truth.get('revoked', ())
    if cls == 'public':
        return True, True
    if not authed:
        return False, False
    admin = ud['is_developer'] == 1 or user == 'auth'
    if cls in ('authenticated', 'create-batch', 'list-batches', 'list-billing', 'list-billing-projects'):
        return True, True
    if cls in ('batch-read', 'batch-cancel-delete', 'batch-write'):
        b = truth['batches'].get(target)
        if b is None:
            return False, False
        member = user in truth['members'].get(b['bp'], ())
        ok = member if cls != 'batch-write' else (user == b['user'])
        return ok, ok and not b['deleted'] and b['first_update_committed']
    if cls == 'bp-read':
        ok = admin or user in truth['members'].get(target, ())
        return ok, ok and truth['bp_status'].get(target) in ('open', 'closed')
    if cls == 'bp-admin':
        return admin, False   # 'must' decided by the caller of rights(): depends on ui/api flavour
    if cls == 'bp-admin-page':
        return admin, ud['is_developer'] == 1
    raise AssertionError(cls)


def is_login_redirect(status, location):
    return status in (302, 303, 307) and location is not None and str(location).startswith(LOGIN_PREFIX)


DEFAULT_REASONS = {401: 'Unauthorized', 403: 'Forbidden', 404: 'Not Found'}


def _send(w, router, route, caller, params, query, body, form):
    """One request through dispatcher + middlewares + the registered handler.  -> (status, reason, location, response, exception name)"""
    from aiohttp import web

    from vf import batchops as ops
    from vf.minisql import lexer as _lx

    method, path = route.method, route.path
    concrete = path
    for k, v in params.items():
        concrete = concrete.replace('{' + k + '}', str(v))
    tok, user, how = CALLERS[caller]
    headers = {}
    if how == 'bearer' and tok is not None:
        headers['Authorization'] = f'Bearer {tok}'
    if how == 'cookie':
        headers['Cookie'] = '_csrf=csrf-1; session=opaque'
        headers['X-CSRF-Token'] = 'csrf-1'
    if form is not None:
        headers['Content-Type'] = 'application/x-www-form-urlencoded'
    req = ops.mkreq(w, method, concrete or '/', body=body, headers=headers, query=query or None)
    if form is not None:
        from urllib.parse import urlencode

        req._read_bytes = urlencode(form).encode()
    if how == 'cookie' and tok is not None:
        import aiohttp_session

        req[aiohttp_session.SESSION_KEY] = aiohttp_session.Session(data={'session_id': tok}, new=False)
    req.app.router = router

    async def go():
        from batch.utils import unavailable_if_frozen
        from gear import check_csrf_token

        mi = await router.resolve(req)
        if getattr(mi, 'http_exception', None) is not None:
            raise RuntimeError(f'C14 harness: {method} {concrete!r} does not resolve: {mi.http_exception}')
        if mi.handler is not route.handler and not (path == '' and mi.handler.__name__ == route.handler.__name__):
            raise RuntimeError(f'C14 harness: {method} {concrete!r} resolves to {mi.handler.__name__}, not {route.handler.__name__}')
        mi.add_app(req.app)
        req._match_info = mi

        async def inner(rq):
            return await mi.handler(rq)

        async def frozen(rq):
            return await unavailable_if_frozen(rq, inner)

        return await check_csrf_token(req, frozen)

    try:
        resp = w.run(go())
        return resp.status, None, resp.headers.get('Location'), resp, None, concrete
    except web.HTTPException as e:
        return e.status, e.reason, e.headers.get('Location'), None, None, concrete
    except Exception as e:  # noqa: BLE001
        if _lx.GAPS or type(e).__name__ in ('ShimGap', 'SqlUnsupported') or 'harness' in str(e):
            raise
        return None, f'{type(e).__name__}: {e}'[:200], None, None, type(e).__name__, concrete


def _subst(x, token):
    if isinstance(x, dict):
        return {k: _subst(v, token) for k, v in x.items()}
    if isinstance(x, list):
        return [_subst(v, token) for v in x]
    return token if x == API_TOKEN else x


def run_case(case):
    """case = (route index, caller, target, variant index) from the seeded state.  Returns a json-able row."""
    ctx = world()
    fresh(ctx)
    return judge(ctx, case, ctx[3])


def judge(ctx, case, truth, fresh_session_cache=True):
    """Send one request in the CURRENT state of the world and judge the answer against `truth`."""
    ridx, caller, target, vidx = case
    w, base, files0, _, router, fe = ctx
    routes = list(fe.routes)
    r = routes[ridx]
    method, path = r.method, r.path
    cls = classify(method, path)
    variants = request_variants(method, path, cls, target)
    label, params, query, body, form, tag = variants[vidx]
    tok, user, how = CALLERS[caller]

    if fresh_session_cache:
        type(fe.auth).__init__(fe.auth)   # fresh session cache, real constructor
    w.client_session.calls.clear()
    dump0 = w.mdb.store.dump()
    files_before = dict(w.file_store.files)
    out = {'case': list(case), 'route': f'{method} {path}', 'class': cls, 'caller': caller, 'target': target, 'variant': label, 'tag': tag}

    if tag == 'api-token':
        # the caller first asks the API for the batch; only a token the API itself hands out is replayed
        shown = None
        get_batch = [x for x in routes if getattr(x, 'method', None) == 'GET' and getattr(x, 'path', None) == '/api/v1alpha/batches/{batch_id}']
        if get_batch:
            st, _, _, rsp, _, _ = _send(w, router, get_batch[0], caller, {'batch_id': str(target)}, None, None, None)
            if st == 200 and rsp is not None:
                shown = json.loads(rsp.body.decode()).get('token')
        out['token_shown_by_api'] = shown is not None
        body = _subst(body, shown if shown is not None else 'token-not-shown-to-caller')
        w.client_session.calls.clear()
        if fresh_session_cache:
            type(fe.auth).__init__(fe.auth)

    status, reason, location, resp, exc_name, concrete = _send(w, router, r, caller, params, query, body, form)
    if exc_name is not None:
        out['exception'] = reason
        reason = None
    dump1 = w.mdb.store.dump()
    changed = dump1 != dump0
    outbound = [c for c in w.client_session.calls if not c[1].endswith('/api/v1alpha/userinfo')]
    files_changed = dict(w.file_store.files) != files_before

    login = is_login_redirect(status, location)
    # "every other caller gets an error": any 4xx / 5xx answer (a handler that raises is a 500) or the login redirect
    refused = login or exc_name is not None or (status is not None and status >= 400)
    out['refusal'] = 'login-redirect' if login else ('401/403/404' if status in (401, 403, 404) else 'other-error' if refused else None)
    auth_refusal = status == 401 or login or (status in (403, 404) and (reason is None or reason == DEFAULT_REASONS[status])) \
        or (status == 403 and reason and 'inactive' in str(reason).lower())
    out.update(status=status if exc_name is None else f'exception:{exc_name}', login_redirect=login, changed=changed,
               outbound=len(outbound), reason=reason)

    may, must = rights(truth, cls, caller, target)
    if cls == 'bp-admin' and may:
        must = USERDATA[user]['is_developer'] == 1 or path.startswith('/api/')
    out['may'], out['must'] = may, must
    viol = []
    who = f'{caller} -> {method} {concrete or "/"} [{label}]'
    out['who'] = who
    if not may:
        if not refused:
            viol.append((f'served-outside-class:{cls}:{method} {path}',
                         f'{who}: caller is outside the class "{cls}" for this target but the answer was {out["status"]}'
                         + (f' (redirect to {location})' if location else '')))
        if changed or files_changed or outbound:
            diff = _diff(dump0, dump1)
            viol.append((f'state-changed-by-outsider:{cls}:{method} {path}',
                         f'{who}: caller is outside the class "{cls}" (answer {out["status"]}) but something changed: tables {diff}'
                         f'{", outbound calls " + str(outbound) if outbound else ""}'))
    elif must and exc_name is None and auth_refusal:
        viol.append((f'insider-refused:{cls}:{method} {path}',
                     f'{who}: caller is inside the class "{cls}" for this target but was refused with {status} {reason or ""}'))
    # content oracles ---------------------------------------------------------------------------------
    if resp is not None and status == 200 and user is not None:
        viol += content_check(truth, cls, path, caller, target, resp, who, url_params=params,
                              recursive=(query or {}).get('recursive') == 'true' or not path.startswith('/api/'))
        out['listed'] = getattr(resp, '_c14_listed', None)
    out['viol'] = viol
    return out


# ------------------------------------------------------------------------------------------------------
# histories:  [request r1 by caller c] ; [membership / ownership / account change through the real handlers] ; [request r2 by c]
# on ONE front-end process (module state, app mapping and session cache persist across the steps), r2 judged against the
# truth AFTER the change.
# ------------------------------------------------------------------------------------------------------
USER_CALLER = {'u1': 'u1', 'u2': 'u2', 'u3': 'nonmember'}
SESSION_CACHE_MS = 11_000   # gear.auth caches /userinfo answers for 10 s; account changes are judged once that has passed

# (operation, caller whose rights are probed, target batch)
HISTORY_COMBOS = [
    (('remove-user', 'bp', 'u1'), 'u1', 2), (('remove-user', 'bp', 'u1'), 'u1', 5),
    (('remove-user', 'bp', 'u2'), 'u2', 2), (('remove-user', 'bp', 'u2'), 'u2', 5),
    (('remove-user', 'bp2', 'u2'), 'u2', 3),
    (('add-user', 'bp', 'u3'), 'nonmember', 2), (('add-user', 'bp', 'u3'), 'nonmember', 5),
    (('add-user', 'bp2', 'u1'), 'u1', 3),
    (('close-project', 'bp2'), 'u2', 3), (('close-project', 'bp2'), 'u1', 3),
    (('reopen-project', 'bpc'), 'u1', 2),
    (('delete-batch', 2, 'u1'), 'u1', 2), (('delete-batch', 2, 'u1'), 'u2', 2),
    (('delete-batch', 5, 'u2'), 'u1', 5), (('delete-batch', 5, 'u2'), 'u2', 5),
    (('deactivate-user', 'u1'), 'u1', 2), (('deactivate-user', 'u1'), 'u1', 5), (('deactivate-user', 'u2'), 'u2', 3),
    (('revoke-session', 'u1'), 'u1', 2),
    # controls: a change that concerns somebody else leaves the caller's rights alone
    (('remove-user', 'bp', 'u2'), 'u1', 5), (('remove-user', 'bp', 'u1'), 'u2', 2),
]
PROBES = [('GET', '/api/v1alpha/batches/{batch_id}'), ('PATCH', '/api/v1alpha/batches/{batch_id}/cancel'),
          ('DELETE', '/api/v1alpha/batches/{batch_id}'), ('GET', '/api/v1alpha/batches/{batch_id}/jobs/{job_id}/log'),
          ('PATCH', '/api/v1alpha/batches/{batch_id}/updates/{update_id}/commit')]


def _route_index(fe, method, path):
    for i, r in enumerate(fe.routes):
        if getattr(r, 'method', None) == method and getattr(r, 'path', None) == path:
            return i
    return None


def apply_admin_op(ctx, op):
    """Perform the change through the real routes (developer / auth / owner as the acting caller).  -> status of that request"""
    w, base, files0, _, router, fe = ctx
    routes = list(fe.routes)
    kind = op[0]

    def call(method, path, actor, params):
        i = _route_index(fe, method, path)
        if i is None:
            return 'route-missing'
        st, reason, _, _, exc, _ = _send(w, router, routes[i], actor, params, None, None, None)
        return st if exc is None else f'exception:{exc}'

    if kind == 'remove-user':
        return call('POST', '/api/v1alpha/billing_projects/{billing_project}/users/{user}/remove', 'developer', {'billing_project': op[1], 'user': op[2]})
    if kind == 'add-user':
        return call('POST', '/api/v1alpha/billing_projects/{billing_project}/users/{user}/add', 'auth', {'billing_project': op[1], 'user': op[2]})
    if kind == 'close-project':
        return call('POST', '/api/v1alpha/billing_projects/{billing_project}/close', 'developer', {'billing_project': op[1]})
    if kind == 'reopen-project':
        return call('POST', '/api/v1alpha/billing_projects/{billing_project}/reopen', 'developer', {'billing_project': op[1]})
    if kind == 'delete-batch':
        return call('DELETE', '/api/v1alpha/batches/{batch_id}', USER_CALLER[op[2]], {'batch_id': str(op[1])})
    if kind == 'deactivate-user':      # the auth service deactivates the account; the 10 s session cache of gear.auth runs out
        w.c14_auth['inactive'].add(op[1])
        w.now_ms += SESSION_CACHE_MS
        return 200
    if kind == 'revoke-session':       # logout / session deleted at the auth service
        w.c14_auth['revoked'].add(op[1])
        w.now_ms += SESSION_CACHE_MS
        return 200
    raise AssertionError(op)


def batch_scoped_requests(fe, target):
    """[(route index, variant index)] of every batch-scoped route for this target."""
    out = []
    for i, r in enumerate(fe.routes):
        m, p = getattr(r, 'method', None), getattr(r, 'path', None)
        cls = classify(m, p) if m else None
        if cls in ('batch-read', 'batch-cancel-delete', 'batch-write'):
            for v, var in enumerate(request_variants(m, p, cls, target) or ()):
                if var[5] not in ('q', 'q+'):
                    out.append((i, v))
    return out


def all_histories(tier):
    """(op, caller, target, r1 or None, r2): 2-step histories first, then 3-step ones."""
    from batch.front_end import front_end as fe

    two, three = [], []
    probes = [(i, 0) for i in (_route_index(fe, m, p) for m, p in PROBES) if i is not None]
    for op, caller, target in HISTORY_COMBOS:
        reqs = batch_scoped_requests(fe, target)
        for r2 in reqs:
            two.append((op, caller, target, None, r2))
        for r1 in reqs:
            seconds = reqs if tier != 'quick' else [r1] + [p for p in probes if p != r1]
            for r2 in seconds:
                three.append((op, caller, target, r1, r2))
    return two + three


def run_history(h):
    op, caller, target, r1, r2 = h
    ctx = world()
    w = ctx[0]
    fresh(ctx)
    fe = ctx[5]
    type(fe.auth).__init__(fe.auth)
    row1 = None
    if r1 is not None:
        row1 = judge(ctx, (r1[0], caller, target, r1[1]), ctx[3], fresh_session_cache=False)
    before = truth_from_tables(w)
    op_status = apply_admin_op(ctx, tuple(op))
    after = truth_from_tables(w)
    row = judge(ctx, (r2[0], caller, target, r2[1]), after, fresh_session_cache=False)
    cls = row['class']
    kind = op[0]
    steps = ([f'{row1["who"]} => {row1["status"]}'] if row1 else []) + [f'{" ".join(map(str, op))} => {op_status}', f'{row["who"]} => {row["status"]}']
    row['history'] = [list(op) if isinstance(op, tuple) else op, caller, target, list(r1) if r1 else None, list(r2)]
    row['steps'] = steps
    row['op_status'] = op_status
    row['r1_status'] = row1['status'] if row1 else None
    row['rights_before'] = list(rights(before, cls, caller, target))
    row['rights_changed'] = rights(before, cls, caller, target) != rights(after, cls, caller, target)
    row['viol'] = [(f'after {kind}: {sig}', 'history ' + ' ; '.join(steps) + ' -- ' + msg.split(': ', 1)[1]) for sig, msg in row['viol']]
    return row


def _diff(d0, d1):
    return sorted(t for t in set(d0) | set(d1) if d0.get(t) != d1.get(t))


def _payload(resp):
    ctx = getattr(resp, 'vf_context', None)
    if ctx is not None:
        return 'ctx', ctx
    body = resp.body
    if body is None:
        return 'none', None
    if isinstance(body, (bytes, bytearray)):
        try:
            return 'json', json.loads(body.decode())
        except (ValueError, UnicodeDecodeError):
            return 'raw', bytes(body)
    return 'raw', body


def content_check(truth, cls, path, caller, target, resp, who, url_params=None, recursive=False):
    """Everything a response shows must be something the caller may read."""
    tok, user, _ = CALLERS[caller]
    ud = USERDATA[user]
    admin = ud['is_developer'] == 1 or user == 'auth'
    kind, data = _payload(resp)
    viol = []
    listed = []

    def readable_batch(bid):
        b = truth['batches'].get(bid)
        return b is not None and not b['deleted'] and user in truth['members'].get(b['bp'], ())

    def readable_bp(bp):
        return admin or user in truth['members'].get(bp, ())

    if cls == 'list-batches' and isinstance(data, dict):
        for b in data.get('batches', []):
            listed.append(b['id'])
            if not readable_batch(b['id']):
                viol.append((f'listing-leaks-batch:{path}', f'{who}: response lists batch {b["id"]} '
                             f'({truth["batches"].get(b["id"])}) which {user} may not read'))
    elif cls == 'list-billing-projects':
        rows = data if isinstance(data, list) else (list(data.get('open_billing_projects', [])) + list(data.get('closed_billing_projects', [])))
        for p in rows:
            listed.append(p['billing_project'])
            if not readable_bp(p['billing_project']):
                viol.append((f'listing-leaks-billing-project:{path}', f'{who}: response lists billing project {p["billing_project"]} '
                             f'of which {user} is not a member'))
    elif cls == 'bp-admin-page' and isinstance(data, dict):
        listed = [p['billing_project'] for p in list(data.get('billing_projects', [])) + list(data.get('closed_projects', []))]
    elif cls == 'list-billing' and isinstance(data, dict):
        for rec in data.get('billing_by_project_user', []):
            listed.append((rec['billing_project'], rec['user']))
            if not (readable_bp(rec['billing_project']) and (admin or rec['user'] == user)):
                viol.append((f'listing-leaks-billing:{path}', f'{who}: response shows spending of {rec["user"]} in {rec["billing_project"]}'))
    elif cls == 'bp-read' and isinstance(data, dict):
        listed = [data.get('billing_project')]
        if not readable_bp(data.get('billing_project')):
            viol.append((f'listing-leaks-billing-project:{path}', f'{who}: response shows billing project {data.get("billing_project")}'))
    elif cls == 'batch-read' and isinstance(data, dict):
        # whatever a batch-scoped read returns must belong to the batch (and the job group) named in the URL
        ids = set()
        page_batch = data.get('batch') if isinstance(data.get('batch'), dict) else {}
        jobs = [j for src in (data.get('jobs'), page_batch.get('jobs')) if isinstance(src, list) for j in src if isinstance(j, dict)]
        groups = [g for g in (data.get('job_groups') if isinstance(data.get('job_groups'), list) else []) if isinstance(g, dict)]
        for j in jobs + groups:
            if 'batch_id' in j:
                ids.add(j['batch_id'])
        if 'id' in page_batch:
            ids.add(page_batch['id'])
        if 'batch_id' in data:
            ids.add(data['batch_id'])
        if 'id' in data and path.endswith('/batches/{batch_id}'):
            ids.add(data['id'])
        listed = sorted(ids)
        for bid in ids:
            if bid != target:
                b = truth['batches'].get(bid)
                what = 'which the caller may not read at all' if not readable_batch(bid) else 'which is not the batch in the URL'
                viol.append((f'read-returns-other-batch:{path}', f'{who}: response contains rows of batch {bid} ({b}) {what}'))
        m = re.search(r'/job-groups/{job_group_id}/(jobs|job-groups)$', path)
        url_group = int(url_params['job_group_id']) if m and url_params and 'job_group_id' in url_params else (0 if path.endswith(('/jobs', '/job-groups')) else None)
        if url_group is not None and path.endswith('/jobs'):
            for j in jobs:
                if j.get('batch_id') != target:
                    continue
                g = truth['job_group_of'].get((j['batch_id'], j['job_id']))
                anc = truth['group_ancestors'].get((target, g), {})
                ok = (g == url_group) if not recursive else (url_group in anc)
                if not ok:
                    viol.append((f'read-returns-other-group:{path}', f'{who}: job {j["job_id"]} of group {g} listed under group {url_group} '
                                 f'(recursive={recursive})'))
        if url_group is not None and path.endswith('/job-groups'):
            for g in groups:
                if g.get('batch_id') == target and truth['group_ancestors'].get((target, g['job_group_id']), {}).get(url_group) != 1:
                    viol.append((f'read-returns-other-group:{path}', f'{who}: job group {g["job_group_id"]} is not a child of group {url_group}'))
    try:
        resp._c14_listed = listed
    except AttributeError:
        pass
    return viol


# ------------------------------------------------------------------------------------------------------
# driver
# ------------------------------------------------------------------------------------------------------


def callers_for(tier):
    return list(QUICK_CALLERS) if tier == 'quick' else list(CALLER_ORDER)


def all_cases(tier='quick'):
    """(cases, unclassified routes, routes without a request table) -- smallest first: route order, then caller, target."""
    cases, unclassified, norequest = [], [], []
    callers = callers_for(tier)
    for i, method, path, name, cls in route_table():
        if cls is None:
            unclassified.append((method, path, name))
            continue
        if method == 'STATIC':
            continue
        for target in targets_for(cls):
            vs = request_variants(method, path, cls, target)
            if not vs:
                norequest.append((method, path, name))
                break
            for caller in callers:
                for v in range(len(vs)):
                    if tier == 'quick' and (vs[v][5] == 'q+' or (vs[v][5] == 'q' and target not in Q_TARGETS_QUICK.get(caller, ()))):
                        continue
                    cases.append((i, caller, target, v))
    return cases, unclassified, norequest


def _count(it):
    out = {}
    for x in it:
        out[str(x)] = out.get(str(x), 0) + 1
    return dict(sorted(out.items()))


def _run_chunk(chunk):
    rows = [run_case(x[1]) if x[0] == 'case' else run_history(x[1]) for x in chunk]
    ms = world()[0].c14_modstate
    return rows, list(ms.unknown), ms.drift(), len(ms.saved)


def _hkey(h):
    return json.dumps(h, sort_keys=True, default=list)


def check(tier, seed, procs):
    from vf import boot  # noqa: F401

    cases, unclassified, norequest = all_cases(tier)
    histories = all_histories(tier)
    items = [('case', c) for c in cases] + [('hist', h) for h in histories]
    ordered = par.rotate(items, seed)
    n = max(1, min(len(ordered), procs * 6))
    chunks = [ordered[i::n] for i in range(n)]
    results = par.pmap(_run_chunk, chunks, procs, chunksize=1)
    all_rows = [r for c in results for r in c[0]]
    unresettable = sorted({u for c in results for u in c[1]})
    drift = sorted({u for c in results for u in c[2]})
    n_registered = max(c[3] for c in results)
    rows = [r for r in all_rows if 'history' not in r]
    hrows = [r for r in all_rows if 'history' in r]
    rows.sort(key=lambda r: (r['case'][0], CALLER_ORDER.index(r['caller']), str(r['target']), r['case'][3]))
    hrows.sort(key=lambda r: (r['history'][3] is not None, HISTORY_COMBOS.index((tuple(r['history'][0]), r['history'][1], r['history'][2])),
                              r['history'][3] or [], r['history'][4]))

    violations = []
    seen = set()
    for method, path, name in unclassified:
        violations.append({'signature': f'unclassified-route:{method} {path}',
                           'message': f'route {method} {path} ({name}) fits no access class of the property statement; its access control is unchecked',
                           'replay': {'unclassified': [method, path]}})
    for method, path, name in norequest:
        violations.append({'signature': f'no-request-for-route:{method} {path}',
                           'message': f'route {method} {path} ({name}) is in a known class but the harness has no request for it; its access control is unchecked',
                           'replay': {'unclassified': [method, path]}})
    # one example per signature: prefer a token the API itself handed to the caller, then a visible state change, then the smallest case
    pref = sorted(range(len(rows)), key=lambda i: (0 if rows[i]['tag'] != 'known-token' else 1, 0 if rows[i]['changed'] else 1, i))
    n_by_sig = {}
    for r in rows:
        for sig, _ in r['viol']:
            n_by_sig[sig] = n_by_sig.get(sig, 0) + 1
    for i in pref:
        r = rows[i]
        for sig, msg in r['viol']:
            if sig in seen:
                continue
            seen.add(sig)
            violations.append({'signature': sig, 'message': msg + f'  [{n_by_sig[sig]} case(s) with this signature]',
                               'replay': {'case': r['case'], 'route': r['route']}})
    # histories: shortest first
    hseen, n_by_hsig = set(), {}
    for r in hrows:
        for sig, _ in r['viol']:
            n_by_hsig[sig] = n_by_hsig.get(sig, 0) + 1
    for r in hrows:
        for sig, msg in r['viol']:
            if sig in hseen:
                continue
            hseen.add(sig)
            violations.append({'signature': sig, 'message': msg + f'  [{n_by_hsig[sig]} histories with this signature]',
                               'replay': {'history': r['history'], 'steps': r['steps']}})
    violations.sort(key=lambda v: v['signature'])

    table = route_table()
    by_class, by_verdict, by_status = {}, {}, {}
    for r in rows:
        by_class[r['class']] = by_class.get(r['class'], 0) + 1
        verdict = 'outside: refused, state unchanged' if not r['may'] and not r['viol'] else \
            'inside: served or business answer' if r['may'] and not r['viol'] else 'violation'
        by_verdict[verdict] = by_verdict.get(verdict, 0) + 1
        by_status[str(r['status'])] = by_status.get(str(r['status']), 0) + 1
    exceptions = sorted({(r['route'], r['status']) for r in all_rows if str(r['status']).startswith('exception')})
    unknown_exc = [e for e in exceptions if e not in KNOWN_EXCEPTIONS]
    if unknown_exc and not violations:
        raise RuntimeError(f'C14 harness: handler raised unexpected non-HTTP exceptions (harness gap?): {unknown_exc}')
    if (unresettable or drift) and not violations:
        raise RuntimeError('C14 harness: mutable state of the service process that the harness can neither prove immutable nor put back '
                           f'between histories (histories are not isolated from each other): module globals of unknown kind {unresettable}; '
                           f'globals / class attributes created while serving requests {drift}')
    served_insiders = sum(1 for r in rows if r['must'] and (r['status'] == 200 or r['status'] in (302, 303) and not r['login_redirect']))
    changed_insiders = sum(1 for r in rows if r['may'] and r['changed'])
    nontrivial = {(r['route'], r['caller'], str(r['target']), r['variant']) for r in rows
                  if r['class'] != 'public' and (not r['may'] or r['must'])}
    samples = [{k: r[k] for k in ('route', 'caller', 'target', 'variant', 'status', 'may', 'changed')} for r in rows[:1]]
    for pred in (lambda r: not r['may'] and r['class'] == 'batch-write' and r['caller'] == 'u2' and r['target'] == 2,
                 lambda r: r['must'] and r['class'] == 'batch-cancel-delete' and r['changed'],
                 lambda r: r['class'] == 'list-batches' and r.get('listed')):
        for r in rows:
            if pred(r):
                samples.append({k: r.get(k) for k in ('route', 'caller', 'target', 'variant', 'status', 'may', 'changed', 'listed')})
                break
    h_changed = [r for r in hrows if r['rights_changed']]
    h3_served_then_outside = sum(1 for r in hrows if r['history'][3] is not None and r['rights_before'][0] and not r['may']
                                 and r['r1_status'] in (200, 302))
    h_gained_served = sum(1 for r in hrows if not r['rights_before'][0] and r['must'] and r['status'] in (200, 302))
    hist_cov = {
        'histories': len(hrows),
        'two_step': sum(1 for r in hrows if r['history'][3] is None),
        'three_step': sum(1 for r in hrows if r['history'][3] is not None),
        'combos (operation, caller, batch)': [f'{" ".join(map(str, op))} / {c} / batch {b}' for op, c, b in HISTORY_COMBOS],
        'second_requests': 'quick: r2 in {r1} + probes ' + str([f'{m} {p}' for m, p in PROBES]) + ' (all batch-scoped requests when there is no r1); '
                           'thorough: every batch-scoped request after every batch-scoped request',
        'operations_by_answer': _count(f'{r["history"][0][0]} -> {r["op_status"]}' for r in hrows),
        'histories_where_the_operation_changed_the_callers_rights': len(h_changed),
        'served_before_then_outside_after (r1 served, r2 must be refused)': h3_served_then_outside,
        'outside_before_then_inside_after_and_served': h_gained_served,
        'verdicts': _count(('violation' if r['viol'] else 'outside-refused' if not r['may'] else 'inside-ok') for r in hrows),
        'violating_histories_by_length': _count(('3-step' if r['history'][3] is not None else '2-step') for r in hrows if r['viol']),
        'service_state_objects_snapshotted_and_restored_per_history': n_registered,
        'unresettable_module_globals': unresettable,
        'module_globals_created_while_serving': drift,
    }
    nontrivial |= {('history', _hkey(r['history'])) for r in hrows if not r['may'] or r['must']}
    for r in hrows:
        if r['history'][3] is not None and r['rights_before'][0] and not r['may'] and r['r1_status'] == 200:
            samples.append({'history': r['steps'], 'may_after': r['may'], 'changed_by_r2': r['changed']})
            break
    cov = {
        'evaluations': len(rows) + len(hrows),
        'single_request_cases': len(rows),
        'history_phase': hist_cov,
        'distinct_nontrivial': len(nontrivial),
        'rule': 'one evaluation = (registered route, caller, target batch / billing project, request variant) sent through the real decorator '
                'stack from the seeded state, or one history [request by c]; [membership / ownership / account change through the real '
                'routes]; [request by c] on one service process judged against the truth after the change; non-trivial = a non-public route where the caller is either outside the class (must be refused, state unchanged) or '
                'squarely inside it on an existing target (must not be refused for authentication / authorisation)',
        'samples': samples,
        'exhaustive': True,
        'bounds': f'{len(table)} routes x {len(callers_for(tier))} callers {callers_for(tier)} x targets (batches {list(BATCH_TARGETS)}: u1/bp, u2/bp2, '
                  f'u1/bp deleted, u2/bp, inactive-user/bp, u1/bp with update 1 staged but uncommitted, nonexistent; billing projects {list(BP_TARGETS)}) '
                  'x 1-4 request variants per route + the search-query tables on the listing routes (v1 jobs '
                  f'{len(q_jobs_v1())}, v2 jobs {len(q_jobs_v2())}, v1 batches {len(q_batches_v1())}, v2 batches {len(q_batches_v2())} queries; '
                  f'{"callers/targets " + str(Q_TARGETS_QUICK) if tier == "quick" else "every caller and target"}); '
                  'the thorough tier adds the browser-session flavour of every caller.  History phase: '
                  f'{len(HISTORY_COMBOS)} (operation, caller, batch) combinations x (no r1 | every batch-scoped request as r1) x '
                  f'({"r1 itself + 5 probe requests" if tier == "quick" else "every batch-scoped request"} as r2)',
        'routes_enumerated': [f'{m} {p} -> {c}' for _, m, p, _, c in table],
        'n_routes': len(table),
        'cases_per_class': dict(sorted(by_class.items())),
        'cases_per_verdict': dict(sorted(by_verdict.items())),
        'cases_per_status': dict(sorted(by_status.items())),
        'insiders_served_2xx_or_app_redirect': served_insiders,
        'insider_requests_that_changed_the_store': changed_insiders,
        'non_http_exceptions': [list(e) for e in exceptions],
        'outsider_refusals_by_kind': _count(r['refusal'] for r in rows if not r['may']),
        'verdicts_per_class': {c: _count(('violation' if r['viol'] else 'outside-refused' if not r['may'] else 'inside-ok')
                                         for r in rows if r['class'] == c) for c in sorted(by_class)},
        'replayed_token_cases_where_the_api_showed_the_token': sum(1 for r in rows if r.get('token_shown_by_api')),
        'search_query_cases': sum(1 for r in rows if r['tag'] in ('q', 'q+')),
        'search_query_cases_by_answer': _count(r['status'] for r in rows if r['tag'] in ('q', 'q+')),
        'search_query_cases_that_listed_rows': sum(1 for r in rows if r['tag'] in ('q', 'q+') and r.get('listed')),
    }
    vac = None
    if len(table) < 40 or served_insiders < 100 or changed_insiders < 20 or by_verdict.get('outside: refused, state unchanged', 0) < 500:
        vac = f'too little exercised: routes={len(table)} served_insiders={served_insiders} changed={changed_insiders} verdicts={by_verdict}'
    elif h3_served_then_outside < 200 or h_gained_served < 20:
        vac = f'history phase too thin: served-then-outside={h3_served_then_outside} gained-and-served={h_gained_served}'
    return {'coverage': cov, 'violations': violations, 'assumptions': ASSUME, 'vacuous': vac}


# non-HTTP exceptions of handlers seen (and understood) on the unchanged tree; neither is an access decision:
#  * GET batches/completed does records[-1] on an empty result (caller with no completed batch in reach) -> IndexError
#  * (owner only) see the third entry
#  * PATCH batches/{id}/close selects `NOT deleted` from job_groups, which has no such column -> MySQL error 1054 for every caller
KNOWN_EXCEPTIONS = {
    ('GET /api/v1alpha/batches/completed', 'exception:IndexError'),
    ('PATCH /api/v1alpha/batches/{batch_id}/close', 'exception:OperationalError'),
    # the owner sends update-fast with n_jobs = 1 and an empty bunch under a token that names no update of batch 7:
    # commit_batch_update answers rc = 1 (wrong number of jobs), _commit_update only translates rc == 2 -> CallError
    ('POST /api/v1alpha/batches/{batch_id}/update-fast', 'exception:CallError'),
}

ASSUME = [
    'SQL is executed by the minisql interpreter on the schema / routines parsed from the working tree',
    'the auth service is a fake answering /api/v1alpha/userinfo with the userdata of 6 known bearer tokens and 401 otherwise '
    '(and /api/v1alpha/users/<name> for add-user); everything else in gear.auth and front_end runs for real',
    'requests are dispatched through the real aiohttp UrlDispatcher built from front_end.routes, then check_csrf_token and '
    'unavailable_if_frozen (the middlewares of run()), then the registered handler with its full decorator stack; credentials are bearer headers',
    'templates are rendered by the aiohttp_jinja2 stand-in (the page context is kept and inspected); plot_job_durations / plot_resource_usage '
    '(plotly, pandas) are replaced by no-ops; the file store always has a log / JVM profile and never a resource-usage frame',
    'an authorisation refusal of an insider is recognised as 401, a redirect to the login page, or a 403/404 without a specific reason; '
    '4xx answers carrying a business reason are not refusals',
    'replayed idempotency tokens: the "api-token" variants replay only what GET /api/v1alpha/batches/{id} returned to the same caller a moment '
    'before (the batch token, which create / create-fast also use as the token of update 1); the "known-token" variant assumes the caller '
    'knows the token of another open update (never shown by the API) -- examples of the first kind are preferred when reporting',
    'minisql resolves column names lazily: the broken `NOT deleted` in close_batch (no such column in job_groups) raises 1054 only when the '
    'preceding `user = %s` conjunct holds, MySQL would raise it for every caller; either way a non-owner is refused (404 here, 500 there)',
    'non-HTTP exceptions raised by a handler count as an error answer (aiohttp turns them into 500)',
    'the job states of the bait batches 1 and 8 are written directly into jobs.state (one job per state incl. Creating / Pending); it is never a request '
    'target, only something a leaking listing would show',
    'history phase: one World = one front-end process; module-level state is restored between histories from a snapshot taken after seeding '
    '(dict / list / set / deque containers, instance __dict__ of batch / gear / web_common / hailtop / sortedcontainers objects, lru caches, '
    'closure cells, function attributes, class attributes, the app mapping); prometheus metrics, asyncio / aiohttp objects are taken as benign',
    'history phase: there is no route in the batch service that deactivates an account; deactivation / logout happen at the (fake) auth service and '
    'r2 is sent 11 s later, i.e. the 10 s userinfo cache of gear.auth is accepted as designed',
    'history phase: a member of a closed billing project still belongs to it (close / reopen must not change rights); an owner removed from the '
    'billing project may still add to / commit the batch (owner filter) but no longer read / cancel / delete it (membership), as the statement says',
]


def replay(obj):
    if 'unclassified' in obj:
        m, p = obj['unclassified']
        cls = classify(m, p)
        present = any(m == mm and p == pp for _, mm, pp, _, _ in route_table())
        bad = present and (cls is None or not request_variants(m, p, cls, targets_for(cls)[0]))
        return (not bad), (f'route {m} {p} is registered and unchecked' if bad else 'route absent or classified')
    if 'history' in obj:
        op, caller, target, r1, r2 = obj['history']
        r = run_history((tuple(op), caller, target, tuple(r1) if r1 else None, tuple(r2)))
        return (not r['viol']), ('; '.join(m for _, m in r['viol']) or f'no violation: {" ; ".join(r["steps"])}')
    r = run_case(tuple(obj['case']))
    return (not r['viol']), ('; '.join(m for _, m in r['viol']) or f'no violation ({r["status"]})')
