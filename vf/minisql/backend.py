"""Adapter: a minisql Database as the synchronous backend of the aiomysql shim."""
from .engine import Database, Session


class BackendConn:
    def __init__(self, backend):
        self.backend = backend
        self.session: Session = backend.db.session()
        self.closed = False

    def execute(self, sql, args=None):
        self.backend.n_statements += 1
        hook = self.backend.fault_hook
        if hook is not None:
            hook('execute', sql, args)
        log = self.backend.log
        if log is not None:
            log.append((sql, args))
        return self.session.execute(sql, args)

    def execute_bulk_insert(self, prefix, values, postfix, args_list):
        self.backend.n_statements += 1
        hook = self.backend.fault_hook
        if hook is not None:
            hook('execute', prefix, None)
        return self.session.execute_bulk_insert(prefix, values, postfix, args_list)

    def commit(self):
        hook = self.backend.fault_hook
        if hook is not None:
            hook('commit', None, None)
        self.session.commit()

    def rollback(self):
        self.session.rollback()

    def rollback_if_open(self):
        if self.session.in_tx:
            self.session.rollback()

    def close(self):
        self.closed = True


class MiniSqlBackend:
    def __init__(self, db: Database):
        self.db = db
        self.n_statements = 0
        self.fault_hook = None
        self.abefore = None   # async hook(sql, args) awaited by the driver shim before each statement
        self.log = None

    def connect(self):
        hook = self.fault_hook
        if hook is not None:
            hook('connect', None, None)
        return BackendConn(self)
