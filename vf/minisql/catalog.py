"""What is deployed: tables and routines of the batch database, from the working tree.

Routines (procedures, functions, triggers): for each name, the LAST `CREATE` (or `DROP`) in the
migration order listed under the `batch_database` step of build.yaml.  Tables: the CREATE TABLEs
of batch/sql/estimated-current.sql, overlaid idempotently with column additions of later
migrations (estimated-current.sql is documentation and lags behind).
"""
import re
from pathlib import Path

import yaml

ROUTINE_RE = re.compile(r'\b(CREATE|DROP)\s+(PROCEDURE|FUNCTION|TRIGGER)\s+(IF\s+EXISTS\s+)?`?(\w+)`?', re.I)


def split_script(text):
    """Split a mysql-client script into statements, honouring DELIMITER, quotes and comments."""
    stmts = []
    delim = ';'
    buf = []
    i = 0
    n = len(text)
    line_start = True
    while i < n:
        if line_start:
            m = re.match(r'[ \t]*DELIMITER[ \t]+(\S+)[ \t]*(\r?\n|$)', text[i:], re.I)
            if m:
                s = ''.join(buf).strip()
                if s:
                    stmts.append(s)
                buf = []
                delim = m.group(1)
                i += m.end()
                continue
        c = text[i]
        line_start = c == '\n'
        if c in ('"', "'", '`'):
            j = i + 1
            while j < n:
                if text[j] == '\\' and c != '`':
                    j += 2
                    continue
                if text[j] == c:
                    if j + 1 < n and text[j + 1] == c:
                        j += 2
                        continue
                    break
                j += 1
            buf.append(text[i : j + 1])
            i = j + 1
            continue
        if c == '#' or (c == '-' and text[i : i + 3] in ('-- ', '--\n', '--\t')):
            j = text.find('\n', i)
            j = n if j < 0 else j
            i = j
            continue
        if c == '/' and text[i : i + 2] == '/*':
            j = text.find('*/', i + 2)
            j = n if j < 0 else j + 2
            i = j
            continue
        if text.startswith(delim, i):
            s = ''.join(buf).strip()
            if s:
                stmts.append(s)
            buf = []
            i += len(delim)
            continue
        buf.append(c)
        i += 1
    s = ''.join(buf).strip()
    if s:
        stmts.append(s)
    return stmts


def migration_files(repo: Path):
    b = yaml.safe_load((repo / 'build.yaml').read_text())
    for s in b['steps']:
        if s.get('name') == 'batch_database':
            out = []
            for m in s['migrations']:
                rel = m['script'].replace('/io/sql/', '')
                out.append(repo / 'batch' / 'sql' / rel)
            return out
    raise RuntimeError('batch_database step not found in build.yaml')


def _routine_chunks(stmt):
    """A delimiter-terminated chunk may hold `DROP ...;` followed by the CREATE (067 does this)."""
    out = []
    rest = stmt
    while True:
        m = re.match(r'\s*(DROP\s+(?:PROCEDURE|FUNCTION|TRIGGER)\s+(?:IF\s+EXISTS\s+)?`?\w+`?)\s*;', rest, re.I)
        if not m:
            break
        out.append(m.group(1))
        rest = rest[m.end() :]
    if rest.strip():
        out.append(rest.strip())
    return out


def deployed_routines(repo: Path):
    """name(lower) -> (kind, source_text, file_name)"""
    routines = {}
    for f in migration_files(repo):
        if f.suffix != '.sql' or not f.exists():
            continue
        for stmt in split_script(f.read_text()):
            for chunk in _routine_chunks(stmt):
                m = ROUTINE_RE.match(chunk.lstrip())
                if not m:
                    continue
                verb, kind, _, name = m.group(1).upper(), m.group(2).upper(), m.group(3), m.group(4).lower()
                if verb == 'DROP':
                    routines.pop(name, None)
                else:
                    routines[name] = (kind, chunk, f.name)
    return routines


def table_statements(repo: Path):
    """CREATE TABLE statements from estimated-current.sql + later ALTER TABLE ... ADD COLUMN (idempotent overlay)."""
    est = repo / 'batch' / 'sql' / 'estimated-current.sql'
    creates = [s for s in split_script(est.read_text()) if re.match(r'CREATE\s+TABLE', s, re.I)]
    alters = []
    for f in migration_files(repo):
        if f.suffix != '.sql' or not f.exists():
            continue
        for stmt in split_script(f.read_text()):
            if re.match(r'ALTER\s+TABLE', stmt, re.I):
                alters.append((f.name, stmt))
    return creates, alters
