"""Conformance corpus for the minisql interpreter: statement-level cases whose expected results are the
MySQL 8.0 reference manual's stated semantics.  Run by setup_cmd (vf.selftest); a failure aborts setup."""
import decimal

from . import engine
from .lexer import SqlUnsupported


def fresh():
    db = engine.Database()
    s = db.session()
    for ddl in (
        "CREATE TABLE t (id INT NOT NULL, g VARCHAR(20), v BIGINT DEFAULT 0, n INT, PRIMARY KEY (id))",
        "CREATE TABLE u (a INT NOT NULL, b INT NOT NULL, c BIGINT NOT NULL DEFAULT 0, PRIMARY KEY (a, b))",
        "CREATE TABLE names (name VARCHAR(20) NOT NULL, name_cs VARCHAR(20) NOT NULL COLLATE utf8mb4_0900_as_cs, PRIMARY KEY (name))",
        "CREATE TABLE log (id INT NOT NULL AUTO_INCREMENT, msg VARCHAR(100), PRIMARY KEY (id))",
        "CREATE TABLE parent (id INT NOT NULL, grp INT, PRIMARY KEY (id))",
        "CREATE TABLE child (id INT NOT NULL, pid INT, w INT, PRIMARY KEY (id))",
    ):
        engine.create_table(db.store, ddl)
    return db, s


def q(s, sql, args=None):
    rc, rows, lid = s.execute(sql, args)
    return rows if rows is not None else rc


def expect_err(s, errno, sql, args=None):
    try:
        s.execute(sql, args)
    except Exception as e:  # noqa: BLE001
        assert getattr(e, 'args', [None])[0] == errno, (sql, e)
        return
    raise AssertionError(f'expected error {errno}: {sql}')


def run():
    db, s = fresh()
    one = lambda sql, args=None: list(q(s, sql, args)[0].values())
    # --- three-valued logic --------------------------------------------------------------
    assert one("SELECT NULL = 1, NULL AND 0, NULL AND 1, NULL OR 1, NULL OR 0, NOT NULL, NULL IS NULL, 1 <=> NULL, NULL <=> NULL") == \
        [None, 0, None, 1, None, None, 1, 0, 1]
    assert one("SELECT 1 IN (1, NULL), 2 IN (1, NULL), 2 NOT IN (1, NULL), 2 NOT IN (1, 3), NULL IN (1)") == [1, None, None, 1, None]
    assert one("SELECT COALESCE(NULL, NULL, 3), IFNULL(NULL, 4), IF(NULL, 1, 2), GREATEST(1, NULL), LEAST(2, 1), GREATEST(3, 1, 2)") == [3, 4, 2, None, 1, 3]
    assert one("SELECT 5 BETWEEN 1 AND 5, 0 BETWEEN 1 AND 5, NULL BETWEEN 1 AND 2") == [1, 0, None]
    # booleans are integers; arithmetic on comparisons
    assert one("SELECT (1 = 1) + (2 > 1), -1 * (3 = 3) * (NOT 0), TRUE, FALSE") == [2, -1, 1, 0]
    assert one("SELECT 7 DIV 2, -7 DIV 2, 7 % 3, 7 / 2, FLOOR(2.7), FLOOR(-2.5), CEIL(2.1)") == [3, -3, 1, 3.5, 2, -3, 3]
    # row constructors: = is component-wise, < <= > >= are lexicographic; NULL components follow the expansion a>x OR (a=x AND b>y)
    assert one("SELECT (1, 2) = (1, 2), (1, 2) != (1, 3), (1, NULL) = (1, 2), (2, NULL) = (1, 2)") == [1, 1, None, 0]
    assert one("SELECT (1, 5) > (1, 4), (1, 5) > (1, 5), (1, 5) >= (1, 5), (2, 0) > (1, 9), (1, 9) > (2, 0), (1, 2) < (1, 3), (1, 2) <= (0, 9)") == \
        [1, 0, 1, 1, 0, 1, 0]
    assert one("SELECT (2, NULL) > (1, 1), (1, NULL) > (1, 1), (0, NULL) > (1, 1), (NULL, 5) > (1, 1), (1, 2, 3) >= (1, 2, 2), (1, 2, 3) < (1, 2, 3)") == \
        [1, None, 0, None, 1, 0]
    expect_err(s, 1241, "SELECT (1, 2) > (1, 2, 3)")
    # operator precedence: NOT binds tighter than AND, comparison tighter than NOT
    assert one("SELECT NOT 0 AND 0, NOT (0 AND 0), NOT 1 = 2") == [0, 1, 1]
    # string comparison: default collation is case- and accent-insensitive, _cs columns are not
    assert one("SELECT 'Abc' = 'aBC', 'a' < 'B', 'é' = 'e', 'a ' = 'a'") == [1, 1, 1, 0]
    q(s, "INSERT INTO names (name, name_cs) VALUES ('Bob', 'Bob')")
    assert q(s, "SELECT name FROM names WHERE name = 'bob'") == [{'name': 'Bob'}]
    assert q(s, "SELECT name FROM names WHERE name_cs = 'bob'") == []
    expect_err(s, 1062, "INSERT INTO names (name, name_cs) VALUES ('BOB', 'x')")   # PK uses the column collation
    # number / string coercion in comparisons and assignments
    assert one("SELECT '12' = 12, 'abc' = 0, '3x' + 1") == [1, 1, 4]
    # --- INSERT / ODKU / ROW_COUNT -------------------------------------------------------
    assert q(s, "INSERT INTO t (id, g, v) VALUES (1, 'a', 10), (2, 'a', 20), (3, 'b', 5)") == 3
    assert q(s, "INSERT INTO t (id, g, v) VALUES (1, 'z', 1) ON DUPLICATE KEY UPDATE v = v + VALUES(v)") == 2
    assert one("SELECT v, g, ROW_COUNT() FROM t WHERE id = 1") [:2] == [11, 'a']
    assert q(s, "INSERT INTO t (id, g, v) VALUES (1, 'z', 1) ON DUPLICATE KEY UPDATE id = id") == 0      # no change -> 0
    assert q(s, "INSERT INTO t (id) VALUES (9)") == 1 and one("SELECT v, n, g FROM t WHERE id = 9") == [0, None, None]
    expect_err(s, 1062, "INSERT INTO t (id) VALUES (9)")
    expect_err(s, 1048, "INSERT INTO t (id) VALUES (NULL)")
    expect_err(s, 1364, "INSERT INTO u (a) VALUES (1)")
    expect_err(s, 1054, "INSERT INTO t (id, nope) VALUES (1, 2)")
    expect_err(s, 1136, "INSERT INTO t (id, g) VALUES (1)")
    # multi-row insert is atomic as a statement
    expect_err(s, 1062, "INSERT INTO t (id) VALUES (50), (51), (1)")
    assert q(s, "SELECT id FROM t WHERE id >= 50") == []
    # auto increment + lastrowid
    rc, _, lid = s.execute("INSERT INTO log (msg) VALUES ('x'), ('y')")
    assert (rc, lid) == (2, 1) and one("SELECT LAST_INSERT_ID()") == [1]
    # INSERT .. SELECT with per-row user variables consumed by ODKU (streaming evaluation)
    q(s, "INSERT INTO u (a, b, c) VALUES (1, 1, 100), (1, 2, 200)")
    q(s, "INSERT INTO u (a, b, c) SELECT a, b, -1 * (@x := c) FROM u WHERE a = 1 ON DUPLICATE KEY UPDATE c = c - @x")
    assert q(s, "SELECT c FROM u ORDER BY b") == [{'c': 0}, {'c': 0}]
    # ODKU may reference columns of the SELECT's tables
    q(s, "INSERT INTO u (a, b, c) SELECT 1, id, 0 FROM t WHERE id IN (1, 2) ON DUPLICATE KEY UPDATE c = u.c + t.v")
    assert q(s, "SELECT c FROM u ORDER BY b") == [{'c': 11}, {'c': 20}]
    # --- aggregates, GROUP BY, HAVING alias, ORDER BY, LIMIT --------------------------------
    r = q(s, "SELECT g, SUM(v) AS tot, COUNT(*) AS n FROM t WHERE g IS NOT NULL GROUP BY g HAVING tot > 6 ORDER BY tot DESC")
    assert [(x['g'], int(x['tot']), x['n']) for x in r] == [('a', 31, 2)]
    assert isinstance(r[0]['tot'], decimal.Decimal)                       # SUM of integers is DECIMAL
    r = q(s, "SELECT CAST(COALESCE(SUM(v), 0) AS SIGNED) AS tot FROM t WHERE id > 1000")
    assert r == [{'tot': 0}] and isinstance(r[0]['tot'], int)              # aggregate over empty set -> one row
    assert q(s, "SELECT g, SUM(v) AS tot FROM t WHERE id > 1000 GROUP BY g") == []
    assert one("SELECT SUM(v = 20), SUM(g IN ('a', 'b')), MAX(v), MIN(id), COUNT(n) FROM t") [:1] == [1]
    assert q(s, "SELECT id FROM t ORDER BY v DESC, id LIMIT 2") == [{'id': 2}, {'id': 1}]
    assert q(s, "SELECT DISTINCT g FROM t WHERE g IS NOT NULL ORDER BY g") == [{'g': 'a'}, {'g': 'b'}]
    assert one("SELECT JSON_OBJECTAGG(g, v) FROM t WHERE id = 3") == ['{"b": 5}']
    # --- joins -----------------------------------------------------------------------------
    q(s, "INSERT INTO parent (id, grp) VALUES (1, 1), (2, 1), (3, 2)")
    q(s, "INSERT INTO child (id, pid, w) VALUES (10, 1, 5), (11, 1, 7), (12, 3, 1)")
    r = q(s, "SELECT parent.id, child.id AS cid FROM parent LEFT JOIN child ON child.pid = parent.id ORDER BY parent.id, cid")
    assert [(x['id'], x['cid']) for x in r] == [(1, 10), (1, 11), (2, None), (3, 12)]
    r = q(s, """SELECT p.id, t.tot FROM parent AS p LEFT JOIN LATERAL (SELECT SUM(w) AS tot FROM child WHERE child.pid = p.id) AS t ON TRUE ORDER BY p.id""")
    assert [(x['id'], None if x['tot'] is None else int(x['tot'])) for x in r] == [(1, 12), (2, None), (3, 1)]
    r = q(s, "SELECT p.id FROM parent p WHERE EXISTS (SELECT 1 FROM child WHERE child.pid = p.id) ORDER BY p.id")
    assert [x['id'] for x in r] == [1, 3]
    assert one("SELECT (SELECT COUNT(*) FROM child WHERE pid = 1)") == [2]
    expect_err(s, 1242, "SELECT (SELECT id FROM child WHERE pid = 1)")
    expect_err(s, 1052, "SELECT id FROM parent, child")
    expect_err(s, 1054, "SELECT nope FROM parent")
    expect_err(s, 1146, "SELECT 1 FROM nonexistent")
    assert [tuple(x.values()) for x in q(s, "SELECT parent.*, child.* FROM parent JOIN child ON child.pid = parent.id WHERE child.id = 12")] == [(3, 2, 12, 3, 1)]
    assert list(q(s, "SELECT parent.*, child.* FROM parent JOIN child ON child.pid = parent.id WHERE child.id = 12")[0]) == ['id', 'grp', 'child.id', 'pid', 'w']
    r = q(s, "WITH c AS (SELECT pid, SUM(w) AS s FROM child GROUP BY pid) SELECT pid FROM c WHERE s > 3 UNION SELECT 99")
    assert sorted(x['pid'] for x in r) == [1, 99]
    assert q(s, "SELECT id FROM child WHERE (pid, w) IN (SELECT 1, 7)") == [{'id': 11}]
    # window function used by the scheduler's autoscaler query
    r = q(s, "SELECT id, ROW_NUMBER() OVER (ORDER BY w DESC) AS rn FROM child ORDER BY id")
    assert [(x['id'], x['rn']) for x in r] == [(10, 2), (11, 1), (12, 3)]
    # --- UPDATE / DELETE ---------------------------------------------------------------------
    assert q(s, "UPDATE t SET v = v + 1, n = v WHERE id = 2") == 1 and one("SELECT v, n FROM t WHERE id = 2") == [21, 21]   # left-to-right
    assert q(s, "UPDATE t SET v = v WHERE id = 2") == 0                                                                      # changed rows only
    assert q(s, "UPDATE child INNER JOIN parent ON child.pid = parent.id SET child.w = child.w + parent.grp, parent.grp = 9 WHERE parent.id = 1") == 3
    assert q(s, "SELECT w FROM child WHERE pid = 1 ORDER BY id") == [{'w': 6}, {'w': 8}] and one("SELECT grp FROM parent WHERE id = 1") == [9]
    assert q(s, "UPDATE parent, child SET w = 0 WHERE parent.id = child.pid AND parent.id = 3") == 1
    assert q(s, "DELETE FROM child WHERE w = 0") == 1 and q(s, "DELETE FROM child WHERE id < 0") == 0
    assert q(s, "DELETE FROM log ORDER BY id DESC LIMIT 1") == 1 and q(s, "SELECT id FROM log") == [{'id': 1}]
    # --- transactions and statement atomicity --------------------------------------------------
    q(s, "START TRANSACTION")
    q(s, "INSERT INTO t (id) VALUES (70)")
    expect_err(s, 1062, "INSERT INTO t (id) VALUES (71), (70)")       # failing statement undone, transaction stays open
    assert q(s, "SELECT id FROM t WHERE id >= 70") == [{'id': 70}]
    s.rollback()
    assert q(s, "SELECT id FROM t WHERE id >= 70") == []
    q(s, "START TRANSACTION"); q(s, "INSERT INTO t (id) VALUES (70)"); s.commit(); s.rollback()
    assert q(s, "SELECT id FROM t WHERE id = 70") == [{'id': 70}]
    # two sessions: different rows fine, same row is a harness gap
    s2 = db.session()
    q(s, "START TRANSACTION"); q(s, "UPDATE t SET v = 1 WHERE id = 1")
    q(s2, "START TRANSACTION"); q(s2, "UPDATE t SET v = 2 WHERE id = 2")
    try:
        q(s2, "UPDATE t SET v = 3 WHERE id = 1")
        raise AssertionError('expected row-lock gap')
    except SqlUnsupported:
        pass
    s2.rollback(); s.rollback()
    from . import lexer
    del lexer.GAPS[:]
    # --- stored programs ----------------------------------------------------------------------
    db.add_routine("""CREATE FUNCTION f (id INT) RETURNS INT RETURN (SELECT t.v FROM t WHERE t.id = id)""")     # parameter shadows the column
    assert one("SELECT f(2), f(12345)") == [21, None]
    db.add_routine("""CREATE PROCEDURE addlog(IN m VARCHAR(10), OUT n INT)
BEGIN
  SET n = IFNULL(n, 0);
  INSERT INTO log (msg) VALUES (m) ;
  IF ROW_COUNT() = 1 THEN SET n = n + 1; END IF;
END""")
    db.add_routine("""CREATE PROCEDURE p(IN k INT)
BEGIN
  DECLARE total INT DEFAULT 0;
  DECLARE cur_v INT;
  DECLARE done BOOLEAN DEFAULT FALSE;
  DECLARE got INT;
  DECLARE c CURSOR FOR SELECT v FROM t WHERE id <= k ORDER BY id;
  DECLARE CONTINUE HANDLER FOR NOT FOUND SET done = TRUE;
  START TRANSACTION;
  OPEN c;
  l: LOOP
    FETCH c INTO cur_v;
    IF done THEN LEAVE l; END IF;
    SET total = total + cur_v;
  END LOOP;
  CLOSE c;
  SET done = FALSE;
  SELECT v INTO got FROM t WHERE id = -1;        -- no row: variable unchanged, handler runs
  CALL addlog('p', got);
  IF total > 30 THEN
    COMMIT;
    SELECT 0 AS rc, total, done AS handler_ran, got;
  ELSE
    ROLLBACK;
    SELECT 1 AS rc, total;
  END IF;
END""")
    assert q(s, "CALL p(2)") == [{'rc': 0, 'total': 32, 'handler_ran': 1, 'got': 1}]
    assert q(s, "CALL p(1)") == [{'rc': 1, 'total': 11}] and one("SELECT COUNT(*) FROM log") == [2]      # second call rolled back
    expect_err(s, 1172, "SELECT id INTO @z FROM t")
    expect_err(s, 1305, "CALL nope()")
    # --- triggers -------------------------------------------------------------------------------
    db.add_routine("""CREATE TRIGGER t_bu BEFORE UPDATE ON t FOR EACH ROW
BEGIN
  IF NEW.v < OLD.v THEN SET NEW.v = OLD.v; END IF;
  IF NEW.n = 666 THEN SIGNAL SQLSTATE '45000' SET MESSAGE_TEXT = 'nope'; END IF;
END""")
    db.add_routine("""CREATE TRIGGER t_au AFTER UPDATE ON t FOR EACH ROW
BEGIN
  DECLARE v INT;
  SET v = NEW.v - OLD.v;
  INSERT INTO u (a, b, c) VALUES (7, NEW.id, v) ON DUPLICATE KEY UPDATE c = c + v;
END""")
    q(s, "UPDATE t SET v = 100 WHERE id = 3"); q(s, "UPDATE t SET v = 50 WHERE id = 3")      # clamped by BEFORE trigger
    assert one("SELECT v FROM t WHERE id = 3") == [100] and one("SELECT c FROM u WHERE a = 7 AND b = 3") == [95]
    q(s, "INSERT INTO t (id, v) VALUES (3, 0) ON DUPLICATE KEY UPDATE v = v + 1")               # ODKU fires UPDATE triggers
    assert one("SELECT c FROM u WHERE a = 7 AND b = 3") == [96]
    expect_err(s, 1644, "UPDATE t SET n = 666")                                                   # SIGNAL undoes the whole statement
    assert one("SELECT COUNT(*) FROM t WHERE n = 666") == [0]
    # bulk insert rule of the driver (one multi-row statement)
    rc, lid = s.execute_bulk_insert("INSERT INTO log (msg) VALUES ", "(%s)", "", [('a',), ('b',)])
    assert rc == 2
    # unsupported syntax is a hard error, never skipped
    for bad in ("SELECT * FROM t NATURAL JOIN u", "REPLACE INTO t (id) VALUES (1)"):
        try:
            s.execute(bad)
            raise AssertionError('expected SqlUnsupported: ' + bad)
        except SqlUnsupported:
            pass
    del lexer.GAPS[:]
    return True
