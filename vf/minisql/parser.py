"""Recursive-descent parser for the MySQL subset -> tuple AST.

Expression nodes:  ('lit', v) ('param', k) ('uvar', name) ('assign', name, e) ('col', qualifier|None, name)
  ('star', qualifier|None) ('un', op, e) ('bin', op, a, b) ('and', a, b) ('or', a, b) ('not', e)
  ('isnull', e, negated) ('istruth', e, truthvalue, negated) ('in', e, [items]|('subq', sel), negated)
  ('between', e, lo, hi, negated) ('like', e, pat, negated) ('func', NAME, [args], distinct)
  ('case', operand|None, [(when, then)], else|None) ('exists', sel) ('subq', sel) ('row', [exprs])
  ('cast', e, TYPE) ('values', colname) ('window', 'ROW_NUMBER', order_by)
"""
from .lexer import SqlSyntaxError, SqlUnsupported, tokenize

RESERVED_STOP = {
    'FROM', 'WHERE', 'GROUP', 'HAVING', 'ORDER', 'LIMIT', 'INTO', 'FOR', 'LOCK', 'UNION', 'ON', 'JOIN', 'INNER', 'LEFT',
    'RIGHT', 'CROSS', 'STRAIGHT_JOIN', 'SET', 'VALUES', 'SELECT', 'AS', 'AND', 'OR', 'NOT', 'THEN', 'ELSE', 'ELSEIF', 'END',
    'WHEN', 'DO', 'USING', 'IS', 'IN', 'LIKE', 'BETWEEN', 'DIV', 'MOD', 'XOR', 'ASC', 'DESC', 'OFFSET', 'FORCE', 'USE',
    'IGNORE', 'LATERAL', 'NATURAL', 'OUTER', 'WITH', 'DUPLICATE', 'KEY', 'CASE', 'COLLATE', 'REGEXP', 'WINDOW', 'OVER',
    'RETURNS', 'BEGIN', 'DECLARE', 'IF', 'LOOP', 'LEAVE', 'OPEN', 'FETCH', 'CLOSE', 'CALL', 'SIGNAL', 'RETURN',
    'UPDATE', 'INSERT', 'DELETE', 'COMMIT', 'ROLLBACK', 'START', 'WHILE', 'REPEAT', 'UNTIL', 'ITERATE',
}
# words that may still be used as (unquoted) column names / aliases in the code base
NONRESERVED_OK = {'KEY', 'VALUES', 'USER', 'STATE', 'STATUS', 'TOKEN', 'NAME', 'VALUE', 'VERSION', 'LOCATION', 'REASON',
                  'USAGE', 'DATE', 'TIME', 'LEVEL', 'RESOURCE', 'REGION', 'COST', 'END', 'OPEN', 'CLOSE', 'MESSAGE'}


class P:
    def __init__(self, sql):
        self.sql = sql
        self.toks = tokenize(sql)
        self.i = 0
        self.nparams = sum(1 for t in self.toks if t.kind == 'param' and isinstance(t.val, int))

    # -- token helpers ---------------------------------------------------------------
    @property
    def t(self):
        return self.toks[self.i]

    def peek(self, k=1):
        j = self.i + k
        return self.toks[j] if j < len(self.toks) else self.toks[-1]

    def err(self, msg):
        t = self.t
        ctx = self.sql[max(0, t.pos - 60) : t.pos + 60]
        return SqlSyntaxError(f'{msg} at token {t!r} near: ...{ctx!r}...')

    def is_kw(self, *words):
        return self.t.kind == 'id' and self.t.up in words

    def kw_at(self, k, *words):
        t = self.peek(k)
        return t.kind == 'id' and t.up in words

    def accept_kw(self, *words):
        if self.is_kw(*words):
            w = self.t.up
            self.i += 1
            return w
        return None

    def expect_kw(self, *words):
        w = self.accept_kw(*words)
        if w is None:
            raise self.err(f'expected {"/".join(words)}')
        return w

    def is_op(self, *ops):
        return self.t.kind == 'op' and self.t.val in ops

    def accept_op(self, *ops):
        if self.is_op(*ops):
            v = self.t.val
            self.i += 1
            return v
        return None

    def expect_op(self, op):
        if not self.accept_op(op):
            raise self.err(f'expected {op!r}')

    def ident(self):
        t = self.t
        if t.kind == 'qid':
            self.i += 1
            return t.val
        if t.kind == 'id':
            self.i += 1
            return t.val
        raise self.err('expected identifier')

    # -- expressions -------------------------------------------------------------------
    def expr(self):
        return self.p_assign()

    def p_assign(self):
        if self.t.kind == 'uvar' and self.peek().kind == 'op' and self.peek().val == ':=':
            name = self.t.val
            self.i += 2
            return ('assign', name, self.p_assign())
        return self.p_or()

    def p_or(self):
        a = self.p_xor()
        while self.is_kw('OR') or self.is_op('||'):
            self.i += 1
            a = ('or', a, self.p_xor())
        return a

    def p_xor(self):
        a = self.p_and()
        while self.is_kw('XOR'):
            self.i += 1
            a = ('bin', 'XOR', a, self.p_and())
        return a

    def p_and(self):
        a = self.p_not()
        while self.is_kw('AND') or self.is_op('&&'):
            self.i += 1
            a = ('and', a, self.p_not())
        return a

    def p_not(self):
        if self.is_kw('NOT') and not self.kw_at(1, 'EXISTS'):
            self.i += 1
            return ('not', self.p_not())
        if self.is_kw('NOT') and self.kw_at(1, 'EXISTS'):
            self.i += 1
            return ('not', self.p_not())
        return self.p_cmp()

    def p_cmp(self):
        a = self.p_bitor()
        while True:
            if self.t.kind == 'op' and self.t.val in ('=', '<=>', '<>', '!=', '<', '<=', '>', '>='):
                op = self.t.val
                self.i += 1
                b = self.p_bitor()
                a = ('bin', '!=' if op == '<>' else op, a, b)
                continue
            if self.is_kw('IS'):
                self.i += 1
                neg = bool(self.accept_kw('NOT'))
                if self.accept_kw('NULL'):
                    a = ('isnull', a, neg)
                elif self.accept_kw('TRUE'):
                    a = ('istruth', a, True, neg)
                elif self.accept_kw('FALSE'):
                    a = ('istruth', a, False, neg)
                else:
                    raise self.err('expected NULL/TRUE/FALSE after IS')
                continue
            neg = False
            save = self.i
            if self.is_kw('NOT') and self.kw_at(1, 'IN', 'LIKE', 'BETWEEN', 'REGEXP'):
                self.i += 1
                neg = True
            if self.is_kw('IN') and self.peek().kind == 'param':
                self.i += 1
                a = ('in', a, [('param', self.t.val)], neg)
                self.i += 1
                continue
            if self.accept_kw('IN'):
                self.expect_op('(')
                if self.is_kw('SELECT', 'WITH'):
                    sel = self.select()
                    self.expect_op(')')
                    a = ('in', a, ('subq', sel), neg)
                else:
                    items = [self.expr()]
                    while self.accept_op(','):
                        items.append(self.expr())
                    self.expect_op(')')
                    a = ('in', a, items, neg)
                continue
            if self.is_kw('IN'):
                pass
            if self.accept_kw('LIKE'):
                pat = self.p_bitor()
                a = ('like', a, pat, neg)
                continue
            if self.accept_kw('BETWEEN'):
                lo = self.p_bitor()
                self.expect_kw('AND')
                hi = self.p_bitor()
                a = ('between', a, lo, hi, neg)
                continue
            if self.is_kw('REGEXP'):
                raise SqlUnsupported('REGEXP')
            self.i = save
            return a

    def p_bitor(self):
        a = self.p_bitand()
        while self.is_op('|'):
            self.i += 1
            a = ('bin', '|', a, self.p_bitand())
        return a

    def p_bitand(self):
        a = self.p_shift()
        while self.is_op('&'):
            self.i += 1
            a = ('bin', '&', a, self.p_shift())
        return a

    def p_shift(self):
        a = self.p_add()
        while self.is_op('<<', '>>'):
            op = self.t.val
            self.i += 1
            a = ('bin', op, a, self.p_add())
        return a

    def p_add(self):
        a = self.p_mul()
        while self.is_op('+', '-'):
            op = self.t.val
            self.i += 1
            a = ('bin', op, a, self.p_mul())
        return a

    def p_mul(self):
        a = self.p_unary()
        while True:
            if self.is_op('*', '/', '%'):
                op = self.t.val
                self.i += 1
                a = ('bin', op, a, self.p_unary())
            elif self.is_kw('DIV', 'MOD'):
                op = self.t.up
                self.i += 1
                a = ('bin', '%' if op == 'MOD' else 'DIV', a, self.p_unary())
            else:
                return a

    def p_unary(self):
        if self.is_op('-'):
            self.i += 1
            e = self.p_unary()
            if e[0] == 'lit' and isinstance(e[1], (int, float)) and not isinstance(e[1], bool):
                return ('lit', -e[1])
            return ('un', '-', e)
        if self.is_op('+'):
            self.i += 1
            return self.p_unary()
        if self.is_op('!'):
            self.i += 1
            return ('not', self.p_unary())
        if self.is_op('~'):
            raise SqlUnsupported('~')
        e = self.p_primary()
        while self.is_kw('COLLATE'):
            self.i += 1
            coll = self.ident()
            e = ('collate', e, coll.lower())
        return e

    def p_primary(self):
        t = self.t
        if t.kind == 'num':
            self.i += 1
            s = t.val
            if '.' in s or 'e' in s or 'E' in s:
                return ('lit', float(s))
            return ('lit', int(s))
        if t.kind == 'str':
            self.i += 1
            v = t.val
            # adjacent string literals concatenate
            while self.t.kind == 'str':
                v += self.t.val
                self.i += 1
            return ('lit', v)
        if t.kind == 'param':
            self.i += 1
            return ('param', t.val)
        if t.kind == 'uvar':
            self.i += 1
            return ('uvar', t.val)
        if t.kind == 'op' and t.val == '(':
            self.i += 1
            if self.is_kw('SELECT', 'WITH'):
                sel = self.select()
                self.expect_op(')')
                return ('subq', sel)
            e = self.expr()
            if self.is_op(','):
                items = [e]
                while self.accept_op(','):
                    items.append(self.expr())
                self.expect_op(')')
                return ('row', items)
            self.expect_op(')')
            return e
        if t.kind == 'op' and t.val == '*':
            self.i += 1
            return ('star', None)
        if t.kind == 'qid':
            return self.p_colref()
        if t.kind == 'id':
            up = t.up
            if up == 'NULL':
                self.i += 1
                return ('lit', None)
            if up == 'TRUE':
                self.i += 1
                return ('lit', 1)
            if up == 'FALSE':
                self.i += 1
                return ('lit', 0)
            if up == 'EXISTS':
                self.i += 1
                self.expect_op('(')
                sel = self.select()
                self.expect_op(')')
                return ('exists', sel)
            if up == 'CASE':
                return self.p_case()
            if up == 'CAST' and self.peek().kind == 'op' and self.peek().val == '(':
                self.i += 2
                e = self.expr()
                self.expect_kw('AS')
                ty = self.ident().upper()
                if self.accept_op('('):
                    while not self.accept_op(')'):
                        self.i += 1
                if ty in ('SIGNED', 'UNSIGNED'):
                    self.accept_kw('INTEGER', 'INT')
                self.expect_op(')')
                return ('cast', e, ty)
            if up == 'INTERVAL':
                raise SqlUnsupported('INTERVAL')
            if up == 'VALUES' and self.peek().kind == 'op' and self.peek().val == '(':
                self.i += 2
                name = self.ident()
                self.expect_op(')')
                return ('values', name.lower())
            if up == 'BINARY':
                self.i += 1
                return ('collate', self.p_unary(), 'binary')
            if self.peek().kind == 'op' and self.peek().val == '(' and up not in ('IN',):
                return self.p_func()
            if up in ('CURRENT_TIMESTAMP', 'CURRENT_DATE', 'UTC_DATE', 'UTC_TIMESTAMP'):
                self.i += 1
                return ('func', up, [], False)
            return self.p_colref()
        raise self.err('unexpected token in expression')

    def p_colref(self):
        a = self.ident()
        if self.is_op('.'):
            self.i += 1
            if self.is_op('*'):
                self.i += 1
                return ('star', a.lower())
            b = self.ident()
            if self.is_op('.'):
                self.i += 1
                c = self.ident()
                return ('col', b.lower(), c.lower())
            return ('col', a.lower(), b.lower())
        return ('col', None, a.lower())

    def p_func(self):
        name = self.t.up
        self.i += 2  # name (
        distinct = False
        args = []
        if name == 'COUNT' and self.is_op('*'):
            self.i += 1
            self.expect_op(')')
            return self.p_over(('func', 'COUNT', [('lit', 1)], False))
        if self.accept_kw('DISTINCT'):
            distinct = True
        if not self.is_op(')'):
            args.append(self.expr())
            while self.accept_op(','):
                args.append(self.expr())
        self.expect_op(')')
        return self.p_over(('func', name, args, distinct))

    def p_over(self, f):
        if self.accept_kw('OVER'):
            self.expect_op('(')
            order = []
            if self.accept_kw('PARTITION'):
                raise SqlUnsupported('PARTITION BY')
            if self.accept_kw('ORDER'):
                self.expect_kw('BY')
                order = self.order_list()
            self.expect_op(')')
            if f[1] != 'ROW_NUMBER':
                raise SqlUnsupported(f'window function {f[1]}')
            return ('window', 'ROW_NUMBER', order)
        return f

    def p_case(self):
        self.expect_kw('CASE')
        operand = None
        if not self.is_kw('WHEN'):
            operand = self.expr()
        whens = []
        while self.accept_kw('WHEN'):
            w = self.expr()
            self.expect_kw('THEN')
            th = self.expr()
            whens.append((w, th))
        els = None
        if self.accept_kw('ELSE'):
            els = self.expr()
        self.expect_kw('END')
        return ('case', operand, whens, els)

    def order_list(self):
        out = []
        while True:
            e = self.expr()
            desc = False
            if self.accept_kw('DESC'):
                desc = True
            else:
                self.accept_kw('ASC')
            out.append((e, desc))
            if not self.accept_op(','):
                return out

    # -- SELECT --------------------------------------------------------------------------
    def select(self):
        ctes = []
        if self.accept_kw('WITH'):
            if self.accept_kw('RECURSIVE'):
                raise SqlUnsupported('WITH RECURSIVE')
            while True:
                name = self.ident().lower()
                self.expect_kw('AS')
                self.expect_op('(')
                sel = self.select()
                self.expect_op(')')
                ctes.append((name, sel))
                if not self.accept_op(','):
                    break
        first = self.select_core()
        parts = [first]
        ops = []
        while self.is_kw('UNION'):
            self.i += 1
            all_ = bool(self.accept_kw('ALL'))
            self.accept_kw('DISTINCT')
            ops.append(all_)
            if self.accept_op('('):
                s = self.select()
                self.expect_op(')')
                parts.append(s)
            else:
                parts.append(self.select_core())
        if len(parts) == 1:
            node = first
        else:
            node = {'kind': 'union', 'parts': parts, 'all': ops, 'order': None, 'limit': None, 'offset': None}
            if self.accept_kw('ORDER'):
                self.expect_kw('BY')
                node['order'] = self.order_list()
            if self.accept_kw('LIMIT'):
                node['limit'] = self.expr()
        if ctes:
            node = dict(node)
            node['ctes'] = ctes
        return node

    def select_core(self):
        if self.accept_op('('):
            s = self.select()
            self.expect_op(')')
            return s
        self.expect_kw('SELECT')
        node = {'kind': 'select', 'distinct': False, 'items': [], 'into': None, 'from': None, 'where': None, 'group': None,
                'having': None, 'order': None, 'limit': None, 'offset': None, 'ctes': [], 'lock': None}
        while True:
            if self.accept_kw('DISTINCT'):
                node['distinct'] = True
            elif self.accept_kw('STRAIGHT_JOIN', 'SQL_NO_CACHE', 'ALL', 'SQL_CALC_FOUND_ROWS'):
                pass
            else:
                break
        while True:
            e = self.expr()
            alias = None
            if self.accept_kw('AS'):
                alias = self.alias_name()
            elif self.t.kind == 'qid' or (self.t.kind == 'id' and self.t.up not in RESERVED_STOP) or \
                    (self.t.kind == 'str'):
                alias = self.alias_name()
            node['items'].append((e, alias))
            if not self.accept_op(','):
                break
        if self.accept_kw('INTO'):
            node['into'] = self.into_list()
        if self.accept_kw('FROM'):
            node['from'] = self.table_refs()
        if self.accept_kw('WHERE'):
            node['where'] = self.expr()
        if self.accept_kw('GROUP'):
            self.expect_kw('BY')
            g = [self.expr()]
            while self.accept_op(','):
                g.append(self.expr())
            node['group'] = g
        if self.accept_kw('HAVING'):
            node['having'] = self.expr()
        if self.accept_kw('ORDER'):
            self.expect_kw('BY')
            node['order'] = self.order_list()
        if self.accept_kw('LIMIT'):
            a = self.expr()
            if self.accept_op(','):
                node['offset'] = a
                node['limit'] = self.expr()
            else:
                node['limit'] = a
                if self.accept_kw('OFFSET'):
                    node['offset'] = self.expr()
        if self.accept_kw('INTO'):
            node['into'] = self.into_list()
        node['lock'] = self.locking_clauses()
        if self.accept_kw('INTO'):
            node['into'] = self.into_list()
        return node

    def alias_name(self):
        if self.t.kind == 'str':
            v = self.t.val
            self.i += 1
            return v.lower()
        return self.ident().lower()

    def locking_clauses(self):
        """-> 'X' (FOR UPDATE) | 'S' (FOR SHARE / LOCK IN SHARE MODE) | None; the strongest of several clauses.
        The engine ignores the mode unless a transaction model (Database.txmodel) is installed."""
        mode = None
        while True:
            if self.is_kw('FOR') and self.kw_at(1, 'UPDATE', 'SHARE'):
                mode = 'X' if (self.kw_at(1, 'UPDATE') or mode == 'X') else 'S'
                self.i += 2
                if self.accept_kw('OF'):
                    self.ident()
                self.accept_kw('NOWAIT')
                if self.accept_kw('SKIP'):
                    self.expect_kw('LOCKED')
            elif self.is_kw('LOCK') and self.kw_at(1, 'IN'):
                self.i += 2
                self.expect_kw('SHARE')
                self.expect_kw('MODE')
                mode = mode or 'S'
            else:
                return mode

    def into_list(self):
        out = []
        while True:
            if self.t.kind == 'uvar':
                out.append(('uvar', self.t.val))
                self.i += 1
            else:
                out.append(('var', self.ident().lower()))
            if not self.accept_op(','):
                return out

    def table_refs(self):
        refs = [self.join_chain()]
        while self.accept_op(','):
            refs.append(self.join_chain())
        node = refs[0]
        for r in refs[1:]:
            node = ('join', 'INNER', node, r, None)
        return node

    def join_chain(self):
        left = self.table_factor()
        while True:
            kind = None
            if self.accept_kw('STRAIGHT_JOIN'):
                kind = 'INNER'
            elif self.is_kw('JOIN'):
                self.i += 1
                kind = 'INNER'
            elif self.is_kw('INNER', 'CROSS') and self.kw_at(1, 'JOIN'):
                self.i += 2
                kind = 'INNER'
            elif self.is_kw('LEFT'):
                self.i += 1
                self.accept_kw('OUTER')
                self.expect_kw('JOIN')
                kind = 'LEFT'
            elif self.is_kw('RIGHT'):
                raise SqlUnsupported('RIGHT JOIN')
            elif self.is_kw('NATURAL'):
                raise SqlUnsupported('NATURAL JOIN')
            else:
                return left
            right = self.table_factor()
            on = None
            if self.accept_kw('ON'):
                on = self.expr()
            elif self.accept_kw('USING'):
                # JOIN ... USING (c1, ...): equality of the named columns of both sides.  (Limitation: the column is not
                # coalesced into one for `SELECT *` / unqualified references -- those raise 1052 here, they would not in MySQL.)
                self.expect_op('(')
                cols = [self.ident().lower()]
                while self.accept_op(','):
                    cols.append(self.ident().lower())
                self.expect_op(')')
                on = ('using', cols)
            left = ('join', kind, left, right, on)

    def table_factor(self):
        lateral = bool(self.accept_kw('LATERAL'))
        if self.accept_op('('):
            if self.is_kw('SELECT', 'WITH') or self.is_op('('):
                sel = self.select()
                self.expect_op(')')
                self.accept_kw('AS')
                alias = self.ident().lower()
                return ('derived', sel, alias, lateral)
            refs = self.table_refs()
            self.expect_op(')')
            return refs
        name = self.ident().lower()
        if self.is_op('.'):
            self.i += 1
            name = self.ident().lower()
        alias = name
        if self.accept_kw('AS'):
            alias = self.ident().lower()
        elif self.t.kind == 'qid' or (self.t.kind == 'id' and self.t.up not in RESERVED_STOP):
            alias = self.ident().lower()
        while self.is_kw('FORCE', 'USE', 'IGNORE') and self.kw_at(1, 'INDEX', 'KEY'):
            self.i += 2
            if self.accept_kw('FOR'):
                self.i += 1
                self.accept_kw('BY')
            self.expect_op('(')
            while not self.accept_op(')'):
                self.i += 1
        return ('table', name, alias)

    # -- statements ----------------------------------------------------------------------
    def statement(self):
        t = self.t
        if t.kind == 'op' and t.val == '(':
            return ('select', self.select())
        if t.kind != 'id':
            raise self.err('expected statement')
        up = t.up
        if up in ('SELECT', 'WITH'):
            return ('select', self.select())
        if up == 'INSERT' or up == 'REPLACE':
            return self.insert()
        if up == 'UPDATE':
            return self.update()
        if up == 'DELETE':
            return self.delete()
        if up == 'CALL':
            self.i += 1
            name = self.ident().lower()
            args = []
            if self.accept_op('('):
                if not self.is_op(')'):
                    args.append(self.expr())
                    while self.accept_op(','):
                        args.append(self.expr())
                self.expect_op(')')
            return ('call', name, args)
        if up == 'SET':
            self.i += 1
            assigns = []
            while True:
                if self.t.kind == 'uvar':
                    target = ('uvar', self.t.val)
                    self.i += 1
                else:
                    a = self.ident().lower()
                    if self.accept_op('.'):
                        b = self.ident().lower()
                        target = ('field', a, b)
                    else:
                        target = ('var', a)
                if not (self.accept_op('=') or self.accept_op(':=')):
                    raise self.err('expected = in SET')
                assigns.append((target, self.expr()))
                if not self.accept_op(','):
                    break
            return ('set', assigns)
        if up == 'START':
            self.i += 1
            self.expect_kw('TRANSACTION')
            ro = False
            if self.accept_kw('READ'):
                ro = self.expect_kw('ONLY', 'WRITE') == 'ONLY'
            return ('start', ro)
        if up == 'BEGIN' and not self.kw_at(1, 'DECLARE'):
            # bare BEGIN as a statement = START TRANSACTION only at top level; inside routines handled by block()
            self.i += 1
            return ('start', False)
        if up == 'COMMIT':
            self.i += 1
            return ('commit',)
        if up == 'ROLLBACK':
            self.i += 1
            return ('rollback',)
        raise SqlUnsupported(f'statement {up}')

    def insert(self):
        verb = self.t.up
        if verb == 'REPLACE':
            raise SqlUnsupported('REPLACE')
        self.i += 1
        ignore = bool(self.accept_kw('IGNORE'))
        self.accept_kw('INTO')
        table = self.ident().lower()
        cols = None
        if self.is_op('(') and not self.kw_at(1, 'SELECT', 'WITH'):
            self.i += 1
            cols = [self.ident().lower()]
            while self.accept_op(','):
                cols.append(self.ident().lower())
            self.expect_op(')')
        rows = None
        sel = None
        if self.accept_kw('VALUES', 'VALUE'):
            rows = []
            while True:
                self.expect_op('(')
                r = []
                if not self.is_op(')'):
                    r.append(self.expr())
                    while self.accept_op(','):
                        r.append(self.expr())
                self.expect_op(')')
                rows.append(r)
                if not self.accept_op(','):
                    break
        elif self.is_kw('SELECT', 'WITH') or self.is_op('('):
            sel = self.select()
        else:
            raise self.err('expected VALUES or SELECT')
        odku = None
        if self.accept_kw('AS'):
            raise SqlUnsupported('INSERT ... AS alias')
        if self.accept_kw('ON'):
            self.expect_kw('DUPLICATE')
            self.expect_kw('KEY')
            self.expect_kw('UPDATE')
            odku = []
            while True:
                a = self.ident().lower()
                if self.accept_op('.'):
                    a = self.ident().lower()
                self.expect_op('=')
                odku.append((a, self.expr()))
                if not self.accept_op(','):
                    break
        return ('insert', table, cols, rows, sel, odku, ignore)

    def update(self):
        self.expect_kw('UPDATE')
        refs = self.table_refs()
        self.expect_kw('SET')
        assigns = []
        while True:
            a = self.ident().lower()
            q = None
            if self.accept_op('.'):
                q = a
                a = self.ident().lower()
            self.expect_op('=')
            assigns.append((q, a, self.expr()))
            if not self.accept_op(','):
                break
        where = None
        if self.accept_kw('WHERE'):
            where = self.expr()
        order = None
        if self.accept_kw('ORDER'):
            self.expect_kw('BY')
            order = self.order_list()
        limit = None
        if self.accept_kw('LIMIT'):
            limit = self.expr()
        return ('update', refs, assigns, where, order, limit)

    def delete(self):
        self.expect_kw('DELETE')
        if not self.is_kw('FROM'):
            # DELETE t FROM <table references> [WHERE ...]: rows of the one named table that take part in a matching join row
            target = self.ident().lower()
            if self.is_op(',') or self.is_op('.'):
                raise SqlUnsupported('multi-table DELETE with several / qualified targets')
            self.expect_kw('FROM')
            refs = self.table_refs()
            where = None
            if self.accept_kw('WHERE'):
                where = self.expr()
            if self.is_kw('ORDER', 'LIMIT'):
                raise self.err('ORDER BY / LIMIT are not allowed in a multi-table DELETE')
            return ('delete', target, ('refs', refs), where, None, None)
        self.expect_kw('FROM')
        table = self.ident().lower()
        alias = table
        if self.accept_kw('AS'):
            alias = self.ident().lower()
        where = None
        if self.accept_kw('WHERE'):
            where = self.expr()
        order = None
        if self.accept_kw('ORDER'):
            self.expect_kw('BY')
            order = self.order_list()
        limit = None
        if self.accept_kw('LIMIT'):
            limit = self.expr()
        return ('delete', table, alias, where, order, limit)

    # -- stored programs -------------------------------------------------------------------
    def type_name(self):
        ty = self.ident().upper()
        if self.accept_op('('):
            while not self.accept_op(')'):
                self.i += 1
        self.accept_kw('UNSIGNED')
        if self.accept_kw('CHARACTER'):
            self.expect_kw('SET')
            self.ident()
        if self.accept_kw('COLLATE'):
            self.ident()
        return ty

    def block_stmt(self):
        """One statement inside a routine body."""
        if self.t.kind in ('id', 'qid') and self.peek().kind == 'op' and self.peek().val == ':':
            label = self.t.val.lower()
            self.i += 2
            if self.is_kw('LOOP'):
                return self.loop_stmt(label)
            if self.is_kw('BEGIN'):
                return self.block()
            raise SqlUnsupported('label on ' + str(self.t))
        if self.is_kw('BEGIN'):
            return self.block()
        if self.is_kw('DECLARE'):
            self.i += 1
            if self.kw_at(0, 'CONTINUE', 'EXIT') and self.kw_at(1, 'HANDLER'):
                kind = self.t.up
                self.i += 2
                self.expect_kw('FOR')
                if self.accept_kw('NOT'):
                    self.expect_kw('FOUND')
                    cond = 'NOT FOUND'
                elif self.accept_kw('SQLEXCEPTION'):
                    cond = 'SQLEXCEPTION'
                else:
                    raise SqlUnsupported('handler condition')
                body = self.block_stmt()
                return ('declare_handler', kind, cond, body)
            names = [self.ident().lower()]
            if self.accept_kw('CURSOR'):
                self.expect_kw('FOR')
                sel = self.select()
                return ('declare_cursor', names[0], sel)
            while self.accept_op(','):
                names.append(self.ident().lower())
            ty = self.type_name()
            default = None
            if self.accept_kw('DEFAULT'):
                default = self.expr()
            return ('declare', names, ty, default)
        if self.is_kw('IF') and not (self.peek().kind == 'op' and self.peek().val == '('and False):
            return self.if_stmt()
        if self.is_kw('LEAVE'):
            self.i += 1
            return ('leave', self.ident().lower())
        if self.is_kw('ITERATE'):
            self.i += 1
            return ('iterate', self.ident().lower())
        if self.is_kw('OPEN'):
            self.i += 1
            return ('open', self.ident().lower())
        if self.is_kw('CLOSE'):
            self.i += 1
            return ('close', self.ident().lower())
        if self.is_kw('FETCH'):
            self.i += 1
            self.accept_kw('NEXT')
            self.accept_kw('FROM')
            name = self.ident().lower()
            self.expect_kw('INTO')
            return ('fetch', name, self.into_list())
        if self.is_kw('RETURN'):
            self.i += 1
            return ('return', self.expr())
        if self.is_kw('SIGNAL'):
            self.i += 1
            self.expect_kw('SQLSTATE')
            self.accept_kw('VALUE')
            state = self.t.val
            self.i += 1
            msg = None
            if self.accept_kw('SET'):
                while True:
                    item = self.ident().upper()
                    self.expect_op('=')
                    v = self.expr()
                    if item == 'MESSAGE_TEXT':
                        msg = v
                    if not self.accept_op(','):
                        break
            return ('signal', state, msg)
        if self.is_kw('WHILE'):
            self.i += 1
            cond = self.expr()
            self.expect_kw('DO')
            body = self.stmt_list(('END',))
            self.expect_kw('END')
            self.expect_kw('WHILE')
            return ('while', None, cond, body)
        if self.is_kw('LOOP'):
            return self.loop_stmt(None)
        if self.is_kw('REPEAT'):
            raise SqlUnsupported('REPEAT')
        return self.statement()

    def loop_stmt(self, label):
        self.expect_kw('LOOP')
        body = self.stmt_list(('END',))
        self.expect_kw('END')
        self.expect_kw('LOOP')
        if label and self.t.kind == 'id' and self.t.val.lower() == label:
            self.i += 1
        return ('loop', label, body)

    def if_stmt(self):
        self.expect_kw('IF')
        branches = []
        cond = self.expr()
        self.expect_kw('THEN')
        body = self.stmt_list(('ELSEIF', 'ELSE', 'END'))
        branches.append((cond, body))
        els = None
        while True:
            if self.accept_kw('ELSEIF'):
                c = self.expr()
                self.expect_kw('THEN')
                b = self.stmt_list(('ELSEIF', 'ELSE', 'END'))
                branches.append((c, b))
            elif self.accept_kw('ELSE'):
                els = self.stmt_list(('END',))
            else:
                break
        self.expect_kw('END')
        self.expect_kw('IF')
        return ('if', branches, els)

    def stmt_list(self, stops):
        out = []
        while not self.is_kw(*stops) and self.t.kind != 'eof':
            out.append(self.block_stmt())
            if not self.accept_op(';'):
                if not self.is_kw(*stops) and self.t.kind != 'eof':
                    raise self.err('expected ;')
        return out

    def block(self):
        self.expect_kw('BEGIN')
        body = self.stmt_list(('END',))
        self.expect_kw('END')
        return ('block', body)

    def routine(self):
        """CREATE PROCEDURE|FUNCTION|TRIGGER ... -> dict"""
        self.expect_kw('CREATE')
        if self.accept_kw('DEFINER'):
            raise SqlUnsupported('DEFINER')
        kind = self.expect_kw('PROCEDURE', 'FUNCTION', 'TRIGGER')
        name = self.ident().lower()
        if kind == 'TRIGGER':
            timing = self.expect_kw('BEFORE', 'AFTER')
            event = self.expect_kw('INSERT', 'UPDATE', 'DELETE')
            self.expect_kw('ON')
            table = self.ident().lower()
            self.expect_kw('FOR')
            self.expect_kw('EACH')
            self.expect_kw('ROW')
            body = self.block_stmt()
            return {'kind': 'TRIGGER', 'name': name, 'timing': timing, 'event': event, 'table': table, 'body': body}
        params = []
        self.expect_op('(')
        if not self.is_op(')'):
            while True:
                mode = 'IN'
                if kind == 'PROCEDURE' and self.is_kw('IN', 'OUT', 'INOUT') and self.peek().kind in ('id', 'qid') \
                        and not (self.peek(2).kind == 'op' and self.peek(2).val in (',', ')')):
                    mode = self.t.up
                    self.i += 1
                pname = self.ident().lower()
                ty = self.type_name()
                params.append((mode, pname, ty))
                if not self.accept_op(','):
                    break
        self.expect_op(')')
        returns = None
        if kind == 'FUNCTION':
            self.expect_kw('RETURNS')
            returns = self.type_name()
        while self.is_kw('NOT', 'DETERMINISTIC', 'READS', 'MODIFIES', 'CONTAINS', 'NO', 'SQL', 'LANGUAGE', 'COMMENT'):
            if self.accept_kw('NOT'):
                self.expect_kw('DETERMINISTIC')
            elif self.accept_kw('DETERMINISTIC'):
                pass
            elif self.accept_kw('READS', 'MODIFIES'):
                self.expect_kw('SQL')
                self.expect_kw('DATA')
            elif self.accept_kw('CONTAINS', 'NO'):
                self.expect_kw('SQL')
            elif self.accept_kw('LANGUAGE'):
                self.expect_kw('SQL')
            elif self.accept_kw('COMMENT'):
                self.i += 1
            else:
                break
        body = self.block_stmt()
        return {'kind': kind, 'name': name, 'params': params, 'returns': returns, 'body': body}


def parse_statement(sql):
    p = P(sql)
    st = p.statement()
    p.accept_op(';')
    if p.t.kind != 'eof':
        raise p.err('trailing input after statement')
    return st, p.nparams


def parse_routine(sql):
    p = P(sql)
    r = p.routine()
    p.accept_op(';')
    if p.t.kind != 'eof':
        raise p.err('trailing input after routine')
    return r
