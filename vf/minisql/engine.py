"""Executor for the MySQL subset: store, expressions, queries, DML, stored programs, triggers.

Semantics decided deliberately are listed in DESIGN.md §2.1.  Anything outside the subset raises
SqlUnsupported (harness gap), never a silent skip.
"""
from __future__ import annotations

import datetime
import decimal
import json
import math
import re
import unicodedata
from typing import Any, Dict, List, Optional

from .lexer import SqlSyntaxError, SqlUnsupported
from .parser import P, parse_routine, parse_statement


def _err(errno, msg):
    import pymysql.err as pe

    return pe.make_error(errno, msg)


class CSStr(str):
    """A string value with a case-sensitive collation (…_cs / binary columns)."""


class JsonVal:
    __slots__ = ('v',)

    def __init__(self, v):
        self.v = v

    def __eq__(self, o):
        return isinstance(o, JsonVal) and o.v == self.v

    def __hash__(self):
        return hash(json.dumps(self.v, sort_keys=True))

    def dumps(self):
        return json.dumps(self.v, separators=(', ', ': '), ensure_ascii=False)

    def __repr__(self):
        return f'JsonVal({self.v!r})'


class ColName(str):
    """Output column name remembering the table alias it came from (pymysql DictCursor de-duplication)."""

    table = None


def _cn(name, table):
    c = ColName(name)
    c.table = table
    return c


class Dec(int):
    """An integer-valued DECIMAL (result of SUM over integers): delivered to Python as decimal.Decimal."""


def _fold(s: str) -> str:
    # utf8mb4_0900_ai_ci: accent- and case-insensitive, NO PAD
    if s.isascii():
        return s.lower()
    d = unicodedata.normalize('NFD', s)
    return ''.join(c for c in d if unicodedata.category(c) != 'Mn').casefold()


def _num(v):
    """MySQL string -> number conversion (leading numeric prefix, else 0)."""
    if isinstance(v, (int, float)):
        return v
    if isinstance(v, decimal.Decimal):
        return v
    if isinstance(v, str):
        m = re.match(r'\s*[-+]?(\d+\.?\d*([eE][-+]?\d+)?|\.\d+)', v)
        if not m:
            return 0
        t = m.group(0)
        try:
            return int(t)
        except ValueError:
            return float(t)
    if isinstance(v, (datetime.date,)):
        return int(v.strftime('%Y%m%d'))
    raise SqlUnsupported(f'numeric conversion of {type(v).__name__}')


def cmp_values(a, b):
    """Three-way compare following MySQL's comparison rules; None if either is NULL."""
    if a is None or b is None:
        return None
    if isinstance(a, bool):
        a = int(a)
    if isinstance(b, bool):
        b = int(b)
    sa, sb = isinstance(a, str), isinstance(b, str)
    if sa and sb:
        if isinstance(a, CSStr) or isinstance(b, CSStr):
            x, y = str(a), str(b)
        else:
            x, y = _fold(a), _fold(b)
        return (x > y) - (x < y)
    da, db = isinstance(a, datetime.date), isinstance(b, datetime.date)
    if da or db:
        if sa:
            a = datetime.date.fromisoformat(a[:10])
        if sb:
            b = datetime.date.fromisoformat(b[:10])
        if isinstance(a, datetime.date) and isinstance(b, datetime.date):
            ta, tb = isinstance(a, datetime.datetime), isinstance(b, datetime.datetime)
            if ta != tb:  # DATE vs DATETIME: the DATE is taken at 00:00:00
                if not ta:
                    a = datetime.datetime(a.year, a.month, a.day)
                else:
                    b = datetime.datetime(b.year, b.month, b.day)
            return (a > b) - (a < b)
    if isinstance(a, JsonVal) or isinstance(b, JsonVal):
        x = a.v if isinstance(a, JsonVal) else a
        y = b.v if isinstance(b, JsonVal) else b
        if isinstance(x, bool):
            x = int(x)
        if isinstance(y, bool):
            y = int(y)
        if type(x) is type(y) or (isinstance(x, (int, float)) and isinstance(y, (int, float))):
            return (x > y) - (x < y)
        return 0 if x == y else 1
    x, y = _num(a), _num(b)
    return (x > y) - (x < y)


def truth(v):
    """SQL truth value: None (unknown) / True / False."""
    if v is None:
        return None
    if isinstance(v, str):
        return _num(v) != 0
    if isinstance(v, JsonVal):
        return bool(v.v)
    return v != 0


class Col:
    __slots__ = ('name', 'type', 'notnull', 'default', 'has_default', 'auto', 'cs')

    def __init__(self, name, type_, notnull=False, default=None, has_default=False, auto=False, cs=False):
        self.name = name
        self.type = type_
        self.notnull = notnull
        self.default = default
        self.has_default = has_default
        self.auto = auto
        self.cs = cs


INT_TYPES = {'INT', 'INTEGER', 'BIGINT', 'SMALLINT', 'TINYINT', 'MEDIUMINT', 'BOOLEAN', 'BOOL', 'SIGNED', 'UNSIGNED'}
STR_TYPES = {'VARCHAR', 'CHAR', 'TEXT', 'MEDIUMTEXT', 'LONGTEXT', 'TINYTEXT', 'ENUM', 'BLOB', 'MEDIUMBLOB', 'LONGBLOB', 'VARBINARY'}
FLOAT_TYPES = {'DOUBLE', 'FLOAT', 'REAL'}


def coerce(value, type_, cs=False, colname='?'):
    """Assignment conversion to a column / variable type."""
    if value is None:
        return None
    t = type_
    if t in INT_TYPES:
        if isinstance(value, bool):
            return int(value)
        if isinstance(value, int):
            return int(value)
        if isinstance(value, float):
            return int(math.floor(value + 0.5)) if value >= 0 else -int(math.floor(-value + 0.5))
        if isinstance(value, decimal.Decimal):
            return int(value.to_integral_value(rounding=decimal.ROUND_HALF_UP))
        if isinstance(value, str):
            m = re.fullmatch(r'\s*[-+]?\d+\s*', value)
            if m:
                return int(value)
            m = re.fullmatch(r'\s*[-+]?(\d+\.?\d*([eE][-+]?\d+)?|\.\d+)\s*', value)
            if m:
                return coerce(float(value), t)
            raise _err(1366, f"Incorrect integer value: '{value}' for column '{colname}'")
        if isinstance(value, JsonVal):
            return coerce(value.v, t, cs, colname)
        raise SqlUnsupported(f'coerce {type(value).__name__} to {t}')
    if t in STR_TYPES or t == 'JSON':
        if isinstance(value, JsonVal):
            value = value.dumps()
        elif isinstance(value, bool):
            value = str(int(value))
        elif isinstance(value, (int, float, decimal.Decimal)):
            value = str(value)
        elif isinstance(value, datetime.date):
            value = value.isoformat()
        elif isinstance(value, (bytes, bytearray)):
            value = bytes(value).decode('utf-8')
        if not isinstance(value, str):
            raise SqlUnsupported(f'coerce {type(value).__name__} to {t}')
        return CSStr(value) if cs else (str(value) if type(value) is not str else value)
    if t in FLOAT_TYPES or t in ('DECIMAL', 'NUMERIC'):
        return float(_num(value))
    if t == 'DATE':
        if isinstance(value, datetime.datetime):
            return value.date()
        if isinstance(value, datetime.date):
            return value
        if isinstance(value, str):
            return datetime.date.fromisoformat(value[:10])
        raise SqlUnsupported(f'coerce {type(value).__name__} to DATE')
    if t in ('TIMESTAMP', 'DATETIME'):
        return value
    raise SqlUnsupported(f'column type {t}')


class Table:
    def __init__(self, name):
        self.name = name
        self.cols: List[Col] = []
        self.colmap: Dict[str, Col] = {}
        self.pk: tuple = ()
        self.uniques: List[tuple] = []
        self.rows: Dict[tuple, dict] = {}
        self.auto_next = 1
        self.rowid_next = 1

    def add_col(self, c: Col):
        if c.name in self.colmap:
            return
        self.cols.append(c)
        self.colmap[c.name] = c

    def key_of(self, row):
        if self.pk:
            return tuple(self._knorm(row[c], self.colmap[c]) for c in self.pk)
        return None

    @staticmethod
    def _knorm(v, col):
        if isinstance(v, str) and not col.cs:
            return _fold(v)
        return v

    def ukey(self, cols, row):
        vals = tuple(self._knorm(row[c], self.colmap[c]) for c in cols)
        if any(v is None for v in vals):
            return None
        return vals

    def scan(self):
        if self.pk:
            try:
                return [self.rows[k] for k in sorted(self.rows)]
            except TypeError:
                return list(self.rows.values())
        return list(self.rows.values())


class Store:
    def __init__(self):
        self.tables: Dict[str, Table] = {}

    def clone_data(self):
        return {n: ({k: dict(r) for k, r in t.rows.items()}, t.auto_next, t.rowid_next) for n, t in self.tables.items()}

    def restore_data(self, data):
        for n, t in self.tables.items():
            rows, a, r = data[n]
            t.rows = {k: dict(row) for k, row in rows.items()}
            t.auto_next = a
            t.rowid_next = r

    def dump(self, drop=()):
        """Canonical plain-python dump: {table: sorted list of row tuples}."""
        out = {}
        for n, t in self.tables.items():
            if not t.rows:
                continue
            names = [c.name for c in t.cols if (n, c.name) not in drop and c.name not in drop]
            out[n] = sorted((tuple(_plain(r[c]) for c in names) for r in t.rows.values()), key=repr)
        return out


def _plain(v):
    if isinstance(v, str):
        return str(v)
    if isinstance(v, Dec):
        return int(v)
    if isinstance(v, JsonVal):
        return v.dumps()
    if isinstance(v, datetime.date):
        return v.isoformat()
    return v


# ---------------------------------------------------------------------------------------------
# DDL (lightweight, tolerant)
# ---------------------------------------------------------------------------------------------

def _split_top(s, sep=','):
    parts, depth, cur, q = [], 0, [], None
    i = 0
    while i < len(s):
        c = s[i]
        if q:
            cur.append(c)
            if c == '\\' and q != '`':
                cur.append(s[i + 1])
                i += 1
            elif c == q:
                q = None
        elif c in ('"', "'", '`'):
            q = c
            cur.append(c)
        elif c == '(':
            depth += 1
            cur.append(c)
        elif c == ')':
            depth -= 1
            cur.append(c)
        elif c == sep and depth == 0:
            parts.append(''.join(cur))
            cur = []
        else:
            cur.append(c)
        i += 1
    if ''.join(cur).strip():
        parts.append(''.join(cur))
    return parts


def _strip_comments(s):
    out = []
    for line in s.split('\n'):
        q = None
        res = []
        i = 0
        while i < len(line):
            c = line[i]
            if q:
                res.append(c)
                if c == q:
                    q = None
            elif c in ('"', "'", '`'):
                q = c
                res.append(c)
            elif c == '#' or line[i : i + 3] == '-- ':
                break
            else:
                res.append(c)
            i += 1
        out.append(''.join(res))
    return '\n'.join(out)


_ID = r'`?(\w+)`?'


def _parse_default(txt):
    t = txt.strip()
    up = t.upper()
    if up == 'NULL':
        return None
    if up in ('TRUE',):
        return 1
    if up in ('FALSE',):
        return 0
    if up.startswith('CURRENT_TIMESTAMP'):
        return None
    if t[0] in "'\"":
        return t[1:-1]
    try:
        return int(t)
    except ValueError:
        return float(t)


def _parse_coldef(defn) -> Optional[Col]:
    m = re.match(r'\s*' + _ID + r'\s+(\w+)\s*(\([^)]*\))?(.*)$', defn, re.S)
    if not m:
        raise SqlSyntaxError(f'cannot parse column definition {defn!r}')
    name, ty, _, rest = m.group(1).lower(), m.group(2).upper(), m.group(3), m.group(4)
    up = rest.upper()
    notnull = bool(re.search(r'\bNOT\s+NULL\b', up))
    auto = 'AUTO_INCREMENT' in up
    cs = bool(re.search(r'COLLATE\s+\w*(_CS|_BIN)\b', up)) or ty in ('VARBINARY', 'BLOB')
    has_default = False
    default = None
    dm = re.search(r"\bDEFAULT\s+('(?:[^']*)'|\"(?:[^\"]*)\"|[-\w.]+(?:\(\))?)", rest, re.I)
    if dm:
        has_default = True
        default = _parse_default(dm.group(1))
    return Col(name, ty, notnull, default, has_default, auto, cs)


def create_table(store: Store, stmt: str):
    stmt = _strip_comments(stmt)
    m = re.match(r'\s*CREATE\s+TABLE\s+(?:IF\s+NOT\s+EXISTS\s+)?' + _ID + r'\s*\((.*)\)[^)]*$', stmt, re.S | re.I)
    if not m:
        raise SqlSyntaxError(f'cannot parse CREATE TABLE: {stmt[:80]!r}')
    t = Table(m.group(1).lower())
    for part in _split_top(m.group(2)):
        p = part.strip()
        if not p:
            continue
        up = p.upper()
        # tolerate a missing comma before a table-level PRIMARY KEY (estimated-current.sql has one)
        pm = re.search(r'\bPRIMARY\s+KEY\s*\(([^)]*)\)', p, re.I)
        if pm and not up.startswith('PRIMARY'):
            t.pk = tuple(x.strip().strip('`').lower() for x in pm.group(1).split(','))
            p = p[: pm.start()]
            up = p.upper()
        if up.startswith('PRIMARY KEY'):
            t.pk = tuple(re.sub(r'\(\d+\)', '', x).strip().strip('`').lower() for x in pm.group(1).split(','))
            continue
        if up.startswith('UNIQUE'):
            um = re.search(r'\(([^)]*)\)\s*$', p)
            t.uniques.append(tuple(re.sub(r'\(\d+\)', '', x).strip().strip('`').lower() for x in um.group(1).split(',')))
            continue
        if re.match(r'(FOREIGN\s+KEY|KEY|INDEX|CONSTRAINT|FULLTEXT|CHECK)\b', up):
            continue
        c = _parse_coldef(p)
        t.add_col(c)
        if re.search(r'\bUNIQUE\b', up):
            t.uniques.append((c.name,))
        if re.search(r'\bPRIMARY\s+KEY\b', up) and not t.pk:
            t.pk = (c.name,)
    store.tables[t.name] = t
    return t


def apply_alter(store: Store, stmt: str):
    """Idempotent overlay of ADD COLUMN / MODIFY COLUMN NOT NULL from a migration ALTER TABLE."""
    stmt = _strip_comments(stmt)
    m = re.match(r'\s*ALTER\s+TABLE\s+' + _ID + r'\s+(.*)$', stmt, re.S | re.I)
    if not m:
        return
    t = store.tables.get(m.group(1).lower())
    if t is None:
        return
    for action in _split_top(m.group(2)):
        a = action.strip()
        am = re.match(r'ADD\s+(?:COLUMN\s+)?(?!PRIMARY|FOREIGN|INDEX|KEY|UNIQUE|CONSTRAINT|FULLTEXT)(.*)$', a, re.S | re.I)
        if am:
            try:
                c = _parse_coldef(am.group(1))
            except SqlSyntaxError:
                continue
            if c.name not in t.colmap:
                t.add_col(c)
                for row in t.rows.values():
                    row[c.name] = c.default
            continue
        cm = re.match(r'CHANGE\s+(?:COLUMN\s+)?`?(\w+)`?\s+(.*)$', a, re.S | re.I)
        if cm:
            old = cm.group(1).lower()
            try:
                c = _parse_coldef(cm.group(2))
            except SqlSyntaxError:
                continue
            if old in t.colmap and old != c.name:
                if c.name in t.colmap:
                    t.cols = [x for x in t.cols if x.name != old]
                    del t.colmap[old]
                else:
                    oc = t.colmap.pop(old)
                    oc.name = c.name
                    t.colmap[c.name] = oc
            continue
        dm = re.match(r'DROP\s+(?:COLUMN\s+)?(?!PRIMARY|FOREIGN|INDEX|KEY|CONSTRAINT)`?(\w+)`?\s*$', a, re.S | re.I)
        if dm:
            n = dm.group(1).lower()
            if n in t.colmap and n not in t.pk:
                t.cols = [c for c in t.cols if c.name != n]
                del t.colmap[n]


# ---------------------------------------------------------------------------------------------
# Sessions, frames, environments
# ---------------------------------------------------------------------------------------------

class _Leave(Exception):
    def __init__(self, label):
        self.label = label


class _Iterate(Exception):
    def __init__(self, label):
        self.label = label


class _Return(Exception):
    def __init__(self, value):
        self.value = value


class Frame:
    """Activation record of a stored program."""

    def __init__(self, kind, name):
        self.kind = kind
        self.name = name
        self.vars: Dict[str, Any] = {}
        self.types: Dict[str, str] = {}
        self.cursors: Dict[str, Any] = {}
        self.handlers: Dict[str, Any] = {}
        self.new: Optional[dict] = None
        self.old: Optional[dict] = None
        self.new_table: Optional[Table] = None


class Scope:
    """Name-resolution scope of one query block."""

    __slots__ = ('parent', 'meta', 'binding', 'group', 'aliases', 'ctes', 'rn', 'lock')

    def __init__(self, parent=None):
        self.lock = None  # txmodel only: row-lock mode of this query block ('S' | 'X' | 'U' = UPDATE/DELETE targets X, others S)
        self.parent = parent
        self.meta: Dict[str, List[str]] = {}  # alias -> column names
        self.binding: Dict[str, Optional[dict]] = {}
        self.group = None  # list of bindings while evaluating aggregates
        self.aliases = None  # select-list alias -> value (HAVING / ORDER BY)
        self.ctes: Dict[str, Any] = {}
        self.rn = None


class Database:
    """Catalog + store shared by all sessions."""

    def __init__(self):
        self.store = Store()
        self.routines: Dict[str, dict] = {}
        self.triggers: Dict[tuple, List[dict]] = {}
        self.stmt_cache: Dict[str, Any] = {}
        # seams (answers chosen by the harness)
        self.rand = lambda: 0.0
        self.utc_date = lambda: datetime.date(2024, 1, 1)
        self.now_ms = lambda: 0
        self.writer = None
        self.locks = {}
        self.row_observer = None  # callable(table_name, old_row, new_row) on every row change by UPDATE
        self.coverage: Dict[str, int] = {}
        self.read_cols = None  # set() to record column reads (canonicaliser soundness check)
        # optional transaction model (vf.txmc.TxModel): statement-level yield points, row locks, read views.
        # None (the default) = every hook below is skipped and transactions are atomic steps.
        self.txmodel = None

    def add_routine(self, src):
        r = parse_routine(src)
        if r['kind'] == 'TRIGGER':
            key = (r['table'], r['timing'], r['event'])
            lst = [x for x in self.triggers.get(key, []) if x['name'] != r['name']]
            lst.append(r)
            self.triggers[key] = lst
        self.routines[r['name']] = r
        return r

    def session(self):
        s = Session(self)
        if self.txmodel is not None:
            self.txmodel.attach(s)
        return s


def load_database(repo) -> Database:
    from pathlib import Path

    from . import catalog

    repo = Path(repo)
    db = Database()
    creates, alters = catalog.table_statements(repo)
    for c in creates:
        create_table(db.store, c)
    for _, a in alters:
        apply_alter(db.store, a)
    db.routine_sources = {}
    for name, (kind, src, fname) in catalog.deployed_routines(repo).items():
        db.add_routine(src)
        db.routine_sources[name] = fname
    return db


AGG_FUNCS = {'SUM', 'COUNT', 'MIN', 'MAX', 'AVG', 'JSON_OBJECTAGG', 'JSON_ARRAYAGG', 'GROUP_CONCAT', 'BIT_OR', 'BIT_AND'}


def has_agg(node) -> bool:
    if isinstance(node, tuple):
        if not node:
            return False
        tag = node[0]
        if tag == 'func' and node[1] in AGG_FUNCS:
            return True
        if tag in ('subq', 'exists'):
            return False
        if tag == 'in' and isinstance(node[2], tuple) and node[2][0] == 'subq':
            return has_agg(node[1])
        return any(has_agg(x) for x in node[1:])
    if isinstance(node, list):
        return any(has_agg(x) for x in node)
    return False


def has_window(node) -> bool:
    if isinstance(node, tuple):
        if node and node[0] == 'window':
            return True
        if node and node[0] in ('subq', 'exists'):
            return False
        return any(has_window(x) for x in node[1:])
    if isinstance(node, list):
        return any(has_window(x) for x in node)
    return False


def is_decimal_expr(node, colkinds=None) -> bool:
    """Static approximation of 'MySQL types this expression as DECIMAL' (SUM of integers and arithmetic on it)."""
    if not isinstance(node, tuple) or not node:
        return False
    tag = node[0]
    if tag == 'func':
        name = node[1]
        if name in ('SUM', 'AVG'):
            # SUM / AVG over a DOUBLE-typed argument is DOUBLE, not DECIMAL (e.g. SUM(`usage` * rate), rate DOUBLE)
            return not (node[2] and is_double_expr(node[2][0], colkinds))
        if name in ('COALESCE', 'IFNULL', 'GREATEST', 'LEAST'):
            if any(is_double_expr(a, colkinds) for a in node[2]):
                return False   # DOUBLE wins over DECIMAL / INT in MySQL's result-type aggregation
            return any(is_decimal_expr(a, colkinds) for a in node[2])
        if name == 'IF':
            return any(is_decimal_expr(a, colkinds) for a in node[2][1:])
        return False
    if tag == 'bin' and node[1] in ('+', '-', '*'):
        return is_decimal_expr(node[2], colkinds) or is_decimal_expr(node[3], colkinds)
    if tag == 'bin' and node[1] == '/':
        return False
    if tag == 'un':
        return is_decimal_expr(node[2], colkinds)
    if tag == 'assign':
        return is_decimal_expr(node[2], colkinds)
    if tag == 'case':
        return any(is_decimal_expr(th, colkinds) for _, th in node[2]) or is_decimal_expr(node[3], colkinds)
    if tag == 'col' and colkinds:
        return colkinds.get((node[1], node[2]), False) or (node[1] is None and colkinds.get(('*', node[2]), False))
    return False


def is_double_expr(node, colkinds=None) -> bool:
    """Static approximation of 'MySQL types this expression as DOUBLE' (a DOUBLE column or float literal is involved)."""
    if not isinstance(node, tuple) or not node:
        return False
    tag = node[0]
    if tag == 'lit':
        return isinstance(node[1], float)
    if tag == 'col' and colkinds:
        return colkinds.get(('dbl', node[1], node[2]), False) or (node[1] is None and colkinds.get(('dbl', '*', node[2]), False))
    if tag == 'bin' and node[1] in ('+', '-', '*', '/'):
        return is_double_expr(node[2], colkinds) or is_double_expr(node[3], colkinds)
    if tag in ('un', 'assign'):
        return is_double_expr(node[2], colkinds)
    if tag == 'func':
        name = node[1]
        if name in ('SUM', 'AVG', 'MIN', 'MAX', 'COALESCE', 'IFNULL', 'GREATEST', 'LEAST'):
            return any(is_double_expr(a, colkinds) for a in node[2])
        if name == 'IF':
            return any(is_double_expr(a, colkinds) for a in node[2][1:])
    return False


class Session:
    def __init__(self, db: Database):
        self.db = db
        self.uservars: Dict[str, Any] = {}
        self.frames: List[Frame] = []
        self.in_tx = False
        self.undo: List[tuple] = []
        self.held = set()
        self.row_count = -1
        self.last_insert_id = 0
        self.result_sets: List[Any] = []
        self.depth = 0
        self.dml_mode = None  # txmodel only: 'S' while a DML statement evaluates its own query blocks

    # -- transactions / undo ------------------------------------------------------------
    def _log(self, entry):
        """Record an undo entry and take the row 'lock'.  Two sessions may have uncommitted writes at the same time
        as long as they touch different rows (InnoDB would let both proceed); touching a row another open
        transaction has written would block in InnoDB, which is not modelled -> harness gap."""
        if entry[0] in ('ins', 'upd', 'del') and self.db.txmodel is None:
            locks = self.db.locks
            keys = [(entry[1], entry[2])] + ([(entry[1], entry[3])] if entry[0] == 'upd' else [])
            for k in keys:
                holder = locks.get(k)
                if holder is not None and holder is not self and holder.undo:
                    raise SqlUnsupported(f'row {k} written by two open transactions: row-lock waits are not modelled')
                locks[k] = self
                self.held.add(k)
        self.undo.append(entry)

    def _release(self):
        if self.db.txmodel is not None:  # txmodel hook: transaction end
            self.db.txmodel.release(self)
            return
        locks = self.db.locks
        for k in self.held:
            if locks.get(k) is self:
                del locks[k]
        self.held.clear()

    def _undo_to(self, mark):
        tables = self.db.store.tables
        while len(self.undo) > mark:
            e = self.undo.pop()
            op = e[0]
            if op == 'ins':
                tables[e[1]].rows.pop(e[2], None)
            elif op == 'upd':
                t = tables[e[1]]
                t.rows.pop(e[3], None)
                t.rows[e[2]] = e[4]
            elif op == 'del':
                tables[e[1]].rows[e[2]] = e[3]
            elif op == 'auto':
                tables[e[1]].auto_next = e[2]
            elif op == 'rowid':
                tables[e[1]].rowid_next = e[2]

    def begin(self, read_only=False):
        if self.in_tx:
            self.commit()
        self.in_tx = True
        self.undo = []

    def commit(self):
        self.in_tx = False
        self.undo = []
        self._release()

    def rollback(self):
        self._undo_to(0)
        self.in_tx = False
        self._release()

    # -- entry points ------------------------------------------------------------------------
    def _parse(self, sql):
        c = self.db.stmt_cache.get(sql)
        if c is None:
            c = parse_statement(sql)
            self.db.stmt_cache[sql] = c
        return c

    def execute(self, sql: str, args=None):
        """Returns (rowcount, rows|None, lastrowid).  rows are dicts in pymysql DictCursor shape."""
        st, args = self._prepare(sql, args)
        return self.run_top(st, args)

    def _prepare(self, sql, args):
        """-> (statement node, arguments) as run_top takes them (split out of execute so that vf.txmc can drive the same
        statement step by step)."""
        st, nparams = self._parse(sql)
        if args is not None and not isinstance(args, (tuple, list, dict)):
            args = (args,)
        if isinstance(args, (tuple, list)) and nparams != len(args):
            # %s inside a string literal etc.: fall back to literal substitution exactly as pymysql does
            from pymysql.converters import escape_item

            lit = sql % tuple(escape_item(a) for a in args)
            st, nparams = self._parse(lit)
            args = None
        return st, args

    def run_top(self, st, args):
        implicit = self._top_begin(args)
        try:
            if self.db.txmodel is not None:  # txmodel hook: top-level statement
                self.db.txmodel.run_stmt(self, st, None)
            else:
                self.exec_stmt(st, None)
        except (_Leave, _Return, _Iterate):
            raise SqlSyntaxError('LEAVE/RETURN outside routine')
        except Exception:
            self._top_abort(implicit)
            raise
        return self._top_end(implicit)

    # run_top in three parts (begin / abort / end) so that vf.txmc's step-by-step driver shares them
    def _top_begin(self, args):
        self.result_sets = []
        self.args = args
        implicit = not self.in_tx
        self.last_rowcount = 0
        self.stmt_lastrowid = None
        return implicit

    def _top_abort(self, implicit):
        # each DML statement has already undone its own effects (statement-level atomicity, InnoDB);
        # the transaction stays open
        self.frames = []
        if implicit and not self.in_tx:
            self.undo = []
            self._release()

    def _top_end(self, implicit):
        if implicit and not self.in_tx:
            self.undo = []
            self._release()
        rows = None
        if self.result_sets:
            names, data, deckinds = self.result_sets[0]
            rows = [self._out_row(names, r, deckinds) for r in data]
            rc = len(rows)
        else:
            rc = self.last_rowcount
        return rc, rows, self.stmt_lastrowid if self.stmt_lastrowid is not None else 0

    def _out_row(self, names, r, deckinds):
        d = {}
        for i, (n, v) in enumerate(zip(names, r)):
            key = str(n)
            if key in d:
                t = getattr(n, 'table', None)
                key = f'{t}.{key}' if t else f'{key}#{i}'   # (unaliased expressions: MySQL would name them by their text)
            d[key] = self._out_val(v, deckinds[i] if deckinds else False)
        return d

    @staticmethod
    def _out_val(v, dec):
        if v is None:
            return None
        if isinstance(v, Dec) or (dec and isinstance(v, int) and not isinstance(v, bool)):
            return decimal.Decimal(int(v))
        if isinstance(v, CSStr):
            return str(v)
        if isinstance(v, JsonVal):
            return v.dumps()
        if isinstance(v, bool):
            return int(v)
        return v

    def execute_bulk_insert(self, prefix, values_tmpl, postfix, args_list):
        """aiomysql executemany fast path: one multi-row INSERT statement."""
        st2, flat = self._prepare_bulk(prefix, values_tmpl, postfix, args_list)
        rc, _, lid = self.run_top(st2, flat)
        return rc, lid

    def _prepare_bulk(self, prefix, values_tmpl, postfix, args_list):
        n = values_tmpl.count('%s')
        key = ('bulk', prefix, values_tmpl, postfix)
        c = self.db.stmt_cache.get(key)
        if c is None:
            c = parse_statement(prefix + values_tmpl + postfix)
            self.db.stmt_cache[key] = c
        st, _ = c
        assert st[0] == 'insert' and st[3] is not None and len(st[3]) == 1
        rowt = st[3][0]
        rows = []
        flat = []
        for a in args_list:
            a = tuple(a)
            if len(a) != n:
                raise TypeError('not all arguments converted during string formatting')
            base = len(flat)
            flat.extend(a)
            rows.append([self._shift_params(e, base) for e in rowt])
        st2 = ('insert', st[1], st[2], rows, None, st[5], st[6])
        return st2, tuple(flat)

    def _shift_params(self, e, base):
        if isinstance(e, tuple):
            if e and e[0] == 'param' and isinstance(e[1], int):
                return ('param', e[1] + base)
            return tuple(self._shift_params(x, base) for x in e)
        if isinstance(e, list):
            return [self._shift_params(x, base) for x in e]
        return e

    # -- coverage -------------------------------------------------------------------------------
    def cov(self, key):
        c = self.db.coverage
        c[key] = c.get(key, 0) + 1

    # -- statements ------------------------------------------------------------------------------
    def exec_stmt(self, st, scope):
        tag = st[0]
        if tag == 'select':
            sel = st[1]
            into = sel.get('into') if sel.get('kind') == 'select' else None
            names, rows, deck = self.run_select(sel, scope)
            if into:
                rows = list(rows)
                if len(rows) > 1:
                    raise _err(1172, 'Result consisted of more than one row')
                if not rows:
                    self._not_found()
                    return
                for target, v in zip(into, rows[0]):
                    self._assign_target(target, v)
            else:
                self.result_sets.append((names, list(rows), deck))
            return
        if tag in ('insert', 'update', 'delete'):
            mark = len(self.undo)
            depth = len(self.frames)
            try:
                if tag == 'insert':
                    return self.exec_insert(st, scope)
                if tag == 'update':
                    return self.exec_update(st, scope)
                return self.exec_delete(st, scope)
            except BaseException:
                self._undo_to(mark)
                del self.frames[depth:]
                raise
        if tag == 'call':
            return self.exec_call(st, scope)
        if tag == 'set':
            for target, e in st[1]:
                v = self.ev(e, scope)
                if target[0] == 'field':
                    self._set_field(target[1], target[2], v)
                else:
                    self._assign_target(target, v)
            return
        if tag == 'start':
            self.begin(st[1])
            return
        if tag == 'commit':
            self.commit()
            return
        if tag == 'rollback':
            self.rollback()
            return
        if tag == 'block':
            return self.exec_block(st[1], scope)
        if tag == 'declare':
            f = self.frames[-1]
            for n in st[1]:
                f.types[n] = st[2]
                f.vars[n] = coerce(self.ev(st[3], scope), st[2]) if st[3] is not None else None
            return
        if tag == 'declare_cursor':
            self.frames[-1].cursors[st[1]] = {'sel': st[2], 'rows': None, 'pos': 0}
            return
        if tag == 'declare_handler':
            self.frames[-1].handlers[st[2]] = (st[1], st[3])
            return
        if tag == 'if':
            for cond, body in st[1]:
                if truth(self.ev(cond, scope)):
                    self.cov(f'{self._where()}:if@{id(cond) % 100000}:T')
                    return self.exec_list(body, scope)
            if st[2] is not None:
                return self.exec_list(st[2], scope)
            return
        if tag == 'loop':
            while True:
                try:
                    self.exec_list(st[2], scope)
                except _Leave as l:
                    if l.label == st[1]:
                        return
                    raise
                except _Iterate as l:
                    if l.label == st[1]:
                        continue
                    raise
        if tag == 'while':
            while truth(self.ev(st[2], scope)):
                self.exec_list(st[3], scope)
            return
        if tag == 'leave':
            raise _Leave(st[1])
        if tag == 'iterate':
            raise _Iterate(st[1])
        if tag == 'open':
            cur = self._cursor(st[1])
            _, rows, _ = self.run_select(cur['sel'], scope)
            cur['rows'] = list(rows)
            cur['pos'] = 0
            return
        if tag == 'close':
            self._cursor(st[1])['rows'] = None
            return
        if tag == 'fetch':
            cur = self._cursor(st[1])
            if cur['rows'] is None:
                raise _err(1326, 'Cursor is not open')
            if cur['pos'] >= len(cur['rows']):
                self._not_found(fetch=True)
                return
            row = cur['rows'][cur['pos']]
            cur['pos'] += 1
            for target, v in zip(st[2], row):
                self._assign_target(target, v)
            return
        if tag == 'return':
            raise _Return(self.ev(st[1], scope))
        if tag == 'signal':
            msg = self.ev(st[2], scope) if st[2] is not None else 'Unhandled user-defined exception condition'
            raise _err(1644, msg)
        raise SqlUnsupported(f'statement node {tag}')

    def _where(self):
        return self.frames[-1].name if self.frames else 'top'

    def exec_list(self, stmts, scope):
        tm = self.db.txmodel
        if tm is not None:  # txmodel hook: yield point / lock-wait retry around each statement of a routine body
            for s in stmts:
                tm.run_stmt(self, s, scope)
            return
        for s in stmts:
            self.exec_stmt(s, scope)

    def exec_block(self, stmts, scope):
        self.exec_list(stmts, scope)

    def _cursor(self, name):
        for f in reversed(self.frames):
            if name in f.cursors:
                return f.cursors[name]
        raise _err(1324, f'Undefined CURSOR: {name}')

    def _not_found(self, fetch=False):
        if self.frames:
            h = self.frames[-1].handlers.get('NOT FOUND')
            if h is not None:
                kind, body = h
                self.exec_stmt(body, None)
                if kind == 'EXIT':
                    raise SqlUnsupported('EXIT handler')
                return
        if fetch:
            raise _err(1329, 'No data - zero rows fetched, selected, or processed')
        # SELECT ... INTO with no row: warning 1329, variables unchanged

    def _assign_target(self, target, v):
        kind, name = target
        if kind == 'uvar':
            self.uservars[name] = v
            return
        for f in reversed(self.frames[-1:]):
            if name in f.types or name in f.vars:
                ty = f.types.get(name)
                f.vars[name] = coerce(v, ty) if ty else v
                return
        raise _err(1327, f'Undeclared variable: {name}')

    def _set_field(self, q, name, v):
        f = self.frames[-1] if self.frames else None
        if f is None or q not in ('new',):
            raise SqlUnsupported(f'SET {q}.{name}')
        if f.new is None:
            raise _err(1362, 'Updating of NEW row is not allowed in after trigger')
        col = f.new_table.colmap[name]
        f.new[name] = coerce(v, col.type, col.cs, name)

    # -- routines -----------------------------------------------------------------------------------
    def exec_call(self, st, scope):
        r, f, outs = self._call_enter(st, scope)
        self.frames.append(f)
        try:
            self.exec_stmt(r['body'], None)
        except _Leave:
            pass
        finally:
            self.frames.pop()
        for pname, tgt in outs:
            self._assign_target(tgt, f.vars[pname])

    def _call_enter(self, st, scope):
        """Argument binding of CALL: -> (routine, new frame, OUT bindings); shared with vf.txmc's step-by-step driver."""
        name, argexprs = st[1], st[2]
        r = self.db.routines.get(name)
        if r is None or r['kind'] != 'PROCEDURE':
            raise _err(1305, f'PROCEDURE {name} does not exist')
        if len(argexprs) != len(r['params']):
            raise _err(1318, f'Incorrect number of arguments for PROCEDURE {name}; expected {len(r["params"])}, got {len(argexprs)}')
        f = Frame('PROCEDURE', name)
        outs = []
        for (mode, pname, ty), e in zip(r['params'], argexprs):
            f.types[pname] = ty
            if mode == 'IN':
                f.vars[pname] = coerce(self.ev(e, scope), ty)
            else:
                if e[0] == 'uvar':
                    tgt = ('uvar', e[1])
                elif e[0] == 'col' and e[1] is None:
                    tgt = ('var', e[2])
                else:
                    raise _err(1414, f'OUT or INOUT argument for routine {name} is not a variable')
                f.vars[pname] = coerce(self.ev(e, scope), ty) if mode == 'INOUT' else None
                outs.append((pname, tgt))
        self.cov(f'call:{name}')
        if len(self.frames) > 20:
            raise _err(1456, 'Recursive limit exceeded')
        return r, f, outs

    def call_function(self, name, args):
        r = self.db.routines.get(name)
        if r is None or r['kind'] != 'FUNCTION':
            return None
        if len(args) != len(r['params']):
            raise _err(1318, f'Incorrect number of arguments for FUNCTION {name}')
        f = Frame('FUNCTION', name)
        for (_, pname, ty), v in zip(r['params'], args):
            f.types[pname] = ty
            f.vars[pname] = coerce(v, ty)
        self.frames.append(f)
        try:
            self.exec_list((r['body'],), None)
        except _Return as ret:
            return (coerce(ret.value, r['returns']),)
        finally:
            self.frames.pop()
        raise _err(1321, f'FUNCTION {name} ended without RETURN')

    def fire(self, table: Table, timing, event, old, new):
        trigs = self.db.triggers.get((table.name, timing, event))
        if not trigs:
            return
        for tr in trigs:
            f = Frame('TRIGGER', tr['name'])
            f.new = new if (timing == 'BEFORE' and new is not None) else None
            f.new_ro = new
            f.old = old
            f.new_table = table
            self.cov(f'trigger:{tr["name"]}')
            self.frames.append(f)
            saved_rs = self.result_sets
            try:
                self.exec_list((tr['body'],), None)
            except _Leave:
                pass
            finally:
                self.frames.pop()
                self.result_sets = saved_rs

    # -- expression evaluation ---------------------------------------------------------------------
    def ev(self, e, scope):
        tag = e[0]
        m = getattr(self, 'ev_' + tag, None)
        if m is None:
            raise SqlUnsupported(f'expression node {tag}')
        return m(e, scope)

    def ev_lit(self, e, scope):
        return e[1]

    def ev_param(self, e, scope):
        a = self.args
        if a is None:
            raise _err(1064, 'statement has parameters but no arguments were given')
        v = a[e[1]]
        if isinstance(v, bool):
            return int(v)
        if isinstance(v, (bytes, bytearray)):
            return bytes(v).decode('utf-8')
        if isinstance(v, decimal.Decimal):
            return float(v) if v != v.to_integral_value() else int(v)
        return v

    def ev_uvar(self, e, scope):
        return self.uservars.get(e[1])

    def ev_assign(self, e, scope):
        v = self.ev(e[2], scope)
        self.uservars[e[1]] = v
        return v

    def ev_collate(self, e, scope):
        v = self.ev(e[1], scope)
        if isinstance(v, str) and (e[2].endswith('_cs') or e[2].endswith('_bin') or e[2] == 'binary'):
            return CSStr(v)
        if isinstance(v, str):
            return str(v)
        return v

    def _lookup_var(self, name):
        if self.frames:
            f = self.frames[-1]
            if name in f.vars:
                return True, f.vars[name]
        return False, None

    def ev_col(self, e, scope):
        q, name = e[1], e[2]
        if q is None:
            found, v = self._lookup_var(name)
            if found:
                return v
        elif q in ('new', 'old') and self.frames and self.frames[-1].kind == 'TRIGGER':
            f = self.frames[-1]
            row = (f.new if f.new is not None else getattr(f, 'new_ro', None)) if q == 'new' else f.old
            if row is None:
                raise _err(1363, f'There is no {q.upper()} row in this trigger')
            if name not in row:
                raise _err(1054, f"Unknown column '{name}' in '{q.upper()}'")
            return row[name]
        s = scope
        first = True
        while s is not None:
            if q is None and first and s.aliases is not None and name in s.aliases:
                return s.aliases[name]
            if q is not None:
                if q in s.meta:
                    if name not in s.meta[q]:
                        raise _err(1054, f"Unknown column '{q}.{name}' in 'field list'")
                    row = self._row(s, q)
                    return None if row is None else self._read(row, q, name)
            else:
                hits = [a for a, cols in s.meta.items() if name in cols]
                if len(hits) > 1:
                    raise _err(1052, f"Column '{name}' in field list is ambiguous")
                if hits:
                    row = self._row(s, hits[0])
                    return None if row is None else self._read(row, hits[0], name)
                if s.aliases is not None and name in s.aliases:
                    return s.aliases[name]
            first = False
            s = s.parent
        raise _err(1054, f"Unknown column '{(q + '.') if q else ''}{name}' in 'field list'")

    def _row(self, s, alias):
        if s.group is not None:
            return s.group[0].get(alias) if s.group else None
        return s.binding.get(alias)

    def _read(self, row, alias, name):
        rc = self.db.read_cols
        if rc is not None:
            rc.add(name)
        return row[name]

    def ev_star(self, e, scope):
        raise SqlUnsupported('* in this position')

    def ev_un(self, e, scope):
        v = self.ev(e[2], scope)
        if v is None:
            return None
        return -_num(v)

    def ev_not(self, e, scope):
        t = truth(self.ev(e[1], scope))
        return None if t is None else int(not t)

    def ev_and(self, e, scope):
        a = truth(self.ev(e[1], scope))
        if a is False:
            return 0
        b = truth(self.ev(e[2], scope))
        if b is False:
            return 0
        if a is None or b is None:
            return None
        return 1

    def ev_or(self, e, scope):
        a = truth(self.ev(e[1], scope))
        if a is True:
            return 1
        b = truth(self.ev(e[2], scope))
        if b is True:
            return 1
        if a is None or b is None:
            return None
        return 0

    def ev_bin(self, e, scope):
        op = e[1]
        a = self.ev(e[2], scope)
        b = self.ev(e[3], scope)
        if op in ('=', '!=', '<', '<=', '>', '>='):
            if isinstance(a, tuple) or isinstance(b, tuple):
                if op not in ('=', '!='):
                    return self._row_order(a, b, op)
                r = self._row_eq(a, b)
                return r if op == '=' or r is None else int(not r)
            c = cmp_values(a, b)
            if c is None:
                return None
            return int({'=': c == 0, '!=': c != 0, '<': c < 0, '<=': c <= 0, '>': c > 0, '>=': c >= 0}[op])
        if op == '<=>':
            if a is None or b is None:
                return int(a is None and b is None)
            return int(cmp_values(a, b) == 0)
        if a is None or b is None:
            return None
        if op == 'XOR':
            return int(bool(truth(a)) != bool(truth(b)))
        x, y = _num(a), _num(b)
        dec = isinstance(a, Dec) or isinstance(b, Dec)
        if op == '+':
            r = x + y
        elif op == '-':
            r = x - y
        elif op == '*':
            r = x * y
        elif op == '/':
            if y == 0:
                return None
            return x / y
        elif op == 'DIV':
            if y == 0:
                return None
            q = abs(x) // abs(y) if isinstance(x, int) and isinstance(y, int) else int(abs(x) / abs(y))
            return int(q if (x >= 0) == (y >= 0) else -q)
        elif op == '%':
            if y == 0:
                return None
            return math.fmod(x, y) if isinstance(x, float) or isinstance(y, float) else int(math.fmod(x, y))
        elif op == '|':
            return int(x) | int(y)
        elif op == '&':
            return int(x) & int(y)
        elif op == '<<':
            return (int(x) << int(y)) & 0xFFFFFFFFFFFFFFFF
        elif op == '>>':
            return int(x) >> int(y)
        else:
            raise SqlUnsupported(f'operator {op}')
        if dec and isinstance(r, int):
            return Dec(r)
        return r

    def _row_eq(self, a, b):
        if not (isinstance(a, tuple) and isinstance(b, tuple)) or len(a) != len(b):
            raise _err(1241, 'Operand should contain the same number of column(s)')
        unknown = False
        for x, y in zip(a, b):
            c = cmp_values(x, y)
            if c is None:
                unknown = True
            elif c != 0:
                return 0
        return None if unknown else 1

    def _row_order(self, a, b, op):
        """(a1, a2, ..) OP (b1, b2, ..) for OP in < <= > >=: lexicographic, i.e. a1 OP' b1 OR (a1 = b1 AND (a2, ..) OP (b2, ..)) with OP' the strict
        form; evaluated in three-valued logic so a NULL component makes the result NULL exactly when MySQL's expansion does."""
        if not (isinstance(a, tuple) and isinstance(b, tuple)) or len(a) != len(b) or not a:
            raise _err(1241, 'Operand should contain the same number of column(s)')
        strict = op[0]

        def test(x, y, o):
            c = cmp_values(x, y)
            if c is None:
                return None
            return {'<': c < 0, '<=': c <= 0, '>': c > 0, '>=': c >= 0, '=': c == 0}[o]

        def or3(p, q):
            if p is True or q is True:
                return True
            return None if p is None or q is None else False

        def and3(p, q):
            if p is False or q is False:
                return False
            return None if p is None or q is None else True

        def go(i):
            if i == len(a) - 1:
                return test(a[i], b[i], op)
            return or3(test(a[i], b[i], strict), and3(test(a[i], b[i], '='), go(i + 1)))

        r = go(0)
        return None if r is None else int(r)

    def ev_row(self, e, scope):
        return tuple(self.ev(x, scope) for x in e[1])

    def ev_isnull(self, e, scope):
        v = self.ev(e[1], scope)
        r = v is None
        return int(r != e[2])

    def ev_istruth(self, e, scope):
        t = truth(self.ev(e[1], scope))
        r = (t is e[2])
        return int(r != e[3])

    def ev_between(self, e, scope):
        v = self.ev(e[1], scope)
        lo = self.ev(e[2], scope)
        hi = self.ev(e[3], scope)
        a = cmp_values(v, lo)
        b = cmp_values(v, hi)
        if a is None or b is None:
            if (a is not None and a < 0) or (b is not None and b > 0):
                r = 0
            else:
                return None
        else:
            r = int(a >= 0 and b <= 0)
        return int(not r) if e[4] else r

    def ev_like(self, e, scope):
        v = self.ev(e[1], scope)
        p = self.ev(e[2], scope)
        if v is None or p is None:
            return None
        if not isinstance(v, str):
            v = str(coerce(v, 'VARCHAR'))
        rx = []
        i = 0
        p = str(p)
        while i < len(p):
            c = p[i]
            if c == '\\' and i + 1 < len(p):
                rx.append(re.escape(p[i + 1]))
                i += 2
                continue
            if c == '%':
                rx.append('.*')
            elif c == '_':
                rx.append('.')
            else:
                rx.append(re.escape(c))
            i += 1
        flags = re.S if isinstance(v, CSStr) else (re.S | re.I)
        r = re.fullmatch(''.join(rx), _fold(v) if not isinstance(v, CSStr) else v, flags) is not None \
            if isinstance(v, CSStr) else re.fullmatch(''.join(rx), v, flags) is not None
        return int(not r) if e[3] else int(r)

    def ev_in(self, e, scope):
        v = self.ev(e[1], scope)
        neg = e[3]
        if isinstance(e[2], tuple) and e[2][0] == 'subq':
            names, rows, _ = self.run_select(e[2][1], scope)
            width = len(v) if isinstance(v, tuple) else 1
            cands = []
            for r in rows:
                if len(r) != width:
                    raise _err(1241, f'Operand should contain {width} column(s)')
                cands.append(tuple(r) if width > 1 else r[0])
        else:
            cands = []
            for x in e[2]:
                c = self.ev(x, scope)
                if x[0] == 'param' and isinstance(c, (list, tuple, set, frozenset)):
                    cands.extend(c)
                else:
                    cands.append(c)
        unknown = False
        if (v is None) and not isinstance(v, tuple):
            return None if cands else (1 if neg else 0)
        for c in cands:
            if isinstance(v, tuple):
                r = self._row_eq(v, c)
                if r is None:
                    unknown = True
                elif r:
                    return int(not neg)
                continue
            k = cmp_values(v, c)
            if k is None:
                unknown = True
            elif k == 0:
                return int(not neg)
        if unknown:
            return None
        return int(neg)

    def ev_exists(self, e, scope):
        _, rows, _ = self.run_select(e[1], scope, limit_one=True)
        for _ in rows:
            return 1
        return 0

    def ev_subq(self, e, scope):
        names, rows, _ = self.run_select(e[1], scope)
        rows = list(rows)
        if len(rows) > 1:
            raise _err(1242, 'Subquery returns more than 1 row')
        if not rows:
            return None
        if len(rows[0]) != 1:
            return tuple(rows[0])
        return rows[0][0]

    def ev_case(self, e, scope):
        operand, whens, els = e[1], e[2], e[3]
        if operand is not None:
            ov = self.ev(operand, scope)
            for w, th in whens:
                if cmp_values(ov, self.ev(w, scope)) == 0:
                    return self.ev(th, scope)
        else:
            for w, th in whens:
                if truth(self.ev(w, scope)):
                    return self.ev(th, scope)
        return self.ev(els, scope) if els is not None else None

    def ev_cast(self, e, scope):
        v = self.ev(e[1], scope)
        ty = e[2]
        if v is None:
            return None
        if ty in ('SIGNED', 'UNSIGNED', 'INT', 'INTEGER'):
            if isinstance(v, str):
                n = _num(v)
                return int(n) if isinstance(n, int) else coerce(n, 'BIGINT')
            return int(coerce(v, 'BIGINT'))
        if ty == 'DATE':
            return coerce(v, 'DATE')
        if ty in ('CHAR', 'NCHAR', 'BINARY'):
            return coerce(v, 'VARCHAR')
        if ty in ('DOUBLE', 'FLOAT', 'DECIMAL'):
            return float(_num(v))
        if ty == 'JSON':
            if isinstance(v, JsonVal):
                return v
            return JsonVal(json.loads(v)) if isinstance(v, str) else JsonVal(v)
        raise SqlUnsupported(f'CAST AS {ty}')

    def ev_values(self, e, scope):
        s = scope
        while s is not None:
            if '#values' in s.binding:
                return s.binding['#values'][e[1]]
            s = s.parent
        raise _err(1054, 'VALUES() outside ON DUPLICATE KEY UPDATE')

    def ev_window(self, e, scope):
        s = scope
        while s is not None:
            if s.rn is not None and id(e) in s.rn:
                return s.rn[id(e)][s.binding['#rowid']]
            s = s.parent
        raise SqlUnsupported('window function outside select list')

    # -- functions ------------------------------------------------------------------------------------
    def ev_func(self, e, scope):
        name, args = e[1], e[2]
        if name in AGG_FUNCS:
            return self.ev_agg(e, scope)
        fn = getattr(self, 'f_' + name.lower(), None)
        if fn is not None:
            return fn(args, scope)
        lname = name.lower()
        if lname in self.db.routines:
            vals = [self.ev(a, scope) for a in args]
            r = self.call_function(lname, vals)
            if r is not None:
                return r[0]
        raise SqlUnsupported(f'function {name}')

    def _agg_scope(self, scope):
        s = scope
        while s is not None:
            if s.group is not None:
                return s
            s = s.parent
        raise _err(1111, 'Invalid use of group function')

    def ev_agg(self, e, scope):
        name, args, distinct = e[1], e[2], e[3]
        s = self._agg_scope(scope)
        group = s.group
        vals = []
        s.group = None
        saved = s.binding
        try:
            for b in group:
                s.binding = b
                if name in ('JSON_OBJECTAGG',):
                    vals.append((self.ev(args[0], scope), self.ev(args[1], scope)))
                else:
                    vals.append(self.ev(args[0], scope))
        finally:
            s.binding = saved
            s.group = group
        if name == 'JSON_OBJECTAGG':
            d = {}
            for k, v in vals:
                if k is None:
                    raise _err(3158, 'JSON documents may not contain NULL member names.')
                d[str(k)] = self._to_json(v)
            return JsonVal(d) if vals else None
        if name == 'JSON_ARRAYAGG':
            return JsonVal([self._to_json(v) for v in vals]) if vals else None
        nn = [v for v in vals if v is not None]
        if distinct:
            seen, out = set(), []
            for v in nn:
                k = _fold(v) if isinstance(v, str) and not isinstance(v, CSStr) else v
                if k not in seen:
                    seen.add(k)
                    out.append(v)
            nn = out
        if name == 'COUNT':
            return len(nn)
        if not nn:
            return None
        if name == 'SUM':
            nums = [_num(int(v) if isinstance(v, bool) else v) for v in nn]
            tot = sum(nums)
            return Dec(tot) if isinstance(tot, int) else tot
        if name == 'AVG':
            nums = [_num(v) for v in nn]
            return sum(nums) / len(nums)
        if name in ('MIN', 'MAX'):
            best = nn[0]
            for v in nn[1:]:
                c = cmp_values(v, best)
                if (name == 'MIN' and c < 0) or (name == 'MAX' and c > 0):
                    best = v
            return best
        if name == 'BIT_OR':
            r = 0
            for v in nn:
                r |= int(_num(v))
            return r
        raise SqlUnsupported(f'aggregate {name}')

    def _to_json(self, v):
        if isinstance(v, JsonVal):
            return v.v
        if isinstance(v, Dec):
            return int(v)
        if isinstance(v, datetime.date):
            return v.isoformat()
        return v

    def f_coalesce(self, args, scope):
        for a in args:
            v = self.ev(a, scope)
            if v is not None:
                return v
        return None

    def f_ifnull(self, args, scope):
        v = self.ev(args[0], scope)
        return v if v is not None else self.ev(args[1], scope)

    def f_nullif(self, args, scope):
        a = self.ev(args[0], scope)
        b = self.ev(args[1], scope)
        return None if cmp_values(a, b) == 0 else a

    def f_if(self, args, scope):
        return self.ev(args[1], scope) if truth(self.ev(args[0], scope)) else self.ev(args[2], scope)

    def _extreme(self, args, scope, sign):
        vals = [self.ev(a, scope) for a in args]
        if any(v is None for v in vals):
            return None
        best = vals[0]
        for v in vals[1:]:
            if cmp_values(v, best) * sign > 0:
                best = v
        return best

    def f_greatest(self, args, scope):
        return self._extreme(args, scope, 1)

    def f_least(self, args, scope):
        return self._extreme(args, scope, -1)

    def f_floor(self, args, scope):
        v = self.ev(args[0], scope)
        return None if v is None else int(math.floor(_num(v)))

    def f_ceil(self, args, scope):
        v = self.ev(args[0], scope)
        return None if v is None else int(math.ceil(_num(v)))

    f_ceiling = f_ceil

    def f_abs(self, args, scope):
        v = self.ev(args[0], scope)
        return None if v is None else abs(_num(v))

    def f_round(self, args, scope):
        v = self.ev(args[0], scope)
        if v is None:
            return None
        nd = self.ev(args[1], scope) if len(args) > 1 else 0
        x = _num(v)
        q = decimal.Decimal(repr(x)).quantize(decimal.Decimal(1).scaleb(-int(nd)), rounding=decimal.ROUND_HALF_UP)
        return int(q) if nd == 0 else float(q)

    def f_rand(self, args, scope):
        return float(self.db.rand())

    def f_utc_date(self, args, scope):
        return self.db.utc_date()

    f_current_date = f_utc_date
    f_curdate = f_utc_date

    def f_unix_timestamp(self, args, scope):
        return int(self.db.now_ms() // 1000)

    def f_row_count(self, args, scope):
        return self.row_count

    def f_last_insert_id(self, args, scope):
        return self.last_insert_id

    def f_upper(self, args, scope):
        v = self.ev(args[0], scope)
        return None if v is None else type(v)(str(v).upper()) if isinstance(v, CSStr) else (None if v is None else str(v).upper())

    def f_lower(self, args, scope):
        v = self.ev(args[0], scope)
        return None if v is None else str(v).lower()

    def f_replace(self, args, scope):
        s, a, b = (self.ev(x, scope) for x in args)
        if s is None or a is None or b is None:
            return None
        return str(s).replace(str(a), str(b)) if a != '' else str(s)

    def f_concat(self, args, scope):
        vals = [self.ev(a, scope) for a in args]
        if any(v is None for v in vals):
            return None
        return ''.join(str(coerce(v, 'VARCHAR')) for v in vals)

    def f_length(self, args, scope):
        v = self.ev(args[0], scope)
        return None if v is None else len(str(coerce(v, 'VARCHAR')).encode('utf-8'))

    def f_char_length(self, args, scope):
        v = self.ev(args[0], scope)
        return None if v is None else len(str(coerce(v, 'VARCHAR')))

    def f_date(self, args, scope):
        v = self.ev(args[0], scope)
        return None if v is None else coerce(v, 'DATE')

    def f_json_quote(self, args, scope):
        v = self.ev(args[0], scope)
        return None if v is None else json.dumps(str(v), ensure_ascii=False)

    def f_json_object(self, args, scope):
        vals = [self.ev(a, scope) for a in args]
        return JsonVal({str(vals[i]): self._to_json(vals[i + 1]) for i in range(0, len(vals), 2)})

    def f_json_array(self, args, scope):
        return JsonVal([self._to_json(self.ev(a, scope)) for a in args])

    def _as_json(self, v):
        if v is None:
            return None
        if isinstance(v, JsonVal):
            return v
        if isinstance(v, str):
            try:
                return JsonVal(json.loads(v))
            except json.JSONDecodeError:
                raise _err(3141, 'Invalid JSON text in argument to JSON function')
        return JsonVal(self._to_json(v))

    def _json_path(self, doc, path):
        if path == '$':
            return True, doc
        m = re.fullmatch(r'\$((?:\.(?:"[^"]*"|\w+)|\[\d+\])*)', path)
        if not m:
            raise SqlUnsupported(f'JSON path {path!r}')
        cur = doc
        for step in re.findall(r'\.(?:"[^"]*"|\w+)|\[\d+\]', m.group(1)):
            if step.startswith('.'):
                k = step[1:].strip('"')
                if not isinstance(cur, dict) or k not in cur:
                    return False, None
                cur = cur[k]
            else:
                i = int(step[1:-1])
                if not isinstance(cur, list):
                    if i == 0:
                        continue
                    return False, None
                if i >= len(cur):
                    return False, None
                cur = cur[i]
        return True, cur

    def f_json_extract(self, args, scope):
        doc = self._as_json(self.ev(args[0], scope))
        if doc is None:
            return None
        paths = [self.ev(a, scope) for a in args[1:]]
        if any(p is None for p in paths):
            return None
        hits = []
        for p in paths:
            ok, v = self._json_path(doc.v, p)
            if ok:
                hits.append(v)
        if not hits:
            return None
        return JsonVal(hits[0]) if len(paths) == 1 else JsonVal(hits)

    def f_json_unquote(self, args, scope):
        v = self.ev(args[0], scope)
        if v is None:
            return None
        if isinstance(v, JsonVal):
            return v.v if isinstance(v.v, str) else v.dumps()
        if isinstance(v, str) and len(v) >= 2 and v[0] == '"' and v[-1] == '"':
            return json.loads(v)
        return v

    def f_json_contains(self, args, scope):
        target = self._as_json(self.ev(args[0], scope))
        cand = self._as_json(self.ev(args[1], scope))
        if target is None or cand is None:
            return None
        t = target.v
        if len(args) > 2:
            ok, t = self._json_path(t, self.ev(args[2], scope))
            if not ok:
                return None

        def contains(t, c):
            if isinstance(t, dict):
                return isinstance(c, dict) and all(k in t and contains(t[k], v) for k, v in c.items())
            if isinstance(t, list):
                if isinstance(c, list):
                    return all(any(contains(x, y) for x in t) for y in c)
                return any(contains(x, c) for x in t)
            if isinstance(t, str) and isinstance(c, str):  # JSON strings compare binary (CSStr / str subclasses included)
                return str(t) == str(c)
            return type(t) is type(c) and t == c or (isinstance(t, (int, float)) and isinstance(c, (int, float))
                                                    and not isinstance(t, bool) and not isinstance(c, bool) and t == c)

        return int(contains(t, cand.v))

    # -- queries -----------------------------------------------------------------------------------------
    def run_select(self, sel, outer, limit_one=False, want_ctx=None):
        """-> (names, iterator of value-lists, decimal-kind flags).
        want_ctx: a list; if given (plain, non-union select) it receives the select's Scope, and the iterator
        yields (values, source_binding) pairs (used by INSERT .. SELECT .. ON DUPLICATE KEY UPDATE, whose update
        expressions may refer to columns of the SELECT's tables)."""
        if sel.get('kind') == 'union':
            return self._run_union(sel, outer)
        scope = Scope(outer)
        for name, csel in sel.get('ctes') or []:
            cn, cr, cd = self.run_select(csel, scope)
            scope.ctes[name] = (cn, [list(r) for r in cr], cd)
        if want_ctx is not None:
            want_ctx.append(scope)
        return self._run_core(sel, scope, limit_one, want_ctx is not None)

    def _run_union(self, sel, outer):
        scope = Scope(outer)
        for name, csel in sel.get('ctes') or []:
            cn, cr, cd = self.run_select(csel, scope)
            scope.ctes[name] = (cn, [list(r) for r in cr], cd)
        names = None
        out = []
        deck = None
        alls = sel['all']
        for i, part in enumerate(sel['parts']):
            n, rows, dk = self.run_select(part, scope)
            rows = [list(r) for r in rows]
            if names is None:
                names, deck = n, dk
            elif len(n) != len(names):
                raise _err(1222, 'The used SELECT statements have a different number of columns')
            out.extend(rows)
            if i > 0 and not alls[i - 1]:
                out = self._distinct(out)
        if sel.get('order'):
            raise SqlUnsupported('ORDER BY on UNION')
        if sel.get('limit') is not None:
            out = out[: int(self.ev(sel['limit'], scope))]
        return names, iter(out), deck

    @staticmethod
    def _dkey(v):
        if isinstance(v, str) and not isinstance(v, CSStr):
            return ('s', _fold(v))
        if isinstance(v, JsonVal):
            return ('j', v.dumps())
        if isinstance(v, bool):
            return ('n', int(v))
        if isinstance(v, (int, float)):
            return ('n', v)
        return (type(v).__name__, v)

    def _distinct(self, rows):
        seen = set()
        out = []
        for r in rows:
            k = tuple(self._dkey(v) for v in r)
            if k not in seen:
                seen.add(k)
                out.append(r)
        return out

    def _find_cte(self, scope, name):
        s = scope
        while s is not None:
            if name in s.ctes:
                return s.ctes[name]
            s = s.parent
        return None

    def _from_meta(self, node, scope, meta, colkinds):
        """Collect alias -> column names for a FROM tree (needed before rows exist)."""
        tag = node[0]
        if tag == 'table':
            _, name, alias = node
            cte = self._find_cte(scope, name)
            if cte is not None:
                cols = list(cte[0])
                for c, d in zip(cols, cte[2] or []):
                    if d:
                        colkinds[(alias, c)] = True
                        colkinds[('*', c)] = True
            else:
                t = self.db.store.tables.get(name)
                if t is None:
                    raise _err(1146, f"Table '{name}' doesn't exist")
                cols = [c.name for c in t.cols]
                for c in t.cols:
                    if str(c.type).upper() in FLOAT_TYPES:
                        colkinds[('dbl', alias, c.name)] = True
                        colkinds[('dbl', '*', c.name)] = True
            if alias in meta:
                raise _err(1066, f"Not unique table/alias: '{alias}'")
            meta[alias] = cols
        elif tag == 'derived':
            _, dsel, alias, lateral = node
            names, deck = self._select_shape(dsel, scope)
            if alias in meta:
                raise _err(1066, f"Not unique table/alias: '{alias}'")
            meta[alias] = names
            for c, d in zip(names, deck):
                if d:
                    colkinds[(alias, c)] = True
                    colkinds[('*', c)] = True
        elif tag == 'join':
            self._from_meta(node[2], scope, meta, colkinds)
            self._from_meta(node[3], scope, meta, colkinds)
        else:
            raise SqlUnsupported(f'from node {tag}')

    def _select_shape(self, sel, scope):
        """Column names (and decimal kinds) of a select without running it."""
        if sel.get('kind') == 'union':
            return self._select_shape(sel['parts'][0], scope)
        s = Scope(scope)
        for name, csel in sel.get('ctes') or []:
            n, d = self._select_shape(csel, s)
            s.ctes[name] = (n, [], d)
        colkinds = {}
        if sel['from'] is not None:
            self._from_meta(sel['from'], s, s.meta, colkinds)
        names, deck = [], []
        for e, alias in sel['items']:
            if e[0] == 'star':
                for a, cols in s.meta.items():
                    if e[1] is None or e[1] == a:
                        names.extend(cols)
                        deck.extend(colkinds.get((a, c), False) for c in cols)
            else:
                names.append(alias or self._default_name(e))
                deck.append(is_decimal_expr(e, colkinds))
        return names, deck

    def _default_name(self, e):
        if e[0] == 'col':
            return e[2]
        if e[0] == 'lit':
            return 'NULL' if e[1] is None else str(e[1])
        if e[0] == 'func':
            return e[1].lower() + '(...)'
        return e[0]

    _rowid_counter = 0

    def _iter_from(self, node, scope, base):
        """Yield bindings (dict alias -> row|None) for a FROM tree; `base` holds already-bound aliases."""
        tag = node[0]
        if tag == 'table':
            _, name, alias = node
            cte = self._find_cte(scope, name)
            if cte is not None:
                names, rows, _ = cte
                for r in rows:
                    b = dict(base)
                    b[alias] = dict(zip(names, r))
                    yield b
                return
            t = self.db.store.tables[name]
            tm = self.db.txmodel
            for row in (t.scan() if tm is None else tm.scan(self, t, scope)):  # txmodel hook: read view
                b = dict(base)
                b[alias] = row
                yield b
            return
        if tag == 'derived':
            _, dsel, alias, lateral = node
            saved = scope.binding
            scope.binding = base
            try:
                names, rows, _ = self.run_select(dsel, scope)
                rows = [list(r) for r in rows]
            finally:
                scope.binding = saved
            for r in rows:
                b = dict(base)
                b[alias] = dict(zip(names, r))
                yield b
            return
        if tag == 'join':
            _, kind, left, right, on = node
            right_aliases = None
            using = None
            if on is not None and on[0] == 'using':
                la, ra = {}, {}
                self._aliases_of(left, la)
                self._aliases_of(right, ra)
                using = (on[1], list(la), list(ra))
            for lb in self._iter_from(left, scope, base):
                matched = False
                for rb in self._iter_from(right, scope, lb):
                    if using is not None:
                        ok = True
                        for c in using[0]:
                            ls = [a for a in using[1] if a in scope.meta and c in scope.meta[a]]
                            rs_ = [a for a in using[2] if a in scope.meta and c in scope.meta[a]]
                            if len(ls) != 1 or len(rs_) != 1:
                                raise _err(1054 if not ls or not rs_ else 1052, f"Column '{c}' in from clause is unknown or ambiguous")
                            lrow, rrow = rb.get(ls[0]), rb.get(rs_[0])
                            if lrow is None or rrow is None or cmp_values(lrow[c], rrow[c]) != 0:
                                ok = False
                                break
                        if not ok:
                            continue
                    elif on is not None:
                        saved = scope.binding
                        scope.binding = rb
                        try:
                            ok = truth(self.ev(on, scope))
                        finally:
                            scope.binding = saved
                        if not ok:
                            continue
                    matched = True
                    yield rb
                if not matched and kind == 'LEFT':
                    if right_aliases is None:
                        m = {}
                        self._aliases_of(right, m)
                        right_aliases = list(m)
                    b = dict(lb)
                    for a in right_aliases:
                        b[a] = None
                    yield b
            return
        raise SqlUnsupported(f'from node {tag}')

    def _aliases_of(self, node, out):
        if node[0] == 'table':
            out[node[2]] = True
        elif node[0] == 'derived':
            out[node[2]] = True
        else:
            self._aliases_of(node[2], out)
            self._aliases_of(node[3], out)

    def _run_core(self, sel, scope, limit_one=False, with_ctx=False):
        colkinds = {}
        tm = self.db.txmodel
        lock_tables = None
        if tm is not None:  # txmodel hook: locking read (own clause, or source of the enclosing DML statement)
            scope.lock = sel.get('lock') or self.dml_mode
            if scope.lock is not None and sel['from'] is not None:
                lock_tables = {}
                self._base_tables(sel['from'], lock_tables)
        if sel['from'] is not None:
            self._from_meta(sel['from'], scope, scope.meta, colkinds)
            bindings = self._iter_from(sel['from'], scope, {})
        else:
            bindings = iter([{}])
        where = sel['where']
        if lock_tables and where is not None:  # txmodel hook: the gap a locking read protects against inserts (phantoms)
            tm.gap_lock(self, lock_tables, where, scope)

        def filtered():
            for b in bindings:
                if where is not None:
                    scope.binding = b
                    if not truth(self.ev(where, scope)):
                        continue
                if lock_tables:
                    tm.lock_binding(self, lock_tables, b, scope.lock)
                yield b

        items = sel['items']
        # expand stars
        exp_items = []
        for e, alias in items:
            if e[0] == 'star':
                n0 = len(exp_items)
                for a, cols in scope.meta.items():
                    if e[1] is None or e[1] == a:
                        for c in cols:
                            exp_items.append((('col', a, c), None))
                if e[1] is not None and len(exp_items) == n0:
                    raise _err(1051, f"Unknown table '{e[1]}'")
            else:
                exp_items.append((e, alias))
        names = [alias if alias is not None else (_cn(e[2], e[1]) if e[0] == 'col' else self._default_name(e))
                 for e, alias in exp_items]
        deck = [is_decimal_expr(e, colkinds) for e, _ in exp_items]
        group = sel['group']
        having = sel['having']
        order = sel['order']
        aggregated = group is not None or any(has_agg(e) for e, _ in exp_items) or (having is not None and has_agg(having)) \
            or (order is not None and any(has_agg(oe) for oe, _ in order))
        windowed = any(has_window(e) for e, _ in exp_items)
        alias_index = {}
        for i, (e, alias) in enumerate(exp_items):
            if alias is not None and alias not in alias_index:
                alias_index[alias] = i
        # ORDER BY <unqualified name>: MySQL searches the select list first (aliases, then plain column references by their
        # column name, star-expanded ones included) before the FROM tables; a single such select column is not ambiguous
        select_cols = {}
        for i, (e, alias) in enumerate(exp_items):
            if alias is None and e[0] == 'col':
                select_cols.setdefault(e[2], []).append(i)

        def project(b_or_group, is_group):
            if is_group:
                scope.group = b_or_group
                scope.binding = b_or_group[0] if b_or_group else {a: None for a in scope.meta}
            else:
                scope.group = None
                scope.binding = b_or_group
            scope.aliases = None
            vals = []
            for e, _ in exp_items:
                vals.append(self.ev(e, scope))
            return vals

        def gen():
            if aggregated:
                rows_in = list(filtered())
                groups = []
                if group is not None:
                    index = {}
                    for b in rows_in:
                        scope.binding = b
                        scope.group = None
                        scope.aliases = None
                        kv = []
                        for g in group:
                            if g[0] == 'lit' and isinstance(g[1], int):
                                v = self.ev(exp_items[g[1] - 1][0], scope)
                            elif g[0] == 'col' and g[1] is None and not any(g[2] in cols for cols in scope.meta.values()) \
                                    and g[2] in alias_index and not self._lookup_var(g[2])[0]:
                                v = self.ev(exp_items[alias_index[g[2]]][0], scope)
                            else:
                                v = self.ev(g, scope)
                            kv.append(self._dkey(v))
                        k = tuple(kv)
                        if k not in index:
                            index[k] = []
                            groups.append(index[k])
                        index[k].append(b)
                    # MySQL's GROUP BY output order follows the grouping key (implicit index/sort order)
                    try:
                        keyed = sorted(index.items(), key=lambda kv: tuple((x[0], x[1] is None, x[1]) for x in kv[0]))
                        groups = [g for _, g in keyed]
                    except TypeError:
                        pass
                else:
                    groups = [rows_in]
                for g in groups:
                    vals = project(g, True)
                    if having is not None:
                        scope.group = g
                        scope.binding = g[0] if g else {a: None for a in scope.meta}
                        scope.aliases = {a: vals[i] for a, i in alias_index.items()}
                        ok = truth(self.ev(having, scope))
                        scope.aliases = None
                        if not ok:
                            continue
                    yield vals, g
                scope.group = None
            else:
                src = filtered()
                if windowed:
                    rows_in = list(src)
                    scope.rn = {}
                    for i, b in enumerate(rows_in):
                        b['#rowid'] = i
                    for e, _ in exp_items:
                        for w in self._windows(e):
                            keyed = []
                            for b in rows_in:
                                scope.binding = b
                                keyed.append((self._order_key([(self.ev(oe, scope), d) for oe, d in w[2]]), b['#rowid']))
                            keyed.sort(key=lambda kv: kv[0])
                            scope.rn[id(w)] = {rid: n + 1 for n, (_, rid) in enumerate(keyed)}
                    src = iter(rows_in)
                for b in src:
                    vals = project(b, False)
                    if having is not None:
                        scope.aliases = {a: vals[i] for a, i in alias_index.items()}
                        ok = truth(self.ev(having, scope))
                        scope.aliases = None
                        if not ok:
                            continue
                    yield vals, b

        out = gen()
        if order is not None:
            mat = []
            for vals, ctx in out:
                if aggregated:
                    scope.group = ctx
                    scope.binding = ctx[0] if ctx else {a: None for a in scope.meta}
                else:
                    scope.group = None
                    scope.binding = ctx
                scope.aliases = {a: vals[i] for a, i in alias_index.items()}
                ks = []
                for oe, desc in order:
                    if oe[0] == 'lit' and isinstance(oe[1], int):
                        v = vals[oe[1] - 1]
                    elif oe[0] == 'col' and oe[1] is None and oe[2] not in alias_index and len(select_cols.get(oe[2], ())) == 1:
                        v = vals[select_cols[oe[2]][0]]
                    else:
                        v = self.ev(oe, scope)
                    ks.append((v, desc))
                scope.aliases = None
                mat.append((self._order_key(ks), vals))
            scope.group = None
            mat.sort(key=lambda kv: kv[0])
            res = [v for _, v in mat]
        elif with_ctx:
            res = ((vals, (ctx[0] if ctx else {}) if aggregated else ctx) for vals, ctx in out)
            if sel['distinct'] or sel['limit'] is not None or sel['offset'] is not None:
                raise SqlUnsupported('INSERT .. SELECT DISTINCT/LIMIT .. ON DUPLICATE KEY UPDATE')
            return names, res, deck
        else:
            res = (vals for vals, _ in out)
        if sel['distinct']:
            res = self._distinct(list(res))
        if sel['limit'] is not None or sel['offset'] is not None:
            res = list(res)
            off = int(self.ev(sel['offset'], scope)) if sel['offset'] is not None else 0
            lim = int(self.ev(sel['limit'], scope)) if sel['limit'] is not None else None
            res = res[off : off + lim if lim is not None else None]
        return names, iter(res) if not isinstance(res, list) else iter(res), deck

    def _windows(self, e):
        if isinstance(e, tuple):
            if e and e[0] == 'window':
                yield e
                return
            for x in e[1:]:
                yield from self._windows(x)
        elif isinstance(e, list):
            for x in e:
                yield from self._windows(x)

    class _Rev:
        __slots__ = ('k',)

        def __init__(self, k):
            self.k = k

        def __lt__(self, o):
            return o.k < self.k

        def __eq__(self, o):
            return o.k == self.k

    def _order_key(self, ks):
        out = []
        for v, desc in ks:
            if v is None:
                k = (0, 0)
            elif isinstance(v, str):
                k = (1, ('s', _fold(v) if not isinstance(v, CSStr) else str(v)))
            elif isinstance(v, datetime.date):
                k = (1, ('d', v.toordinal()))
            elif isinstance(v, JsonVal):
                k = (1, ('j', v.dumps()))
            else:
                k = (1, ('n', _num(v)))
            out.append(self._Rev(k) if desc else k)
        return tuple(out)

    # -- DML -------------------------------------------------------------------------------------------------
    def _table(self, name) -> Table:
        t = self.db.store.tables.get(name)
        if t is None:
            raise _err(1146, f"Table '{name}' doesn't exist")
        return t

    def _conflict(self, t: Table, row, ignore_key=None):
        if t.pk:
            k = t.key_of(row)
            if k in t.rows and k != ignore_key:
                return k, 'PRIMARY'
        for u in t.uniques:
            uk = t.ukey(u, row)
            if uk is None:
                continue
            for k2, r2 in t.rows.items():
                if k2 == ignore_key:
                    continue
                if t.ukey(u, r2) == uk:
                    return k2, '.'.join(u)
        return None, None

    def exec_insert(self, st, scope):
        _, tname, cols, rows, sel, odku, ignore = st
        t = self._table(tname)
        if cols is None:
            cols = [c.name for c in t.cols]
        for c in cols:
            if c not in t.colmap:
                raise _err(1054, f"Unknown column '{c}' in 'field list'")
        affected = 0
        first_auto = None
        sc = Scope(scope)
        selscopes = []
        srcctx = [None]
        tm = self.db.txmodel

        def source():
            if rows is not None:
                for r in rows:
                    if len(r) != len(cols):
                        raise _err(1136, "Column count doesn't match value count at row 1")
                    yield [self.ev(e, scope) for e in r]
            else:
                plain = sel.get('kind') == 'select' and sel.get('order') is None and odku is not None
                if plain:
                    names, it, _ = self.run_select(sel, scope, want_ctx=selscopes)
                    for r, ctx in it:
                        if len(r) != len(cols):
                            raise _err(1136, "Column count doesn't match value count at row 1")
                        srcctx[0] = ctx
                        yield list(r)
                else:
                    names, it, _ = self.run_select(sel, scope)
                    for r in it:
                        if len(r) != len(cols):
                            raise _err(1136, "Column count doesn't match value count at row 1")
                        yield list(r)

        for vals in source():
            new = {}
            given = dict(zip(cols, vals))
            auto_used = None
            for c in t.cols:
                if c.name in given and not (c.auto and given[c.name] in (None, 0)):
                    v = given[c.name]
                    if v is None and c.notnull:
                        raise _err(1048, f"Column '{c.name}' cannot be null")
                    new[c.name] = coerce(v, c.type, c.cs, c.name)
                elif c.auto:
                    new[c.name] = t.auto_next
                    auto_used = t.auto_next
                elif c.has_default:
                    new[c.name] = coerce(c.default, c.type, c.cs, c.name)
                elif c.notnull:
                    raise _err(1364, f"Field '{c.name}' doesn't have a default value")
                else:
                    new[c.name] = None
            self.fire(t, 'BEFORE', 'INSERT', None, new)
            for c in t.cols:
                if new[c.name] is None and c.notnull:
                    raise _err(1048, f"Column '{c.name}' cannot be null")
            ck, cname = self._conflict(t, new)
            if ck is not None:
                if tm is not None:  # txmodel hook: duplicate-key check locks the existing record
                    tm.lock_row(self, tname, ck, 'X' if odku is not None else 'S')
                if odku is not None:
                    old = t.rows[ck]
                    upd = dict(old)
                    sc.meta = {tname: [c.name for c in t.cols]}
                    sc.binding = {tname: upd, '#values': new}
                    if selscopes and srcctx[0] is not None:
                        # columns of the SELECT's tables are visible in the update expressions (after the target's)
                        src = selscopes[0]
                        saved_binding, saved_group = src.binding, src.group
                        src.binding, src.group = srcctx[0], None
                        sc.parent = src
                    for cn, e in odku:
                        if cn not in t.colmap:
                            raise _err(1054, f"Unknown column '{cn}' in 'field list'")
                        col = t.colmap[cn]
                        v = self.ev(e, sc)
                        if v is None and col.notnull:
                            raise _err(1048, f"Column '{cn}' cannot be null")
                        upd[cn] = coerce(v, col.type, col.cs, cn)
                    if selscopes and srcctx[0] is not None:
                        src.binding, src.group = saved_binding, saved_group
                        sc.parent = scope
                    changed = self._apply_update(t, ck, old, upd)
                    affected += 2 if changed else 0
                    self.row_count = 2 if changed else 0
                    continue
                if ignore:
                    continue
                kv = '-'.join(str(new[c]) for c in (t.pk if cname == 'PRIMARY' else cname.split('.')))
                raise _err(1062, f"Duplicate entry '{kv}' for key '{tname}.{cname}'")
            if t.pk:
                key = t.key_of(new)
            else:
                key = ('#rowid', t.rowid_next)
                self._log(('rowid', tname, t.rowid_next))
                t.rowid_next += 1
            if auto_used is not None or any(c.auto for c in t.cols):
                ac = next(c for c in t.cols if c.auto)
                if new[ac.name] is not None and new[ac.name] >= t.auto_next:
                    self._log(('auto', tname, t.auto_next))
                    t.auto_next = new[ac.name] + 1
                if auto_used is not None and first_auto is None:
                    first_auto = auto_used
            if tm is not None:  # txmodel hook: insert-intention (waits for other sessions' gap locks), then the new record
                tm.insert_intention(self, t, new)
                tm.lock_row(self, tname, key, 'X')
            t.rows[key] = new
            self._log(('ins', tname, key))
            affected += 1
            self.row_count = 1
            self.fire(t, 'AFTER', 'INSERT', None, new)
        if not self.frames:
            self.last_rowcount = affected
            self.row_count = affected
            if first_auto is not None:
                self.last_insert_id = first_auto
                self.stmt_lastrowid = first_auto
        else:
            self.row_count = affected
            if first_auto is not None:
                self.last_insert_id = first_auto

    def _apply_update(self, t: Table, key, old, upd) -> bool:
        """BEFORE UPDATE trigger, uniqueness, store, AFTER UPDATE trigger.  Returns whether the row changed."""
        tm = self.db.txmodel
        if tm is not None:  # txmodel hook
            tm.lock_row(self, t.name, key, 'X')
        self.fire(t, 'BEFORE', 'UPDATE', old, upd)
        for c in t.cols:
            if upd[c.name] is None and c.notnull:
                raise _err(1048, f"Column '{c.name}' cannot be null")
        changed = any(not _same(upd[c.name], old[c.name]) for c in t.cols)
        newkey = key
        if changed:
            if t.pk:
                newkey = t.key_of(upd)
            ck, cname = self._conflict(t, upd, ignore_key=key)
            if ck is not None:
                raise _err(1062, f"Duplicate entry for key '{t.name}.{cname}'")
            if tm is not None and newkey != key:  # txmodel hook
                tm.lock_row(self, t.name, newkey, 'X')
            del t.rows[key]
            t.rows[newkey] = upd
            self._log(('upd', t.name, key, newkey, old))
            obs = self.db.row_observer
            if obs is not None:
                obs(t.name, old, upd)
        self.fire(t, 'AFTER', 'UPDATE', old, upd)
        return changed

    def exec_update(self, st, scope):
        _, refs, assigns, where, order, limit = st
        sc = Scope(scope)
        tm = self.db.txmodel
        if tm is not None:  # txmodel hook: the scan of an UPDATE is a locking read
            sc.lock = 'U'
        colkinds = {}
        self._from_meta(refs, sc, sc.meta, colkinds)
        base_tables = {}
        self._base_tables(refs, base_tables)
        single = refs[0] == 'table'
        # resolve assignment targets
        targets = []
        for q, cname, e in assigns:
            if q is None:
                hits = [a for a in base_tables if cname in sc.meta[a]]
                if len(hits) != 1:
                    if not hits:
                        raise _err(1054, f"Unknown column '{cname}' in 'field list'")
                    raise _err(1052, f"Column '{cname}' in field list is ambiguous")
                q = hits[0]
            elif q not in base_tables:
                if q in sc.meta:
                    raise _err(1288, f"The target table {q} of the UPDATE is not updatable")
                raise _err(1054, f"Unknown column '{q}.{cname}' in 'field list'")
            if cname not in sc.meta[q]:
                raise _err(1054, f"Unknown column '{q}.{cname}' in 'field list'")
            targets.append((q, cname, e))
        bindings = []
        for b in self._iter_from(refs, sc, {}):
            if where is not None:
                sc.binding = b
                if not truth(self.ev(where, sc)):
                    continue
            bindings.append(b)
        if order is not None:
            keyed = []
            for b in bindings:
                sc.binding = b
                keyed.append((self._order_key([(self.ev(oe, sc), d) for oe, d in order]), len(keyed), b))
            keyed.sort(key=lambda x: (x[0], x[1]))
            bindings = [b for _, _, b in keyed]
        if limit is not None:
            bindings = bindings[: int(self.ev(limit, sc))]
        if tm is not None:  # txmodel hook: X on the rows to update, S on the rows of the other joined tables
            tq = {q for q, _, _ in targets}
            for b in bindings:
                tm.lock_binding(self, base_tables, b, 'U', tq)
        affected = 0
        done = set()
        for b in bindings:
            work = {}
            cur = dict(b)
            for q, cname, e in targets:
                row = b.get(q)
                if row is None:
                    continue
                t = self._table(base_tables[q])
                okey = t.key_of(row) if t.pk else next(k for k, r in t.rows.items() if r is row)
                if (q, okey) in done:
                    continue
                # the row may have been changed by an earlier binding's trigger side effects: re-read current version
                if q not in work:
                    live = t.rows.get(okey)
                    if live is None:
                        continue
                    work[q] = (t, okey, live, dict(live))
                    cur[q] = work[q][3]
                sc.binding = cur
                col = t.colmap[cname]
                v = self.ev(e, sc)
                if v is None and col.notnull:
                    raise _err(1048, f"Column '{cname}' cannot be null")
                work[q][3][cname] = coerce(v, col.type, col.cs, cname)
            for q, (t, okey, live, upd) in work.items():
                done.add((q, okey))
                if self._apply_update(t, okey, live, upd):
                    affected += 1
        self.row_count = affected
        if not self.frames:
            self.last_rowcount = affected

    def _base_tables(self, node, out):
        if node[0] == 'table':
            if self._find_cte(None, node[1]) is None and node[1] in self.db.store.tables:
                out[node[2]] = node[1]
        elif node[0] == 'join':
            self._base_tables(node[2], out)
            self._base_tables(node[3], out)

    def exec_delete(self, st, scope):
        _, tname, alias, where, order, limit = st
        if isinstance(alias, tuple):   # DELETE <alias> FROM <table references> WHERE ...
            refs = alias[1]
            sc = Scope(scope)
            if self.db.txmodel is not None:  # txmodel hook: locking scan
                sc.lock = 'U'
            self._from_meta(refs, sc, sc.meta, {})
            base_tables = {}
            self._base_tables(refs, base_tables)
            if tname not in base_tables:
                raise _err(1109, f"Unknown table '{tname}' in MULTI DELETE")
            real = base_tables[tname]
            t = self._table(real)
            for ev in ('BEFORE', 'AFTER'):
                if self.db.triggers.get((real, ev, 'DELETE')):
                    raise SqlUnsupported('DELETE triggers')
            victims = {}
            for b in self._iter_from(refs, sc, {}):
                if where is not None:
                    sc.binding = b
                    if not truth(self.ev(where, sc)):
                        continue
                row = b.get(tname)
                if row is None:
                    continue
                key = t.key_of(row) if t.pk else next(k for k, r in t.rows.items() if r is row)
                victims.setdefault(key, row)
            for key, row in victims.items():
                if self.db.txmodel is not None:  # txmodel hook
                    self.db.txmodel.lock_row(self, real, key, 'X')
            for key, row in victims.items():
                del t.rows[key]
                self._log(('del', real, key, row))
            self.row_count = len(victims)
            if not self.frames:
                self.last_rowcount = len(victims)
            return
        t = self._table(tname)
        for ev in ('BEFORE', 'AFTER'):
            if self.db.triggers.get((tname, ev, 'DELETE')):
                raise SqlUnsupported('DELETE triggers')
        sc = Scope(scope)
        sc.meta = {alias: [c.name for c in t.cols]}
        victims = []
        for key in (sorted(t.rows) if t.pk else list(t.rows)):
            row = t.rows[key]
            sc.binding = {alias: row}
            if where is None or truth(self.ev(where, sc)):
                victims.append((key, row))
        if order is not None:
            keyed = []
            for key, row in victims:
                sc.binding = {alias: row}
                keyed.append((self._order_key([(self.ev(oe, sc), d) for oe, d in order]), len(keyed), key, row))
            keyed.sort(key=lambda x: (x[0], x[1]))
            victims = [(k, r) for _, _, k, r in keyed]
        if limit is not None:
            victims = victims[: int(self.ev(limit, sc))]
        for key, row in victims:
            if self.db.txmodel is not None:  # txmodel hook
                self.db.txmodel.lock_row(self, tname, key, 'X')
        for key, row in victims:
            del t.rows[key]
            self._log(('del', tname, key, row))
        self.row_count = len(victims)
        if not self.frames:
            self.last_rowcount = len(victims)


def _same(a, b):
    if a is None or b is None:
        return a is None and b is None
    if isinstance(a, str) and isinstance(b, str):
        return str(a) == str(b)
    return a == b
