"""Tokeniser for the MySQL subset used by the batch service."""
import re


GAPS = []


class SqlUnsupported(Exception):
    """Syntax/semantics outside the implemented subset: harness gap (exit 2), never a verdict.
    Service code may swallow exceptions, so every occurrence is also recorded in GAPS; the harness
    checks that list after each operation."""

    def __init__(self, *a):
        super().__init__(*a)
        GAPS.append(str(a[0]) if a else 'unsupported')


class SqlSyntaxError(Exception):
    pass


TOKEN_RE = re.compile(
    r"""
    (?P<ws>\s+)
  | (?P<comment>\#[^\n]*|--[ \t][^\n]*|--(?=\n)|/\*.*?\*/)
  | (?P<param>%\([A-Za-z_][A-Za-z_0-9]*\)s|%s)
  | (?P<pct>%%)
  | (?P<num>(?:\d+\.\d*|\.\d+|\d+)(?:[eE][+-]?\d+)?)
  | (?P<uvar>@[A-Za-z_][A-Za-z_0-9$.]*)
  | (?P<id>[A-Za-z_][A-Za-z_0-9$]*)
  | (?P<bq>`(?:[^`]|``)*`)
  | (?P<str>'(?:[^'\\]|\\.|'')*'|"(?:[^"\\]|\\.|"")*")
  | (?P<op><=>|<>|!=|<=|>=|:=|\|\||&&|<<|>>|[-+*/%=<>(),.;!&|^~:])
    """,
    re.X | re.S,
)

_ESC = {'0': '\0', 'n': '\n', 'r': '\r', 't': '\t', 'b': '\b', 'Z': '\x1a', '\\': '\\', "'": "'", '"': '"', '%': '\\%', '_': '\\_'}


def unquote(s):
    q = s[0]
    body = s[1:-1]
    out = []
    i = 0
    while i < len(body):
        c = body[i]
        if c == '\\' and i + 1 < len(body):
            out.append(_ESC.get(body[i + 1], body[i + 1]))
            i += 2
        elif c == q and i + 1 < len(body) and body[i + 1] == q:
            out.append(q)
            i += 2
        else:
            out.append(c)
            i += 1
    return ''.join(out)


class Tok:
    __slots__ = ('kind', 'val', 'up', 'pos')

    def __init__(self, kind, val, pos):
        self.kind = kind  # 'id' (unquoted word), 'qid' (backquoted), 'num', 'str', 'op', 'param', 'uvar', 'eof'
        self.val = val
        self.up = val.upper() if kind == 'id' else None
        self.pos = pos

    def __repr__(self):
        return f'{self.kind}:{self.val!r}'


def tokenize(sql):
    toks = []
    pos = 0
    n = len(sql)
    nparam = 0
    while pos < n:
        m = TOKEN_RE.match(sql, pos)
        if not m:
            raise SqlSyntaxError(f'cannot tokenise at {pos}: {sql[pos:pos+40]!r}')
        kind = m.lastgroup
        text = m.group(kind)
        if kind in ('ws', 'comment'):
            pass
        elif kind == 'param':
            if text == '%s':
                toks.append(Tok('param', nparam, pos))
                nparam += 1
            else:
                toks.append(Tok('param', text[2:-2], pos))
        elif kind == 'pct':
            toks.append(Tok('op', '%', pos))
        elif kind == 'num':
            toks.append(Tok('num', text, pos))
        elif kind == 'uvar':
            toks.append(Tok('uvar', text[1:].lower(), pos))
        elif kind == 'id':
            toks.append(Tok('id', text, pos))
        elif kind == 'bq':
            toks.append(Tok('qid', text[1:-1].replace('``', '`'), pos))
        elif kind == 'str':
            toks.append(Tok('str', unquote(text), pos))
        else:
            toks.append(Tok('op', text, pos))
        pos = m.end()
    toks.append(Tok('eof', '', n))
    return toks
