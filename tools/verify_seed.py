#!/venv/bin/python
"""tools/verify_seed.py <ID> [--keep]   Confirm an independently seeded defect and run the property's check against it.

1. fresh scratch worktree of /repo HEAD, apply <seed>/patch.diff
2. pinned test suite (63 tests) must still pass
3. the seeder's demonstration must FAIL with the change and PASS without it
4. our check (quick tier, VERIF_REPO=scratch) must exit 1 with the change
Results are written to /verif/seeded/<ID>/meta.json next to patch.diff and the demonstration.
"""
import json
import os
import shutil
import subprocess
import sys


def sh(cmd, cwd=None, env=None, timeout=3000):
    p = subprocess.run(cmd, shell=True, cwd=cwd, env=env, capture_output=True, text=True, timeout=timeout)
    return p.returncode, (p.stdout + p.stderr)


def main():
    pid = sys.argv[1]
    tag = sys.argv[2] if len(sys.argv) > 2 and not sys.argv[2].startswith('--') else pid
    seed = f'/tmp/seed-{tag}'
    scratch = f'/tmp/vs-{tag}'
    out = f'/verif/seeded/{tag}'
    meta = json.load(open(f'{seed}/meta.json'))
    demo_cmd = meta.get('demo_cmd', f'/venv/bin/python demo_{pid}.py')
    sh(f'git -C /repo worktree remove --force {scratch}')
    rc, o = sh(f'git -C /repo worktree add --detach {scratch} HEAD')
    assert rc == 0, o
    res = {}
    try:
        rc, o = sh(f'git apply {seed}/patch.diff', cwd=scratch)
        res['patch_applies'] = rc == 0
        if rc != 0:
            res['apply_output'] = o[-500:]
            return res
        rc, o = sh('/venv/bin/python -m pytest -q -p no:cacheprovider auth/test/test_auth_utils.py', cwd=scratch)
        res['pinned_tests'] = o.strip().splitlines()[-1] if o.strip() else ''
        res['pinned_tests_pass'] = rc == 0 and '63 passed' in o
        for f in os.listdir(seed):
            if f.startswith('demo_'):
                shutil.copy(f'{seed}/{f}', f'{scratch}/{f}')
        rc, o = sh(demo_cmd, cwd=scratch, timeout=900)
        res['demo_with_change_rc'] = rc
        res['demo_with_change_tail'] = o[-300:]
        env = dict(os.environ, VERIF_REPO=scratch)
        tier = os.environ.get('SEED_TIER', 'quick')
        res['check_tier'] = tier
        rc, o = sh(f'./check {pid} --tier {tier}', cwd='/verif', env=env, timeout=6000)
        res['check_with_change_rc'] = rc
        res['check_with_change_lines'] = [l[:300] for l in o.splitlines() if l.startswith(('VIOLATION', '  signature', 'HARNESS', pid + ' '))][:12]
        sh('git checkout -- .', cwd=scratch)
        rc, o = sh(demo_cmd, cwd=scratch, timeout=900)
        res['demo_without_change_rc'] = rc
        res['confirmed'] = bool(res['pinned_tests_pass'] and res['demo_with_change_rc'] != 0 and res['demo_without_change_rc'] == 0)
        res['caught'] = res['check_with_change_rc'] == 1
        return res
    finally:
        os.makedirs(out, exist_ok=True)
        for f in os.listdir(seed):
            if f == 'patch.diff' or f.startswith('demo_'):
                shutil.copy(f'{seed}/{f}', f'{out}/{f}')
        meta['verification'] = res
        meta['verified_with'] = f'tools/verify_seed.py {pid}: scratch worktree of /repo HEAD + patch; pytest auth/test/test_auth_utils.py; demo with/without; VERIF_REPO=<scratch> ./check {pid} --tier quick'
        json.dump(meta, open(f'{out}/meta.json', 'w'), indent=1)
        sh(f'git -C /repo worktree remove --force {scratch}')
        if '--keep' not in sys.argv:
            sh(f'git -C /repo worktree remove --force {seed}')
        print(json.dumps(res, indent=1))


if __name__ == '__main__':
    main()
