#!/venv/bin/python
"""Prints the prompt for an independent seeding agent for one property (only the property text + worktree)."""
import json, sys
pid = sys.argv[1]
tag = sys.argv[2] if len(sys.argv) > 2 else pid
hint = sys.argv[3] if len(sys.argv) > 3 else ''
wt = f'/tmp/seed-{tag}'
p = next(json.loads(l) for l in open('/verif/properties.jsonl') if json.loads(l)['id'] == pid)
print(f"""You are helping evaluate a verification effort by producing ONE realistic defect. Work ONLY inside the git worktree {wt} (a checkout of the repository populationgenomics/hail: Python genomics query front end + batch job scheduler service). Do not read or write anything under /verif or /repo, and do not look at other /tmp/seed-* directories.

The property that must be broken (this is all the context you get):
  id: {p['id']}
  title: {p['title']}
  statement: {p['statement']}
  quantified over: {p['quantifier']['text']}
  code it is anchored in: {', '.join(p['anchors']['files'])}
  mechanisms meant to uphold it: {'; '.join(m['name'] + ' (' + m.get('where','') + ')' for m in p['anchors']['mechanism'])}

Task: make a small, realistic change to the source under {wt} (the kind of slip a developer could make in a refactor or "optimisation": an off-by-one, a dropped condition, a reordered pair of statements, a wrong variable, a stale cache, a missing await, two sites that each look fine alone) that BREAKS this property while
  (a) everything still imports/compiles, and
  (b) the repository's pinned test suite still passes: run  `cd {wt} && /venv/bin/python -m pytest -q -p no:cacheprovider auth/test/test_auth_utils.py`  (63 tests; most other test directories cannot run in this sandbox because third-party packages are missing — that is expected), and
  (c) the breakage needs something specific to manifest — a particular interleaving, a fault at a particular point, a multi-step sequence of operations, an unusual input, or two cooperating sites — NOT something ordinary use would expose at once.
Prefer a change in the code the property is anchored in. Keep it to a few lines. Do not add comments that give the change away. Do not simply revert or weaken a recent commit of the repository (look at `git log -15 --stat` and stay away from what those commits touched). {hint}

Then write a demonstration: a small self-contained program `{wt}/demo_{pid}.py` (run with `/venv/bin/python demo_{pid}.py` from {wt}) that exits non-zero / fails an assertion WITH your change and passes (exit 0) WITHOUT it (verify both: do NOT use `git stash` — the stash is shared between worktrees and other people work in sibling worktrees; use `git diff > {wt}/my.diff; git checkout -- <files>; ...; git apply {wt}/my.diff`). Many third-party packages (orjson, pymysql, aiomysql, jinja2, google.*, pyspark, numpy in /venv ...) are NOT installed and there is NO MySQL server and NO JVM build of the engine; the demonstration may therefore stub missing imports (e.g. insert fake modules into sys.modules before importing the target file, or load just the function under test with importlib / ast), or, for SQL / Scala changes that cannot be executed here, be a small faithful simulation of the changed statement's logic over in-memory tables with a clear explanation. Nothing can be installed.

Deliverables, all inside {wt}:
  1. the source change left applied in the worktree (uncommitted),
  2. `patch.diff` = output of `git diff` (must apply to a clean checkout with `git apply`), excluding the demo and meta files,
  3. `demo_{pid}.py`,
  4. `meta.json` = {{"property": "{pid}", "files_changed": [...], "what_breaks": "...", "needs_to_manifest": "the specific schedule / fault / sequence / input", "demo_cmd": "/venv/bin/python demo_{pid}.py", "tests_run": "what you ran and the result"}}.
Finish with a short report: the diff, why the property breaks, what is needed for it to manifest, and the observed demo results with and without the change.""")
