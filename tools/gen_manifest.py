#!/venv/bin/python
"""Regenerates /verif/MANIFEST.json from the table below (validated against the schema)."""
import json
import os
import sys

V = '/verif'
DB = ('Trusted: the minisql interpreter (MySQL subset executing the deployed routine bodies parsed from the working tree; '
      'semantics table in DESIGN.md 2.1), transactions as atomic steps (no InnoDB lock interleavings), fakes for worker / k8s / '
      'file store, the independent Python recomputation used as oracle, the stated bounds.')
TX = (' A second phase explores statement-level interleavings of pairs/triples of these operations (each its own transaction) '
      'under a record-lock model of InnoDB (S/X row locks, locking reads see latest versions, plain reads see pre-images, lock waits, '
      'deadlock victims retried by the real retry layer); every interleaving must end in a state some serial order produces and satisfy the same recomputation. '
      'Not modelled: gap/next-key locks, phantoms, waiter fairness.')
DBT = 'explicit-state BFS over histories of real service operations (Python handlers + SQL executed by an interpreter), canonical-state de-duplication, invariant on every state/transition'
VL = 'Trusted: the virtual asyncio loop (BaseEventLoop subclass with owned clock), the reference model, the stated bounds.'
VLT = 'stateless exhaustive schedule/fault enumeration of the implementation on a controlled event loop (deviation-bounded DFS with state-hash pruning), reference-model oracle'
BE = 'Trusted: the reference model / oracle written from the property statement, the shims named in the evidence assumptions, the stated bounds.'
BET = 'bounded-exhaustive enumeration of inputs/programs (complete up to the size bound, smallest first) executed on the real code against a reference model'

CHECKS = {
    # id: (engine, text, note, technique)
    'C01': ('dbmc', 'Every state reachable within the depth bound from three mid-flight batches (nested groups, always-run jobs, a second update submitted request by request) under real scheduler/canceller sweeps, worker reports incl. duplicates and stale attempts, cancellation of any group, preemption, cleanup sweeps and token-shard flips; per-user and per-group counters recomputed independently from the jobs table in every state.', DB + TX, DBT + '; exhaustive statement-interleaving exploration of operation pairs under a row-lock model'),
    'C02': ('dbmc', 'Every history (to the depth bound) of attempts on two jobs (root / nested group) with resource registrations before or after start (two resources sharing a de-duplicated id), heartbeats, started/complete reports incl. late and repeated ones, unscheduling, preemption, both compaction routines, billing-date and token-shard changes; re-registration of the same resource names with other quantities, the completion report of a non-current attempt; per-job, per-group, per-(project,user) and summed-per-day usage recomputed from attempts x attempt_resources in every state, plus an independent ledger of reported resources (a report handled without error must leave its resources registered); compaction must leave every total unchanged.', DB, DBT),
    'C03': ('dbmc', 'Every sequence (to the depth bound) of the real operations that write an attempt row (schedule, creating/started/complete reports, heartbeats, unschedule with the record of the running sweep and through the real orphan sweep, instance deactivation with each reason) over a 3-value clock on two attempts; the per-transition rules of the statement checked on every row change.', DB, DBT),
    'C04': ('dbmc', 'Same state space as C01; every jobs-row state change is observed at row-update granularity inside the SQL interpreter and judged against the allowed lifecycle relation; group tallies recomputed in every state; worker outcomes Success / Failed / Error.', DB + TX, DBT + '; exhaustive statement-interleaving exploration of operation pairs under a row-lock model'),
    'C06': ('dbmc', 'Same state space as C01; completion flags, n_jobs and tallies of the batch and every visible group recomputed from job states in every state, also through the real readers _get_batch/_get_job_group.', DB + TX, DBT + '; exhaustive statement-interleaving exploration of operation pairs under a row-lock model'),
    'C39': ('dbmc', 'The complete reachable state graph (BFS to fixpoint) of small batches (chain with an always-run sibling; nested groups) under the real scheduler sweep, the real canceller and orphan sweeps, worker success/failure reports, cancellation of any group and one preemption. Safety on every state and row change; liveness by graph analysis: from every state a state with every committed job terminal is reachable by the system\'s own (fair) transitions, and every bottom SCC of the fair sub-graph consists of such states.', DB + ' Liveness is judged under weak fairness of scheduler/canceller sweeps and worker reports with one instance never preempted.', DBT + '; fair-SCC liveness analysis on the explored graph'),
    'C40': ('vloop', 'Real WeightedSemaphore on a virtual loop: every order of runnable callbacks for <=3-4 tasks with weights <= capacity, bodies that return / raise / are cancelled while holding, and waiters cancelled before being queued, while queued, and after being granted but before resuming; capacity bound, full return of weight and no capacity consumed by cancelled waiters judged on every execution.', VL, VLT),
    'C41': ('dbmc', 'Same state space as C01 with the second update committed late or never; jobs of uncommitted updates must stay Pending, never get attempts (the real scheduler sweep is a transition), and never influence counters, tallies or completion (C01/C06 recomputations restricted to committed updates).', DB + TX, DBT + '; exhaustive statement-interleaving exploration of operation pairs under a row-lock model'),
    'C05': ('dbmc', 'Every job DAG on 3 (thorough: 4) jobs x every split of the jobs over update 1 / update 2 x always-run choices; for each program every interleaving (to the depth bound) of the requests of the second update, committed at every possible point, with real scheduler sweeps, success/failure reports and canceller sweeps; readiness gating, cancelled-flag propagation and never-stuck-Pending judged on every row change and state.', DB + TX, DBT + '; exhaustive statement-interleaving exploration of operation pairs under a row-lock model'),
    'C07': ('dbmc', 'Group trees root>g1>g2 with a sibling; cancellation of any group in any order incl. sub-group before ancestor and repeats, interleaved with real scheduler/canceller sweeps, worker reports and a client submitting groups/jobs/updates beneath the groups; confinement, rejection-without-effect, idempotence, unaffected siblings and error-free scheduling requests judged on every transition.', DB, DBT),
    'C08': ('benum', 'Every bunch of 1-2 job specs for an open update (ids in/outside the reserved range; in-update and absolute parents among earlier, self, later, missing incl. an id reserved by an abandoned update) through the real validator and _create_jobs over the interpreted database; well-formed => accepted, committed and driven to completion by the real scheduler sweep; ill-formed => refused with the database unchanged.', DB, BET),
    'C10': ('dbmc', 'Every history (to the depth bound) of schedule / creating / started / complete / unschedule / deactivate / activate events incl. duplicates and stale attempts for two jobs on a pool instance and a job-private instance; free cores recomputed from live attempts in every state and compared with the table and with the driver\'s in-memory Instance mirror.', DB, DBT),
    'C11': ('benum', 'The real PoolScheduler._compute_fair_share on every multiset of <=4 (thorough 5) users over a demand grid x free-core values incl. zero/negative, in several record orders, against exact rational water-filling.', BE, BET),
    'C12': ('benum', 'Every request of a cpu x memory x storage x preemptible x label / machine-type grid through the real front_end._create_jobs pre-processing and InstanceCollectionConfigs.select_inst_coll for every pool deployment the driver admits on gcp and azure; accept side against the statement, reject side against an independent brute force. A crash is classified by whether any collection of the deployment could hold the request.', BE, BET),
    'C13': ('benum', 'Real GCP/Azure instance configs for every admitted pool shape and machine type x disks x locations; all multisets of power-of-two job sizes packed on one worker summed per resource against the whole-worker billing; to_dict/JSON/from_dict reload bills identically.', BE, BET),
    'C15': ('benum', 'Every job spec built from the validator facet table x every batch format version through db_spec/JSON/get_spec_*; every region subset of tables up to 10 (thorough 16) regions plus single/pair/complement sets up to 63 regions through the bitset helpers.', BE, BET),
    'C16': ('vloop', 'Every order of runnable event-loop callbacks of the real FIFOWeightedSemaphore for every configuration of 2-3 (thorough: 4) jobs, weights 1..3, capacity 3, judged against a FIFO reference model at every step.', VL + ' Bodies do not raise or get cancelled.', VLT),
    'C17': ('benum', 'Every labelled dependency digraph on <=3 (thorough 4) DSL jobs (explicit and resource-induced edges, all creation orders, always_run vectors, failing subsets, set iteration orders) through the real Batch/LocalBackend with only subprocess replaced by a recorder. Second phase: the same Batch object is run twice with every single mutation (new job in front / at the end, new dependency edge incl. cycle-closing ones) in between; the second run is judged with the same oracle.', BE, BET),
    'C19': ('benum', 'Real Batch._create_bunches on every list of <=1+4 (thorough 2+5) specs with serialised sizes from a 4-value set, every byte limit from 1 to total+1 and several count limits.', BE, BET),
    'C21': ('vloop', 'Real retry_transient_errors* on a virtual loop: every sequence (smallest first, to length 7) of real exception objects (one per branch of the classification functions, plus chained variants) before success, jitter answers enumerated at both extremes; reference policy written from the statement.', VL, VLT),
    'C22': ('vloop', 'Real Copier/Transfer over real LocalAsyncFS+RouterAsyncFS in a scratch directory on a virtual loop with every thread-pool call a schedulable step; source-tree grammar x file sizes around part boundaries x destination states x treat_dest_as modes x 1-2 transfers; all schedules with <=1 (thorough: 2 for a subset) deviations incl. task-starvation deviations; reference model of the destination rules.', VL, VLT),
    'C23': ('benum', 'Every (size, start, length, read pattern) up to size 6 (thorough 12) on the four real backends (local files; GCS/S3/Azure clients over fakes of the documented wire semantics) against Python slice semantics.', BE + ' The cloud fakes encode the documented range semantics of each service.', BET),
    'C25': ('benum', 'Every string of the documented size grammar up to the digit bounds x all units, against exact rational arithmetic; every short string over an 18-character alphabet plus one-edit neighbours for client/server acceptance equality.', BE, BET),
    'C26': ('vloop', 'Real TimeLimitedMaxSizeCache on a virtual loop with an owned monotonic clock: every order of runnable callbacks x load outcomes (succeeds after k yields / raises) x caller cancellations (creator or sharer, at every choice point) x clock advances around the lifetime, for 2-3 concurrent lookups over keys {a,a,b} and capacity 1-2; size, freshness, single-flight and failure-isolation judged on every execution.', VL, VLT),
    'C27': ('vloop', 'Real gear.database transaction helpers over the aiomysql shim with a transactional in-memory backend: every fault plan with <=2 (thorough 3) injected MySQL errors (9 errnos, raised as the class PyMySQL 1.x raises) at every position of 15 operations.', VL + ' The errno->exception-class map is PyMySQL 1.1.x from memory (no copy in the sandbox).', VLT),
    'C28': ('benum', 'Every string of length <=5 (thorough 6) over 16 class-representative characters (ASCII classes, newline, CR, NUL, space, non-ASCII letters/digits) through the validators and their call site, against two hand-written DFAs.', BE, BET),
    'C29': ('benum', 'Every concatenation of <=5 tokens (plus 6-token sequences over a core alphabet; thorough one more) of URL-significant tokens through validate_next_page_url; for each accepted string the Location the handler sends is resolved by a WHATWG-style reference parser.', BE, BET),
    'C30': ('dbmc', 'Explicit-state BFS over histories of world events (pushes, target moves, reviews, labels, statuses, batch completions, webhook and callback deliveries, CI ticks) where every transition runs the real WatchedBranch/PR code against a fake GitHub and a real batch client over a fake transport; the merge oracle is evaluated on world truth at every accepted merge PUT.', 'Trusted: the fake GitHub (merge PUT succeeds only for the current head of an open PR; branch protection not enforced), the fake batch transport, atomic CI passes, the stated bounds.', DBT),
    'C31': ('benum', 'All types to depth 2-3 x a name set incl. every troublemaker character class as field / genome names: str/dtype round trip, escape/unescape inversion, and every emitted identifier through an engine-lexer acceptor whose accept set is extracted from the current Scala source. Multi-step phase: each genome name is re-bound to a different genome (remove+recreate, overwrite, fresh context) between parses of the same type strings through hl.dtype and the implicit string-type paths; no parsed type may denote a genome no longer registered under that name.', BE, BET),
    'C32': ('benum', 'All types to depth 2 (+ thin depth 3) x per-type value domains (missing everywhere, boundary numbers, NaN/inf, calls, loci, intervals, collections) through the JSON wire conversion and back.', BE, BET),
    'C33': ('benum', 'All types to depth 1-2 x covering value domains incl. n-d arrays in C/Fortran order through the real EncodedLiteral encoding, hail decoder and an independent reference decoder driven by the EType tree the sliced engine code (run on a JVM) declares.', BE + ' Engine side: sliced Scala compiled with Scala 3.3.4 against class-shape stand-ins.', BET),
    'C34': ('benum', 'Every call (ploidy 0-2, phased/unphased) in the stated allele ranges incl. all power-of-two boundaries up to the representable maximum, and genotype indices to 1e5 (thorough 1e6): Python packing vs the sliced engine Call/Genotype code run on a JVM.', BE + ' Engine side: sliced Scala compiled with Scala 3.3.4.', BET),
    'C37': ('benum', 'All 2x2 tables with cells <=12 (thorough 20) and genotype triples <=15 (30) through the sliced engine statistics code run on a JVM, against exact rational references.', BE + ' Distribution classes (hypergeometric, chi-square) are exact stand-ins, so what is verified is hail\'s own arithmetic.', BET),
    'C38': ('benum', 'Real VariantDatasetCombiner planning/step/save/load over a provenance-tracking data plane for every (GVCF count, VDS multiset, branch factor, batch size) in the bounds x every crash/resume plan; even genome partitioning on synthetic genomes.', BE, BET),
    'C14': ('benum', 'Every registered route of the real batch front end (read from its RouteTableDef at run time; an unclassified or undriven route is itself reported) x 9 callers (anonymous, unknown token, inactive, owner, other member, browser session, non-member, developer, auth service; thorough 15) x 7 batch targets (own / other project / deleted / other member\'s / inactive user\'s / with an open update / nonexistent) x 4 billing-project targets x 1-4 request variants incl. replayed tokens, dispatched through the real aiohttp router, CSRF and auth decorators and handlers over the SQL interpreter; outsiders must be refused with the whole database, file store and outbound-call log unchanged, insiders must be served, listings may only show readable rows. History phase: every sequence [request by c] ; [membership / ownership change through the real admin routes: remove / add user, close / reopen project, delete batch, deactivate user, revoke session] ; [request by c] on one front-end process (module state persists within a history, is restored between histories; unresettable new module state is a harness error), judged against the truth after the change.', DB, BET),
    'C09': ('dbmc', 'The real hailtop batch client (Batch.submit with its real retry layer) against the real front-end handlers over the SQL interpreter: every assignment of {delivered once, response lost + retried by the real client, late second delivery, delivered twice} to the <=7 requests of a submission (first / later update, <=3 jobs with dependencies, <=2 nested groups, fast and multi-bunch paths), crossed with a second client\'s update landing at every request and transaction boundary; single batch/update per token, no duplicated jobs, counters recomputed (C01/C06 oracles), contiguous ordered id ranges, client-computed ids equal server ids, and final store equal to the duplicate-free history.', DB, 'bounded-exhaustive enumeration of delivery/retry/interleaving patterns over histories of real client and service operations, differential oracle against the fault-free history'),
    'C20': ('vloop', 'Real bounded_gather / bounded_gather2 (return_exceptions, raise, cancel_on_error) / OnlineBoundedGather2 / WithoutSemaphore on a virtual loop: every order of task steps for P=1-2, <=3 partial functions with bodies that return / raise an Exception / raise a BaseException / raise CancelledError / await an inner future a third party cancels, after 0-2 yields, caller holding a permit or not, nested second call, caller cancellation at every point; bound, order of results, error contract, cancellation and no-task-left-running judged on every execution.', VL, VLT),
    'C24': ('vloop', 'Real RateLimiter on a virtual loop with an owned clock: count 1-2, window 1-2 s, 2-3 entrants arriving at 0/0.5/1/2 s, one optional cancellation at each instant; every order of runnable task steps at each instant; an on-line monitor checks the half-open window bound at every admission and that an admission is never later than the earliest instant the rate allows.', VL, VLT),
    'C35': ('benum', 'Every expression DAG up to 5-6 nodes (thorough 6-7) over literals, arithmetic, if/else, let, struct, array, map/filter/fold lambdas, len, and an aggregation/scan sub-grammar, built three ways (Python API, raw IR, raw IR with fresh Ref objects), rendered by the real CSERenderer; the text is read by an independent S-expression reader with its own binding table: every Ref bound in the right value/agg/scan scope and eval(text) == eval(IR object tree) under 3 valuations.', BE + ' The engine is absent: IR semantics is the reference evaluator\'s (no overflow, strict let, lazy if).', BET),
    'C36': ('benum', 'Prefix tree of Table/MatrixTable programs (3 seed datasets x <=2-3 steps of annotate/select/transmute/key_by/filter/explode/aggregate/join/group_by ... x 244 expression templates, 66 literal values): every cached type is cleared and re-inferred from the emitted IR and compared with the type the front end reports for every expression, sub-node, Ref/binder pair, table and matrix table; literals must satisfy their imputed type.', BE, BET),
    'C18': ('benum', 'Every pipeline of <=3 bash/python jobs over the resource kinds of the statement and all read wirings through the real DSL and ServiceBackend._async_run with a recording batch client; plumbing read off what was submitted.', BE, BET),
}

NOT_APPLICABLE = []
IN_PROGRESS = ['C02', 'C05', 'C07', 'C08', 'C09', 'C10', 'C11', 'C12', 'C13', 'C14', 'C15', 'C19', 'C20', 'C21', 'C22', 'C23', 'C24',
               'C25', 'C26', 'C27', 'C28', 'C29', 'C30', 'C31', 'C32', 'C33', 'C34', 'C35', 'C36', 'C37', 'C38', 'C39', 'C40']

ENGINES = [
    ('boot+shims', 'vf/boot.py', 'import hook + functional/inert stand-ins for third-party packages missing from the sandbox'),
    ('minisql', 'vf/minisql/', 'interpreter for the MySQL subset the batch service uses: executes the deployed stored procedures, functions, triggers and the SQL strings issued by the real Python code'),
    ('dbmc', 'vf/dbmc.py', 'explicit-state breadth-first search over histories of real database-backed operations, sharded over processes'),
    ('vloop', 'vf/vloop.py', 'virtual asyncio event loop + stateless DFS over schedules/faults with deviation bound and state-hash pruning'),
    ('benum', 'vf/par.py', 'bounded-exhaustive input/program enumeration helpers (sharding, seed rotation)'),
    ('jvmslice', 'vf/jvmslice.py', 'slices engine Scala source by name and runs it on the JVM with a Scala 3 compiler found in the sandbox'),
]


def main():
    checks = []
    for pid in sorted(CHECKS):
        engine, text, note, tech = CHECKS[pid]
        if not os.path.exists(f'{V}/vf/props/{pid.lower()}.py'):
            continue
        checks.append({
            'property_id': pid,
            'quick_cmd': f'./check {pid} --tier quick',
            'thorough_cmd': f'./check {pid} --tier thorough',
            'evidence_file': f'/verif/evidence/{pid}.json',
            'replay_cmd_template': f'./check {pid} --replay {{path}}',
            'engine': engine,
            'level_claimed': {'category': 'model_checking', 'text': text, 'design_ref': f'DESIGN.md section 3, {pid}'},
            'level_note': note,
            'technique': tech,
        })
    served = {}
    for c in checks:
        served.setdefault(c['engine'], []).append(c['property_id'])
    m = {
        'version': 1,
        'setup_cmd': './setup.sh',
        'hooks': {
            'guard': 'POPULATIONGENOMICS_HAIL_VERIF',
            'enable': 'no in-repo hooks: every seam (clock, randomness, DB driver, HTTP transport, subprocess) is substituted from outside by the harness; checks export POPULATIONGENOMICS_HAIL_VERIF=1 anyway',
            'baseline_off_cmd': 'cd /repo && env -u POPULATIONGENOMICS_HAIL_VERIF /venv/bin/python -m pytest -ra -q -p no:cacheprovider --timeout=900 --continue-on-collection-errors',
            'source_commits': [],
            'add_only': True,
        },
        'engines': [{'name': n, 'path': p, 'kind_free_text': k, 'serves_properties': served.get(n, [])} for n, p, k in ENGINES],
        'checks': checks,
        'not_applicable': NOT_APPLICABLE,
        'notes': 'All 41 properties are claimed; none is not_applicable. Genuine defects found are in known_findings.json '
                 '(fixed: entries name the fix commit in /repo; open entries are printed as KNOWN-FINDING lines). '
                 'DESIGN.md section 9 describes what was built, false alarms corrected and which independently seeded changes each check catches.',
    }
    sys.path.append(f'{V}/.deps')
    import jsonschema

    jsonschema.validate(m, json.load(open('/root/.vp/MANIFEST.schema.json')))
    json.dump(m, open(f'{V}/MANIFEST.json', 'w'), indent=1)
    print('MANIFEST.json:', len(checks), 'checks')


if __name__ == '__main__':
    main()
