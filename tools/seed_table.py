#!/venv/bin/python
"""Rewrites DESIGN.md section 9.5 (between the markers) from /verif/seeded/*/meta.json."""
import glob, json, os, re
rows = []
for d in sorted(glob.glob('/verif/seeded/*')):
    m = json.load(open(f'{d}/meta.json'))
    v = m.get('verification', {})
    tag = os.path.basename(d)
    caught = 'caught' if v.get('caught') else 'MISSED'
    if m.get('caught_after_strengthening'):
        caught = 'missed at first, caught after strengthening: ' + m['caught_after_strengthening']
    sigs = [l.strip().replace('signature=', '') for l in v.get('check_with_change_lines', []) if 'signature=' in l]
    what = (m.get('what_breaks') or '')[:160].replace('\n', ' ').replace('|', '/')
    need = (m.get('needs_to_manifest') or '')[:140].replace('\n', ' ').replace('|', '/')
    rows.append(f"| {tag} | {', '.join(m.get('files_changed', []))[:70]} | {what} | {need} | {'yes' if v.get('confirmed') else 'NO'} | {caught}{(' (' + ', '.join(sigs[:3]) + ')') if sigs else ''} |")
tab = ('Independent sub-agents were given only a property text and a scratch worktree, and asked for a change that breaks the\n'
       'property while the pinned 63 tests still pass, with a demonstration. Each was confirmed with `tools/verify_seed.py`\n'
       '(fresh worktree + patch; pinned tests; demonstration fails with / passes without the change; the property\'s quick check\n'
       'run with `VERIF_REPO=<worktree>`). Kept under `/verif/seeded/<id>/`.\n\n'
       + f'{len(rows)} seeded changes; {sum(1 for r in rows if "| caught" in r or "caught after strengthening" in r)} are caught by the quick tier of the '
         f'property they were written against, {sum(1 for r in rows if "caught after strengthening" in r)} of them only after the check was strengthened '
         f'(what was missing is recorded per row; the strengthening is described in 9.2); {sum(1 for r in rows if "| MISSED" in r)} are missed.\n\n'
       '| id | files | what breaks | needs | confirmed | our check |\n|---|---|---|---|---|---|\n' + '\n'.join(rows) + '\n')
p = '/verif/DESIGN.md'
s = open(p).read()
B, E = '<!-- seeded:begin -->', '<!-- seeded:end -->'
block = f'{B}\n{tab}{E}'
if B in s:
    s = re.sub(re.escape(B) + '.*?' + re.escape(E), lambda _: block, s, flags=re.S)
else:
    s += '\n### 9.5 Independently seeded changes and which checks catch them\n\n' + block + '\n'
open(p, 'w').write(s)
print(len(rows), 'seeded changes')
